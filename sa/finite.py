"""E10 -- finite-domain, path-sensitive walk of one function under each element of a small abstract space

Branch conditions must evaluate (sa.fold) under the abstract environment (flags, `self.__class__`,
`isinstance(self, K)`); effects are recorded as abstract events (array writes of named constants,
raises, returns).  `for` bodies run once with a context tag.  Anything else is `Unknown`.
This is abstract interpretation over an enumerated domain, not execution of the program.
"""

from __future__ import annotations

import ast
from dataclasses import dataclass, field
from typing import Any, Callable

from sa.fold import ClassRef, Evaluator, Obj, Unknown
from sa.index import dotted_of


class Opaque:
    "a run-time value the abstract domain does not track"

    def __init__(self, text: str = "?") -> None:
        self.text = text

    def __repr__(self) -> str:
        return f"<opaque {self.text}>"


@dataclass
class Trace:
    events: list = field(default_factory=list)  # (kind, detail...)
    outcome: tuple = ("fallthrough", None)


class PathWalker:
    def __init__(self, evaluator: Evaluator, is_tracked_write: Callable[[ast.AST], bool],
                 const_name: Callable[[ast.AST, dict], str | None], opaque_ok: bool = True) -> None:
        self.ev = evaluator
        self.is_tracked_write = is_tracked_write
        self.const_name = const_name

    def run(self, body: list[ast.stmt], env: dict[str, Any]) -> Trace:
        tr = Trace()
        try:
            self._block(body, env, tr, ())
        except _Stop:
            pass
        return tr

    def _cond(self, test: ast.AST, env: dict) -> bool:
        v = self.ev.ev(test, env)
        if isinstance(v, Opaque):
            raise Unknown(f"condition on an untracked value: {ast.unparse(test)[:80]}")
        return bool(v)

    def _block(self, body, env, tr: Trace, ctxt: tuple) -> None:
        for st in body:
            if isinstance(st, ast.Expr):
                if isinstance(st.value, ast.Constant):
                    continue
                tr.events.append(("expr", ast.unparse(st.value)[:80], ctxt))
                continue
            if isinstance(st, (ast.Assign, ast.AnnAssign, ast.AugAssign)):
                tgt = st.targets[0] if isinstance(st, ast.Assign) else st.target
                val = st.value
                if val is None:
                    continue
                if isinstance(tgt, ast.Subscript) and self.is_tracked_write(tgt):
                    cn = self.const_name(val, env)
                    tr.events.append(("write", ast.unparse(tgt), cn if cn is not None else f"?{ast.unparse(val)[:40]}", ctxt))
                    continue
                if isinstance(tgt, ast.Name):
                    try:
                        env[tgt.id] = self.ev.ev(val, env) if not isinstance(st, ast.AugAssign) else Opaque(tgt.id)
                    except Unknown:
                        env[tgt.id] = Opaque(ast.unparse(val)[:40])
                    continue
                if isinstance(tgt, (ast.Tuple, ast.List)):
                    for e in tgt.elts:
                        if isinstance(e, ast.Name):
                            env[e.id] = Opaque(e.id)
                    continue
                tr.events.append(("store", ast.unparse(tgt)[:60], ctxt))
                continue
            if isinstance(st, ast.If):
                self._block(st.body if self._cond(st.test, env) else st.orelse, env, tr, ctxt)
                continue
            if isinstance(st, ast.For):
                e2 = env
                for n in ast.walk(st.target):
                    if isinstance(n, ast.Name):
                        e2[n.id] = Opaque(n.id)
                self._block(st.body, e2, tr, ctxt + (f"for {ast.unparse(st.target)} in {ast.unparse(st.iter)[:50]}",))
                continue
            if isinstance(st, ast.Assert):
                continue
            if isinstance(st, ast.Pass):
                continue
            if isinstance(st, ast.Raise):
                name = None
                if st.exc is not None:
                    name = dotted_of(st.exc.func) if isinstance(st.exc, ast.Call) else dotted_of(st.exc)
                tr.outcome = ("raise", name)
                raise _Stop()
            if isinstance(st, ast.Return):
                v = None
                if st.value is not None:
                    try:
                        v = self.ev.ev(st.value, env)
                    except Unknown:
                        v = Opaque(ast.unparse(st.value)[:40])
                tr.outcome = ("return", v)
                raise _Stop()
            raise Unknown(f"statement kind {type(st).__name__} outside the finite fragment")


class _Stop(Exception):
    pass


def class_hooks(index, module, scope=None) -> dict:
    """hooks for sa.fold.Evaluator: package class names evaluate to ClassRef, isinstance/issubclass on ClassRef
    use the index's MRO"""

    def name_hook(name, env):
        q = index.resolve(module, name, scope)
        if q in index.classes:
            return ClassRef(q)
        raise Unknown(f"free name `{name}`")

    def call_hook(ev, node, env):
        d = dotted_of(node.func)
        if d in ("isinstance", "issubclass") and len(node.args) == 2:
            a = ev.ev(node.args[0], env)
            b = ev.ev(node.args[1], env)
            if isinstance(a, Obj):
                a = ClassRef(a.cls)
            if not isinstance(a, ClassRef):
                raise Unknown("isinstance on an untracked value")
            bs = b if isinstance(b, tuple) else (b,)
            mro = index.mro(index.classes[a.qualname])
            return any(isinstance(x, ClassRef) and x.qualname in mro for x in bs)
        return NotImplemented

    def getattr_hook(obj, attr):
        if attr == "__class__":
            return ClassRef(obj.cls)
        raise Unknown(f"attribute {attr} of abstract instance")

    def classattr_hook(cref, attr):
        if attr == "__mro__":
            return tuple(ClassRef(q) for q in index.mro(index.classes[cref.qualname]))
        if attr == "__name__":
            return cref.qualname.rsplit(".", 1)[-1]
        raise Unknown(f"class attribute {attr}")

    return {"__name__": name_hook, "__call__": call_hook, "__getattr__": getattr_hook, "__classattr__": classattr_hook}
