"""E16 -- rejection conditions: which inputs a function refuses (raise / assert), compared with a confirmed table

For the functions a property quantifies over ("for every maze ... returns"), every `raise` (with the branch literals that lead
to it) and every `assert` is a *rejection condition*: inputs satisfying it do not get the promised result.  The conditions of
the pinned tree were confirmed by reading and are frozen in `reference/exits.json` (function -> polarity-free atom keys).
A rejection condition that tests something none of the confirmed conditions of that function tests - a new comparison, a new
membership / length test - narrows the function's domain: some input the property covers is now refused.  That is reported
as a violation naming the function and the new condition.

What is compared is the set of *atoms* (leaf comparisons in relational normal form, polarity removed, single-definition locals
expanded), not the shape of the conditions: guard clauses vs nested ifs, De Morgan, `assert c` vs `if not c: raise`, reordered
or merged tests all keep the atom set.  Type-narrowing atoms (`isinstance`, `callable`, `hasattr`) are never judged.  Removing
a rejection is not judged here (other clauses decide whether a check is *required*).
"""

from __future__ import annotations

import ast
import json
import os

from sa import astx as X
from sa import normal as N
from sa.report import VERIF_DIR

_REF = None
NARROWING = ("isinstance", "callable", "hasattr", "issubclass")


def reference() -> dict:
    global _REF
    if _REF is None:
        p = os.path.join(VERIF_DIR, "reference", "exits.json")
        _REF = json.load(open(p)) if os.path.exists(p) else {}
    return _REF


import builtins as _bi

_BUILTINS = set(dir(_bi))


def _roots(e: ast.AST) -> set[str]:
    """what a condition is *about*: the free root names it reads (comprehension / lambda variables, builtins and ALL_CAPS module
    constants excluded); for `self` / `cls` the attribute is kept (`self.grid_shape`)"""
    bound: set[str] = set()
    for n in ast.walk(e):
        if isinstance(n, (ast.ListComp, ast.SetComp, ast.GeneratorExp, ast.DictComp)):
            for g in n.generators:
                bound |= {t.id for t in ast.walk(g.target) if isinstance(t, ast.Name)}
        elif isinstance(n, ast.Lambda):
            bound |= {a.arg for a in [*n.args.posonlyargs, *n.args.args, *n.args.kwonlyargs]}
    out: set[str] = set()
    attr_of_self: set[int] = set()
    for n in ast.walk(e):
        if isinstance(n, ast.Attribute) and isinstance(n.value, ast.Name) and n.value.id in ("self", "cls"):
            out.add(f"{n.value.id}.{n.attr}")
            attr_of_self.add(id(n.value))
    for n in ast.walk(e):
        if isinstance(n, ast.Name) and id(n) not in attr_of_self:
            if n.id in bound or n.id in _BUILTINS or (n.id.upper() == n.id and len(n.id) > 1) or n.id in ("np", "numpy", "torch", "self", "cls"):
                continue
            out.add(n.id)
    return out


def _is_narrowing(a) -> bool:
    return a.diff is None and any(a.text.startswith(n + "(") for n in NARROWING)


def rejection_atoms(fn: ast.AST) -> list[tuple[str, str, ast.AST]]:
    "(atom key, readable condition, node) for every atom of every raise path condition / assert test of the function"
    from sa.cfg import build_cfg, path_conditions

    out: list[tuple[str, str, ast.AST]] = []

    # loop variables stand for (elements of) what the loop iterates over
    loop_iter: dict[str, ast.AST] = {}
    for lp in N.walk_no_nested_defs(fn):
        if isinstance(lp, ast.For):
            for t in ast.walk(lp.target):
                if isinstance(t, ast.Name) and t.id not in loop_iter:
                    loop_iter[t.id] = lp.iter

    class _LoopVars(ast.NodeTransformer):
        def __init__(self):
            self.depth = 0

        def visit_Name(self, n):
            if isinstance(n.ctx, ast.Load) and n.id in loop_iter and self.depth < 4:
                self.depth += 1
                try:
                    return self.visit(ast.fix_missing_locations(ast.copy_location(X.expand_locals(loop_iter[n.id], fn), n)))
                finally:
                    self.depth -= 1
            return n

    def add(test: ast.AST, node: ast.AST) -> None:
        try:
            e = X.expand_locals(test, fn)
            e = _LoopVars().visit(e)
            nf = N.boolean_nf(X.substitute_len(X.canon(e)))
        except Exception:
            nf = N.Atom(None, "true", X.U(test))
        for a in N.nf_atoms(nf):
            if _is_narrowing(a):
                continue
            if a.diff is None and a.text in ("True", "False"):
                continue
            # the atom's subject: root symbols of the leaf condition it came from (recovered from the expanded test)
            out.append(("", repr(a)[:140], node))
        for r_ in sorted(_roots(e)):
            out.append((r_, f"reads {r_}", node))

    try:
        g = build_cfg(fn)
        first = g.entry.succ[0][0]
    except Exception:
        g = None
    for n in N.walk_no_nested_defs(fn):
        if isinstance(n, ast.Assert):
            add(n.test, n)
    if g is not None:
        for node in g.nodes:
            if node.kind == "raise" or (node.ast is not None and isinstance(node.ast, ast.Raise)):
                try:
                    ps = path_conditions(g, first, node) if node is not first else [[]]
                except Exception:
                    ps = []
                seen = set()
                for p in ps:
                    for t, _lab in p:
                        if id(t) not in seen:
                            seen.add(id(t))
                            add(t, node.ast)
    return out


def collect(index, prefixes: list[str]) -> dict[str, list[str]]:
    res: dict[str, list[str]] = {}
    for q, f in sorted(index.functions.items()):
        if any(q == p or q.startswith(p) for p in prefixes):
            res[q] = sorted({k for k, _, _ in rejection_atoms(f.node) if k})
    return res


def make_rule(prop: str, rule_id: str, prefixes: list[str]):
    def run(ctx) -> None:
        ref = reference().get("functions", {})
        n_fn = n_atoms = 0
        missing_ref = []
        for q, f in sorted(ctx.index.functions.items()):
            if not any(q == p or q.startswith(p) for p in prefixes):
                continue
            if q not in ref:
                missing_ref.append(q)  # a function that is new w.r.t. the pinned tree (an extracted helper that was not inlined): not judged
                continue
            n_fn += 1
            known = set(ref[q])
            new: dict[int, tuple[list, list, ast.AST]] = {}
            conds: dict[int, list[str]] = {}
            for k, txt, node in rejection_atoms(f.node):
                if not k:
                    n_atoms += 1
                    conds.setdefault(id(node), []).append(txt)
                elif k not in known:
                    new.setdefault(id(node), ([], [], node))[0].append(k)
            for nid, (syms, _, node) in new.items():
                ctx.violation(f, {"new_rejection_condition": conds.get(nid, [X.U(node)[:120]])[:4], "tests_something_no_confirmed_condition_tests": sorted(set(syms)),
                                  "confirmed_subjects_of_this_function": sorted(known)[:12]},
                              "the function rejects (raise / assert) only under the conditions confirmed on the pinned tree",
                              "inputs satisfying the new condition are refused although the property covers them", node=node, rule=rule_id)
        ctx.holds(("-", f"{rule_id} scope", 0), {"functions_judged": n_fn, "rejection_atoms_seen": n_atoms, "new_functions_not_judged": missing_ref[:5]},
                  "every raise / assert of the anchored functions tests only what the confirmed rejection conditions test")
    return run


LM = "maze_dataset.maze.lattice_maze"
MD = "maze_dataset.dataset.maze_dataset"
DS = "maze_dataset.dataset.dataset"
SCOPES: dict[str, list[str]] = {
    "C02": [f"{LM}.LatticeMaze.find_shortest_path", f"{LM}.LatticeMaze.heuristic", f"{LM}.LatticeMaze.get_coord_neighbors", f"{LM}.LatticeMaze.nodes_connected"],
    "C03": [f"{LM}.LatticeMaze.generate_random_path", f"{LM}.LatticeMaze.get_connected_component", f"{MD}._generate_maze_helper", f"{MD}.MazeDataset.generate",
            f"{LM}.SolvedMaze.from_lattice_maze", f"{LM}.SolvedMaze.from_targeted_lattice_maze"],
    "C05": [f"{MD}.MazeDataset.serialize", f"{MD}.MazeDataset._serialize", f"{MD}.MazeDataset.load", f"{MD}.MazeDataset._load", f"{MD}.MazeDataset._collect_generation_meta_unrecorded",
            "maze_dataset.dataset.collected_dataset.MazeDatasetCollection.serialize", "maze_dataset.dataset.collected_dataset.MazeDatasetCollection.load",
            f"{DS}.GPTDataset.save", f"{DS}.GPTDataset.read"],
    "C06": ["maze_dataset.tokenization.maze_tokenizer.", "maze_dataset.token_utils."],
    "C07": [f"{LM}.LatticeMaze._as_tokens", f"{LM}.LatticeMaze.as_tokens", f"{LM}.LatticeMaze._as_coords_and_special_AOTP", f"{LM}.LatticeMaze.from_tokens",
            f"{LM}.LatticeMaze._from_tokens_AOTP", f"{LM}.LatticeMaze.from_adj_list", f"{LM}.LatticeMaze.as_adj_list", "maze_dataset.token_utils.",
            f"{MD}.MazeDataset.as_tokens"],
    "C08": [f"{MD}.MazeDatasetFilters.", f"{MD}.register_maze_filter", f"{DS}.register_dataset_filter", f"{DS}.GPTDataset._apply_filters_from_config",
            f"{DS}._check_filter_equality", f"{MD}.MazeDataset.custom_maze_filter"],
    "C09": [f"{LM}.LatticeMaze.__eq__", f"{LM}.LatticeMaze.__hash__", f"{LM}.SolvedMaze.__hash__", f"{MD}.MazeDataset.__eq__"],
    "C10": [f"{LM}.LatticeMaze._as_pixels_bw", f"{LM}.LatticeMaze.as_pixels", f"{LM}.LatticeMaze._from_pixel_grid", f"{LM}.LatticeMaze.from_pixels",
            f"{LM}.LatticeMaze.as_ascii", f"{LM}.LatticeMaze._as_ascii_grid", f"{LM}.LatticeMaze.from_ascii", f"{LM}.detect_pixels_type"],
    "C11": [f"{DS}.GPTDataset.from_config", f"{DS}.GPTDataset.save", f"{DS}.GPTDataset.read"],
    "C13": [f"{LM}.LatticeMaze.nodes_connected", f"{LM}.LatticeMaze.is_valid_path", f"{LM}.LatticeMaze.coord_degrees", f"{LM}.LatticeMaze.get_coord_neighbors",
            f"{LM}.LatticeMaze.gen_connected_component_from", f"{LM}.LatticeMaze.get_nodes", f"{LM}.LatticeMaze.as_adj_list", f"{LM}.LatticeMaze.from_adj_list",
            f"{LM}.SolvedMaze.get_solution_forking_points", f"{LM}.SolvedMaze.get_solution_path_following_points",
            "maze_dataset.token_utils.connection_list_to_adj_list", "maze_dataset.token_utils.is_connection", "maze_dataset.utils.manhattan_distance",
            "maze_dataset.utils.lattice_connection_array", "maze_dataset.utils.lattice_max_degrees"],
    "C14": ["maze_dataset.tokenization.maze_tokenizer.MazeTokenizer.", "maze_dataset.tokenization.maze_tokenizer.MazeTokenizerModular.encode",
            "maze_dataset.tokenization.maze_tokenizer.MazeTokenizerModular.decode", "maze_dataset.utils.corner_first_ndindex"],
    "C16": ["maze_dataset.dataset.collected_dataset.MazeDatasetCollection."],
    "C17": ["maze_dataset.dataset.rasterized.", f"{LM}._remove_isolated_cells"],
    "C18": [f"{MD}.MazeDatasetConfig.", f"{MD}._load_maze_ctor", f"{DS}._load_applied_filters", "maze_dataset.dataset.collected_dataset.MazeDatasetCollectionConfig."],
    "C20": ["maze_dataset.plotting.plot_maze.MazePlot."],
    "C04": [f"{MD}.MazeDataset.generate", f"{MD}._generate_maze_helper", f"{DS}.GPTDataset.from_config", "maze_dataset.generation.generators."],
    "C15": ["maze_dataset.utils.all_instances", "maze_dataset.utils._all_instances_wrapper", "maze_dataset.utils._apply_validation_func",
            "maze_dataset.tokenization.all_tokenizers.", "maze_dataset.tokenization.maze_tokenizer._TokenizerElement.", "maze_dataset.tokenization.maze_tokenizer.MazeTokenizerModular."],
}


# ------------------------------------------------------------------------------------------------ E17: hidden module state
STATE_WRITERS = {
    # the only functions of the pinned tree that write module-level state (confirmed by reading): explicit, documented setters
    "maze_dataset.dataset.maze_dataset.set_serialize_minimal_threshold": "documented switch of the size threshold",
    "maze_dataset.tokenization.maze_tokenizer.set_tokenizer_hashes_path": "documented path setter",
    "maze_dataset.dataset.maze_dataset._maze_gen_init_worker": "per-process worker configuration (global rebinding), set before any maze is generated",
}


def make_state_rule(prop: str, rule_id: str, prefixes: list[str]):
    """no function in the call closure of the anchored functions writes module-level state (containers assigned at module level,
    `global` rebinding) except the tabulated setters: a result that depends on such state depends on the history of the process
    (caches keyed by less than the full input, memo tables, counters)"""
    def run(ctx) -> None:
        from sa.callgraph import CallGraph

        cg = CallGraph(ctx.index)
        entries = [q for q in sorted(ctx.index.functions) if any(q == p or q.startswith(p) for p in prefixes)]
        closure = cg.closure(entries) if entries else []
        n = 0
        for q in sorted(closure):
            f = ctx.index.functions[q]
            ws = X.module_state_writes(f.node, f.module.assigns)
            n += 1
            if ws and q not in STATE_WRITERS:
                ctx.violation(f, {"writes_module_state": [X.U(w)[:90] for w in ws][:3]},
                              "the anchored functions and what they call keep no state at module level (only the tabulated setters write it)",
                              "a module-level cache / memo makes the result depend on earlier calls in the same process (stale or foreign entries are served)", node=ws[0], rule=rule_id)
        ctx.holds(("-", f"{rule_id} scope", 0), {"entry_functions": len(entries), "functions_in_closure": n, "tabulated_setters": sorted(STATE_WRITERS)},
                  "no function reachable from the anchored functions writes module-level state")
    return run
