"""E16 -- rejection conditions: which inputs a function refuses (raise / assert), compared with a confirmed table

For the functions a property quantifies over ("for every maze ... returns"), every `raise` (with the branch literals that lead
to it) and every `assert` is a *rejection condition*: inputs satisfying it do not get the promised result.  The conditions of
the pinned tree were confirmed by reading and are frozen in `reference/exits.json` (function -> polarity-free atom keys).
A rejection condition that tests something none of the confirmed conditions of that function tests - a new comparison, a new
membership / length test - narrows the function's domain: some input the property covers is now refused.  That is reported
as a violation naming the function and the new condition.

What is compared is the set of *atoms* (leaf comparisons in relational normal form, polarity removed, single-definition locals
expanded), not the shape of the conditions: guard clauses vs nested ifs, De Morgan, `assert c` vs `if not c: raise`, reordered
or merged tests all keep the atom set.  Type-narrowing atoms (`isinstance`, `callable`, `hasattr`) are never judged.  Removing
a rejection is not judged here (other clauses decide whether a check is *required*).
"""

from __future__ import annotations

import ast
import json
import os

from sa import astx as X
from sa import normal as N
from sa.report import VERIF_DIR

_REF = None
NARROWING = ("isinstance", "callable", "hasattr", "issubclass")


def reference() -> dict:
    global _REF
    if _REF is None:
        p = os.path.join(VERIF_DIR, "reference", "exits.json")
        _REF = json.load(open(p)) if os.path.exists(p) else {}
    return _REF


import builtins as _bi

_BUILTINS = set(dir(_bi))


def _roots(e: ast.AST) -> set[str]:
    """what a condition is *about*: the free root names it reads (comprehension / lambda variables, builtins and ALL_CAPS module
    constants excluded); for `self` / `cls` the attribute is kept (`self.grid_shape`)"""
    bound: set[str] = set()
    for n in ast.walk(e):
        if isinstance(n, (ast.ListComp, ast.SetComp, ast.GeneratorExp, ast.DictComp)):
            for g in n.generators:
                bound |= {t.id for t in ast.walk(g.target) if isinstance(t, ast.Name)}
        elif isinstance(n, ast.Lambda):
            bound |= {a.arg for a in [*n.args.posonlyargs, *n.args.args, *n.args.kwonlyargs]}
    out: set[str] = set()
    attr_of_self: set[int] = set()
    for n in ast.walk(e):
        if isinstance(n, ast.Attribute) and isinstance(n.value, ast.Name) and n.value.id in ("self", "cls"):
            out.add(f"{n.value.id}.{n.attr}")
            attr_of_self.add(id(n.value))
    for n in ast.walk(e):
        if isinstance(n, ast.Name) and id(n) not in attr_of_self:
            if n.id in bound or n.id in _BUILTINS or (n.id.upper() == n.id and len(n.id) > 1) or n.id in ("np", "numpy", "torch", "self", "cls"):
                continue
            out.add(n.id)
    return out


def _is_narrowing(a) -> bool:
    return a.diff is None and any(a.text.startswith(n + "(") for n in NARROWING)


def rejection_atoms(fn: ast.AST) -> list[tuple[str, str, ast.AST]]:
    "(atom key, readable condition, node) for every atom of every raise path condition / assert test of the function"
    from sa.cfg import build_cfg, path_conditions

    out: list[tuple[str, str, ast.AST]] = []

    # loop variables stand for (elements of) what the loop iterates over
    loop_iter: dict[str, ast.AST] = {}
    for lp in N.walk_no_nested_defs(fn):
        if isinstance(lp, ast.For):
            for t in ast.walk(lp.target):
                if isinstance(t, ast.Name) and t.id not in loop_iter:
                    loop_iter[t.id] = lp.iter

    class _LoopVars(ast.NodeTransformer):
        def __init__(self):
            self.depth = 0

        def visit_Name(self, n):
            if isinstance(n.ctx, ast.Load) and n.id in loop_iter and self.depth < 4:
                self.depth += 1
                try:
                    return self.visit(ast.fix_missing_locations(ast.copy_location(X.expand_locals(loop_iter[n.id], fn), n)))
                finally:
                    self.depth -= 1
            return n

    def add(test: ast.AST, node: ast.AST) -> None:
        try:
            e = X.expand_locals(test, fn)
            e = _LoopVars().visit(e)
            nf = N.boolean_nf(X.substitute_len(X.canon(e)))
        except Exception:
            nf = N.Atom(None, "true", X.U(test))
        for a in N.nf_atoms(nf):
            if _is_narrowing(a):
                continue
            if a.diff is None and a.text in ("True", "False"):
                continue
            # the atom's subject: root symbols of the leaf condition it came from (recovered from the expanded test)
            out.append(("", repr(a)[:140], node))
        for r_ in sorted(_roots(e)):
            out.append((r_, f"reads {r_}", node))

    try:
        g = build_cfg(fn)
        first = g.entry.succ[0][0]
    except Exception:
        g = None
    for n in N.walk_no_nested_defs(fn):
        if isinstance(n, ast.Assert):
            add(n.test, n)
    if g is not None:
        for node in g.nodes:
            if node.kind == "raise" or (node.ast is not None and isinstance(node.ast, ast.Raise)):
                try:
                    ps = path_conditions(g, first, node) if node is not first else [[]]
                except Exception:
                    ps = []
                seen = set()
                for p in ps:
                    for t, _lab in p:
                        if id(t) not in seen:
                            seen.add(id(t))
                            add(t, node.ast)
    return out


def collect(index, prefixes: list[str]) -> dict[str, list[str]]:
    res: dict[str, list[str]] = {}
    for q, f in sorted(index.functions.items()):
        if any(q == p or q.startswith(p) for p in prefixes):
            res[q] = sorted({k for k, _, _ in rejection_atoms(f.node) if k})
    return res


def make_rule(prop: str, rule_id: str, prefixes: list[str]):
    def run(ctx) -> None:
        ref = reference().get("functions", {})
        n_fn = n_atoms = 0
        missing_ref = []
        for q, f in sorted(ctx.index.functions.items()):
            if not any(q == p or q.startswith(p) for p in prefixes):
                continue
            if q not in ref:
                missing_ref.append(q)  # a function that is new w.r.t. the pinned tree (an extracted helper that was not inlined): not judged
                continue
            n_fn += 1
            known = set(ref[q])
            new: dict[int, tuple[list, list, ast.AST]] = {}
            conds: dict[int, list[str]] = {}
            for k, txt, node in rejection_atoms(f.node):
                if not k:
                    n_atoms += 1
                    conds.setdefault(id(node), []).append(txt)
                elif k not in known:
                    new.setdefault(id(node), ([], [], node))[0].append(k)
            # building the error message must not itself reject: a property read inside `raise X(f"...{self.p}...")` whose body asserts / raises
            # replaces the documented exception by its own
            for st_ in N.walk_no_nested_defs(f.node):
                if not (isinstance(st_, ast.Raise) and st_.exc is not None):
                    continue
                for a_ in ast.walk(st_.exc):
                    if not (isinstance(a_, ast.Attribute) and isinstance(a_.ctx, ast.Load)):
                        continue
                    owners = [m_ for c_ in ctx.index.classes.values() for n_, m_ in c_.methods.items() if n_ == a_.attr and m_.is_property]
                    rejecting = [m_.qualname for m_ in owners if any(not k_ for k_, _, _ in rejection_atoms(m_.node))]
                    reads_here = [k for k in ref.get("__message_reads__", {}).get(q, [])]
                    if rejecting and a_.attr not in reads_here:
                        ctx.violation(f, {"raise": X.U(st_.exc)[:100], "message_reads_property": a_.attr, "which_itself_rejects": rejecting[:2]},
                                      "evaluating the message of a rejection cannot fail",
                                      "when the property's own assertion fails (e.g. `grid_n` on an oblong grid) the caller gets that exception instead of the documented one",
                                      node=st_, rule=rule_id)
            # ... nor does the function start to read such a property on its ordinary path (diagnostics computed eagerly, a tidied-up shortcut)
            rp = rejecting_properties(ctx.index)
            ref_eager = set(reference().get("eager_rejecting_reads", {}).get(q, []))
            for a_name, nodes in eager_attr_reads(f.node).items():
                if a_name in rp and a_name not in ref_eager:
                    ctx.violation(f, {"reads_property": a_name, "which_rejects": rp[a_name][:2], "at": X.U(nodes[0])[:60]},
                                  "on its ordinary path the function reads only properties that cannot fail, or those the pinned tree reads there",
                                  "inputs the function accepted before (e.g. oblong grids, for `grid_n`) now fail with the property's own assertion", node=nodes[0], rule=rule_id)
            for nid, (syms, _, node) in new.items():
                ctx.violation(f, {"new_rejection_condition": conds.get(nid, [X.U(node)[:120]])[:4], "tests_something_no_confirmed_condition_tests": sorted(set(syms)),
                                  "confirmed_subjects_of_this_function": sorted(known)[:12]},
                              "the function rejects (raise / assert) only under the conditions confirmed on the pinned tree",
                              "inputs satisfying the new condition are refused although the property covers them", node=node, rule=rule_id)
        ctx.holds(("-", f"{rule_id} scope", 0), {"functions_judged": n_fn, "rejection_atoms_seen": n_atoms, "new_functions_not_judged": missing_ref[:5]},
                  "every raise / assert of the anchored functions tests only what the confirmed rejection conditions test")
    return run


LM = "maze_dataset.maze.lattice_maze"
MD = "maze_dataset.dataset.maze_dataset"
DS = "maze_dataset.dataset.dataset"
SCOPES: dict[str, list[str]] = {
    "C01": ["maze_dataset.generation.generators.", f"{LM}._fill_edges_with_walls"],
    "C12": ["maze_dataset.generation.generators.", f"{LM}.LatticeMaze.get_connected_component", f"{LM}.LatticeMaze.gen_connected_component_from"],
    "C02": [f"{LM}.LatticeMaze.find_shortest_path", f"{LM}.LatticeMaze.heuristic", f"{LM}.LatticeMaze.get_coord_neighbors", f"{LM}.LatticeMaze.nodes_connected"],
    "C03": [f"{LM}.LatticeMaze.generate_random_path", f"{LM}.LatticeMaze.get_connected_component", f"{MD}._generate_maze_helper", f"{MD}.MazeDataset.generate",
            f"{LM}.SolvedMaze.from_lattice_maze", f"{LM}.SolvedMaze.from_targeted_lattice_maze"],
    "C05": [f"{MD}.MazeDataset.serialize", f"{MD}.MazeDataset._serialize", f"{MD}.MazeDataset.load", f"{MD}.MazeDataset._load", f"{MD}.MazeDataset._collect_generation_meta_unrecorded",
            "maze_dataset.dataset.collected_dataset.MazeDatasetCollection.serialize", "maze_dataset.dataset.collected_dataset.MazeDatasetCollection.load",
            f"{DS}.GPTDataset.save", f"{DS}.GPTDataset.read"],
    "C06": ["maze_dataset.tokenization.maze_tokenizer.", "maze_dataset.token_utils."],
    "C07": [f"{LM}.LatticeMaze._as_tokens", f"{LM}.LatticeMaze.as_tokens", f"{LM}.LatticeMaze._as_coords_and_special_AOTP", f"{LM}.LatticeMaze.from_tokens",
            f"{LM}.LatticeMaze._from_tokens_AOTP", f"{LM}.LatticeMaze.from_adj_list", f"{LM}.LatticeMaze.as_adj_list", "maze_dataset.token_utils.",
            f"{MD}.MazeDataset.as_tokens"],
    "C08": [f"{MD}.MazeDatasetFilters.", f"{MD}.register_maze_filter", f"{DS}.register_dataset_filter", f"{DS}.GPTDataset._apply_filters_from_config",
            f"{DS}._check_filter_equality", f"{MD}.MazeDataset.custom_maze_filter"],
    "C09": [f"{LM}.LatticeMaze.__eq__", f"{LM}.LatticeMaze.__hash__", f"{LM}.SolvedMaze.__hash__", f"{MD}.MazeDataset.__eq__",
            f"{LM}.TargetedLatticeMaze.__post_init__", f"{LM}.SolvedMaze.__init__"],
    "C10": [f"{LM}.LatticeMaze._as_pixels_bw", f"{LM}.LatticeMaze.as_pixels", f"{LM}.LatticeMaze._from_pixel_grid", f"{LM}.LatticeMaze.from_pixels",
            f"{LM}.LatticeMaze.as_ascii", f"{LM}.LatticeMaze._as_ascii_grid", f"{LM}.LatticeMaze.from_ascii", f"{LM}.detect_pixels_type"],
    "C11": [f"{DS}.GPTDataset.from_config", f"{DS}.GPTDataset.save", f"{DS}.GPTDataset.read"],
    "C13": [f"{LM}.LatticeMaze.nodes_connected", f"{LM}.LatticeMaze.is_valid_path", f"{LM}.LatticeMaze.coord_degrees", f"{LM}.LatticeMaze.get_coord_neighbors",
            f"{LM}.LatticeMaze.gen_connected_component_from", f"{LM}.LatticeMaze.get_nodes", f"{LM}.LatticeMaze.as_adj_list", f"{LM}.LatticeMaze.from_adj_list",
            f"{LM}.SolvedMaze.get_solution_forking_points", f"{LM}.SolvedMaze.get_solution_path_following_points",
            "maze_dataset.token_utils.connection_list_to_adj_list", "maze_dataset.token_utils.is_connection", "maze_dataset.utils.manhattan_distance",
            "maze_dataset.utils.lattice_connection_array", "maze_dataset.utils.lattice_max_degrees"],
    "C14": ["maze_dataset.tokenization.maze_tokenizer.MazeTokenizer.", "maze_dataset.tokenization.maze_tokenizer.MazeTokenizerModular.encode",
            "maze_dataset.tokenization.maze_tokenizer.MazeTokenizerModular.decode", "maze_dataset.utils.corner_first_ndindex"],
    "C16": ["maze_dataset.dataset.collected_dataset.MazeDatasetCollection."],
    "C17": ["maze_dataset.dataset.rasterized.", f"{LM}._remove_isolated_cells"],
    "C18": [f"{MD}.MazeDatasetConfig.", f"{MD}._load_maze_ctor", f"{DS}._load_applied_filters", "maze_dataset.dataset.collected_dataset.MazeDatasetCollectionConfig."],
    "C20": ["maze_dataset.plotting.plot_maze.MazePlot."],
    "C04": [f"{MD}.MazeDataset.generate", f"{MD}._generate_maze_helper", f"{DS}.GPTDataset.from_config", "maze_dataset.generation.generators."],
    "C15": ["maze_dataset.utils.all_instances", "maze_dataset.utils._all_instances_wrapper", "maze_dataset.utils._apply_validation_func",
            "maze_dataset.tokenization.all_tokenizers.", "maze_dataset.tokenization.maze_tokenizer._TokenizerElement.", "maze_dataset.tokenization.maze_tokenizer.MazeTokenizerModular."],
}


# ------------------------------------------------------------------------------------------------ E17: hidden module state
STATE_WRITERS = {
    # the only functions of the pinned tree that write module-level state (confirmed by reading): explicit, documented setters
    "maze_dataset.dataset.maze_dataset.set_serialize_minimal_threshold": "documented switch of the size threshold",
    "maze_dataset.tokenization.maze_tokenizer.set_tokenizer_hashes_path": "documented path setter",
    "maze_dataset.dataset.maze_dataset._maze_gen_init_worker": "per-process worker configuration (global rebinding), set before any maze is generated",
}


def memoised_ok() -> dict:
    """memoised functions of the pinned tree whose results are mutable (reference/exits.json["memoised"], confirmed by reading):
    argument-less enumerations of all tokenizers, and cached properties of frozen tokenizer / collected-dataset objects that are
    derived from the object's own fields"""
    return reference().get("memoised", {})


_MEMO_DECORATORS = {"cache", "lru_cache", "functools.cache", "functools.lru_cache", "cached_property", "functools.cached_property"}
_IMMUTABLE_RESULTS = {"int", "float", "bool", "str", "bytes", "None", "complex", "frozenset", "tuple", "type", "Coord", "CoordTup"} - {"Coord"}


def _immutable_annotation(a: ast.AST | None) -> bool:
    "does the return annotation name a type whose values cannot be changed in place (so that sharing one result object is unobservable)?"
    if a is None:
        return False
    if isinstance(a, ast.Constant):
        if a.value is None:
            return True
        if isinstance(a.value, str):
            try:
                return _immutable_annotation(ast.parse(a.value, mode="eval").body)
            except SyntaxError:
                return False
        return False
    if isinstance(a, ast.Name):
        return a.id in _IMMUTABLE_RESULTS
    if isinstance(a, ast.BinOp) and isinstance(a.op, ast.BitOr):
        return _immutable_annotation(a.left) and _immutable_annotation(a.right)
    if isinstance(a, ast.Subscript):
        head = X.U(a.value)
        if head in ("tuple", "Tuple", "typing.Tuple", "frozenset", "FrozenSet"):
            elts = a.slice.elts if isinstance(a.slice, ast.Tuple) else [a.slice]
            return all(isinstance(e, ast.Constant) and e.value is Ellipsis or _immutable_annotation(e) for e in elts)
        if head in ("Optional", "typing.Optional", "Union", "typing.Union"):
            elts = a.slice.elts if isinstance(a.slice, ast.Tuple) else [a.slice]
            return all(_immutable_annotation(e) for e in elts)
    return False


def memoised_mutable(fn_node: ast.AST) -> str | None:
    "the memoising decorator of a function whose result can be changed in place by a caller (None: not memoised / immutable result)"
    for d in getattr(fn_node, "decorator_list", []):
        head = d.func if isinstance(d, ast.Call) else d
        name = X.U(head)
        if (name in _MEMO_DECORATORS or name.rsplit(".", 1)[-1] in ("lru_cache", "cache", "cached_property")) and not _immutable_annotation(getattr(fn_node, "returns", None)):
            return X.U(d)
    return None


NARROW_DTYPES = {"int8", "uint8", "int16", "uint16", "float16", "short", "byte", "ubyte", "ushort", "half"}


def eager_attr_reads(fn_node: ast.AST) -> dict[str, list[ast.AST]]:
    """attribute names read by a function *outside* the message of an assert and outside the expression of a raise (those are evaluated only on
    the failing path): name -> nodes"""
    lazy: set[int] = set()
    for n in N.walk_no_nested_defs(fn_node):
        if isinstance(n, ast.Assert) and n.msg is not None:
            lazy |= {id(x) for x in ast.walk(n.msg)}
        if isinstance(n, ast.Raise) and n.exc is not None:
            lazy |= {id(x) for x in ast.walk(n.exc)}
    out: dict[str, list[ast.AST]] = {}
    for n in N.walk_no_nested_defs(fn_node):
        if isinstance(n, ast.Attribute) and isinstance(n.ctx, ast.Load) and id(n) not in lazy:
            out.setdefault(n.attr, []).append(n)
    return out


def rejecting_properties(index) -> dict[str, list[str]]:
    "property name -> qualnames of the properties of that name whose body asserts / raises (reading them can fail)"
    out: dict[str, list[str]] = {}
    for c_ in index.classes.values():
        for n_, m_ in c_.methods.items():
            if m_.is_property and any(not k_ for k_, _, _ in rejection_atoms(m_.node)):
                out.setdefault(n_, []).append(m_.qualname)
    return out


def narrowing_casts(fn_node: ast.AST) -> list[tuple[str, ast.AST]]:
    """array constructions / casts with a narrow element type in a function: `f(..., dtype=np.int8)`, `x.astype(np.int8)`, `np.int8(x)` -
    (normalised text, node).  A coordinate, length or index stored in 8 or 16 bits wraps silently once a grid side / a count exceeds the range"""
    out = []

    def narrow(e) -> str | None:
        t = X.U(e)
        leaf = t.rsplit(".", 1)[-1].strip("'\"")
        return leaf if leaf in NARROW_DTYPES and (t.startswith(("np.", "numpy.", "torch.")) or isinstance(e, ast.Constant)) else None
    for n in N.walk_no_nested_defs(fn_node):
        if not isinstance(n, ast.Call):
            continue
        d = next((narrow(k.value) for k in n.keywords if k.arg == "dtype" and narrow(k.value)), None)
        if d is None and isinstance(n.func, ast.Attribute) and n.func.attr in ("astype", "to", "type") and n.args and narrow(n.args[0]):
            d = narrow(n.args[0])
        if d is None and narrow(n.func) and n.args:
            d = narrow(n.func)
        if d is not None:
            head = X.U(n.func) if not (isinstance(n.func, ast.Attribute) and n.func.attr in ("astype", "to", "type")) else "." + n.func.attr
            out.append((f"{head}:{d}", n))
    return out


def decorator_texts(fn_node: ast.AST) -> list[str]:
    return [X.U(d) for d in getattr(fn_node, "decorator_list", [])]


SAFE_DECORATORS = {"staticmethod", "classmethod", "property", "functools.wraps", "wraps", "abstractmethod", "abc.abstractmethod", "typing.overload", "overload",
                   "typing.no_type_check", "typing.final", "final", "typing.override", "override"}


def stateful_wrapper(dec_fn: ast.AST, module_names) -> list[str]:
    """state a decorator defined in the package keeps between calls of the function it wraps: writes to module-level containers, to the
    instance passed as first argument of the inner wrapper, or to a container created in the decorator body (closure cell)"""
    found = []
    MUT = {"append", "extend", "insert", "pop", "remove", "clear", "update", "setdefault", "add", "discard", "popitem", "__setitem__"}
    cells = {t.id for st in getattr(dec_fn, "body", []) if isinstance(st, (ast.Assign, ast.AnnAssign)) and getattr(st, "value", None) is not None
             for t in (st.targets if isinstance(st, ast.Assign) else [st.target]) if isinstance(t, ast.Name)}
    for inner in ast.walk(dec_fn):
        if not isinstance(inner, (ast.FunctionDef, ast.Lambda)) or inner is dec_fn:
            continue
        if isinstance(inner, ast.FunctionDef):
            w, _ = X.self_state_uses(inner)
            found += [f"instance state `{a}` written by the wrapper" for a in w]
            found += [f"module state written by the wrapper: {X.U(x)[:60]}" for x in X.module_state_writes(inner, module_names)]
            if any(isinstance(x, ast.Nonlocal) for x in ast.walk(inner)):
                found.append("nonlocal rebinding in the wrapper")
        for x in ast.walk(inner):
            tg = None
            if isinstance(x, ast.Assign):
                tg = x.targets[0]
            elif isinstance(x, ast.AugAssign):
                tg = x.target
            if isinstance(tg, ast.Subscript) and isinstance(tg.value, ast.Name) and tg.value.id in cells:
                found.append(f"closure container `{tg.value.id}` written by the wrapper")
            if isinstance(x, ast.Call) and isinstance(x.func, ast.Attribute) and x.func.attr in MUT and isinstance(x.func.value, ast.Name) and x.func.value.id in cells:
                found.append(f"closure container `{x.func.value.id}` mutated by the wrapper")
            # attributes stored on the wrapped function object (`func.cache = {}` style memo)
            if isinstance(tg, (ast.Attribute, ast.Subscript)):
                b = tg
                while isinstance(b, (ast.Attribute, ast.Subscript)):
                    b = b.value
                a0 = getattr(dec_fn, "args", None)
                if isinstance(b, ast.Name) and a0 is not None and b.id in {p_.arg for p_ in a0.args}:
                    found.append(f"state stored on the decorated function `{b.id}`")
    return sorted(set(found))


def mutable_default_leaks(fn_node: ast.AST) -> list[tuple[str, str]]:
    """parameters whose default is a mutable container built once at definition time ({} / [] / set() / dict() / list()) and which the body mutates,
    returns or stores: (parameter, how).  One object is then shared by all calls that rely on the default"""
    a = getattr(fn_node, "args", None)
    if a is None:
        return []
    pos = [*a.posonlyargs, *a.args]
    pairs = list(zip(pos[len(pos) - len(a.defaults):], a.defaults)) + [(p_, d_) for p_, d_ in zip(a.kwonlyargs, a.kw_defaults) if d_ is not None]
    MUT = {"append", "extend", "insert", "pop", "remove", "clear", "update", "setdefault", "add", "discard", "popitem", "sort", "reverse"}
    out = []
    for p_, d_ in pairs:
        mutable = isinstance(d_, (ast.Dict, ast.List, ast.Set, ast.ListComp, ast.DictComp, ast.SetComp)) or \
            (isinstance(d_, ast.Call) and X.U(d_.func) in ("dict", "list", "set", "collections.defaultdict", "defaultdict", "bytearray") )
        if not mutable:
            continue
        name = p_.arg
        rebound = any(isinstance(n, ast.Name) and n.id == name and isinstance(n.ctx, ast.Store) for n in N.walk_no_nested_defs(fn_node))
        for n in N.walk_no_nested_defs(fn_node):
            if isinstance(n, ast.Call) and isinstance(n.func, ast.Attribute) and n.func.attr in MUT and isinstance(n.func.value, ast.Name) and n.func.value.id == name:
                out.append((name, f"mutated: {X.U(n)[:50]}"))
            if isinstance(n, (ast.Assign, ast.AugAssign)):
                for t_ in (n.targets if isinstance(n, ast.Assign) else [n.target]):
                    if isinstance(t_, ast.Subscript) and isinstance(t_.value, ast.Name) and t_.value.id == name:
                        out.append((name, f"mutated: {X.U(n)[:50]}"))
                v_ = n.value
                if not isinstance(n, ast.AugAssign) and any(isinstance(x, ast.Name) and x.id == name for x in ast.walk(v_)) and \
                        any(isinstance(t_, (ast.Attribute, ast.Subscript)) for t_ in n.targets) and not rebound:
                    out.append((name, f"stored: {X.U(n)[:50]}"))
            if isinstance(n, ast.Return) and n.value is not None and not rebound:
                # returned as it is (possibly as the fallback of `x or default` / a conditional expression), not as an argument of a call that copies it
                def bare(e):
                    if isinstance(e, ast.Name):
                        return e.id == name
                    if isinstance(e, ast.BoolOp):
                        return any(bare(v) for v in e.values)
                    if isinstance(e, ast.IfExp):
                        return bare(e.body) or bare(e.orelse)
                    return False
                if bare(n.value):
                    out.append((name, f"returned: {X.U(n)[:50]}"))
    return sorted(set(out))


CONSTRUCTORS = ("__init__", "__post_init__", "__new__", "__init_subclass__")


def instance_state(index) -> dict[str, dict[str, str]]:
    """class qualname -> {attribute: usage} over all methods of the class, usage a subset of "c" (written in a constructor), "w" (written in
    another method), "r" (read)"""
    out: dict[str, dict[str, str]] = {}
    for cq, c in sorted(index.classes.items()):
        use: dict[str, set] = {}
        for name, m in c.methods.items():
            if m.is_static or m.is_classmethod:
                continue
            w, r = X.self_state_uses(m.node)
            for a in w:
                use.setdefault(a, set()).add("c" if name in CONSTRUCTORS else "w")
            for a in r:
                use.setdefault(a, set()).add("r")
        out[cq] = {a: "".join(sorted(u)) for a, u in sorted(use.items())}
    return out


def make_narrowing_rule(prop: str, rule_id: str, prefixes: list[str]):
    """no function in the call closure of the anchored functions stores coordinates / lengths / indices in a narrower element type than the pinned
    tree does there (reference/exits.json["narrowing"], the narrow casts confirmed by reading: serialised int8 solutions, uint8 pixels, int8
    adjacency lists): a new 8/16-bit cast wraps silently as soon as a grid side or a count exceeds the type's range"""
    def run(ctx) -> None:
        from sa.callgraph import CallGraph

        cg = CallGraph(ctx.index)
        # plus the functions every maze object passes through on its way to any consumer: the compact storage formats and the constructors
        data_path = [f"{MD}.MazeDataset._serialize_minimal", f"{MD}.MazeDataset._load_minimal", f"{LM}.SolvedMaze.__init__", f"{LM}.TargetedLatticeMaze.__post_init__"]
        entries = [q for q in sorted(ctx.index.functions) if any(q == p or q.startswith(p) for p in [*prefixes, *data_path])]
        closure = cg.closure(entries) if entries else []
        ref = reference().get("narrowing", {})
        n = 0
        for q in sorted(closure):
            f = ctx.index.functions[q]
            cur = narrowing_casts(f.node)
            n += 1
            left = list(ref.get(q, []))
            for key, node in cur:
                if key in left:
                    left.remove(key)
                    continue
                ctx.violation(f, {"narrow_cast": X.U(node)[:100], "kind": key, "pinned_tree_has_here": sorted(ref.get(q, []))},
                              "functions reachable from the anchored functions narrow element types only where the pinned tree does",
                              "values beyond the narrow type's range (a coordinate >= 128 in int8, a length >= 256 in uint8 ...) wrap around silently: the result "
                              "leaves the grid / names other cells", node=node, rule=rule_id)
        # module-level constants that the reachable functions use (lookup tables such as NEIGHBORS_MASK): a narrow element type there makes every
        # `coordinate + table` stay narrow when the coordinate is narrow too
        used_names = {x.id for q in closure for x in ast.walk(ctx.index.functions[q].node) if isinstance(x, ast.Name)}
        ref_mod = reference().get("narrowing_module_level", {})
        for m in ctx.index.modules.values():
            for name, node in m.assign_nodes.items():
                if name not in used_names:
                    continue
                left = list(ref_mod.get(f"{m.name}.{name}", []))
                for key, cast in narrowing_casts(ast.Module(body=[node], type_ignores=[])):
                    if key in left:
                        left.remove(key)
                        continue
                    ctx.violation((m.relpath, f"{m.name}.{name}", getattr(node, "lineno", 0)), {"narrow_cast": X.U(cast)[:100], "kind": key},
                                  "module-level tables used by the reachable functions keep the element type the pinned tree gives them",
                                  "arithmetic of a narrow coordinate with the narrow table no longer widens: 127 + 1 wraps to -128 and the neighbour is discarded as out of bounds",
                                  node=cast, rule=rule_id)
        ctx.holds(("-", f"{rule_id} scope", 0), {"entry_functions": len(entries), "functions_in_closure": n, "narrow_casts_in_pinned_tree": sum(len(v) for v in ref.values())},
                  "no new narrowing cast in any function reachable from the anchored functions")
    return run


def make_state_rule(prop: str, rule_id: str, prefixes: list[str]):
    """no function in the call closure of the anchored functions writes module-level state (containers assigned at module level,
    `global` rebinding) except the tabulated setters: a result that depends on such state depends on the history of the process
    (caches keyed by less than the full input, memo tables, counters)"""
    def run(ctx) -> None:
        from sa.callgraph import CallGraph

        cg = CallGraph(ctx.index)
        entries = [q for q in sorted(ctx.index.functions) if any(q == p or q.startswith(p) for p in prefixes)]
        closure = cg.closure(entries) if entries else []
        n = 0
        for q in sorted(closure):
            f = ctx.index.functions[q]
            ws = X.module_state_writes(f.node, f.module.assigns)
            n += 1
            ref_decos = list(reference().get("decorators", {}).get(q, []))
            for d_ in getattr(f.node, "decorator_list", []):
                t_ = X.U(d_)
                if t_ in ref_decos:
                    ref_decos.remove(t_)
                    continue
                head = X.U(d_.func) if isinstance(d_, ast.Call) else t_
                if head in SAFE_DECORATORS or head in _MEMO_DECORATORS or head.rsplit(".", 1)[-1] in ("lru_cache", "cache", "cached_property"):
                    continue
                target = None
                try:
                    target = ctx.index.functions.get(ctx.index.resolve(f.module, head, f.cls))
                except Exception:
                    target = None
                if target is None:
                    ctx.unknown(f, {"new_decorator": t_}, "a decorator that the pinned tree does not apply here is defined in the package, so that its wrapper can be read",
                                "what the wrapper does to the function's behaviour cannot be seen", rule=rule_id)
                    continue
                st_ = stateful_wrapper(target.node, target.module.assigns)
                if st_:
                    ctx.violation(f, {"new_decorator": t_, "defined_at": target.qualname, "state": st_[:3]},
                                  "a decorator added to a function reachable from the anchored functions keeps no state between calls",
                                  "the wrapper memoises / counts across calls: results depend on the history of the object or process (stale entries survive "
                                  "changes of the inputs they were computed from)", rule=rule_id)
            ref_md = set(map(tuple, reference().get("mutable_defaults", {}).get(q, [])))
            for pname, how in mutable_default_leaks(f.node):
                if (pname, how.split(":")[0]) in ref_md:
                    continue
                ctx.violation(f, {"parameter": pname, "default_object": how},
                              "no function reachable from the anchored functions hands out or changes a mutable default argument",
                              "the default container is created once: what one call puts into it (or into the object it returned) is seen by every later call that relies on the default", rule=rule_id)
            memo = memoised_mutable(f.node)
            if memo and q not in memoised_ok():
                ctx.violation(f, {"memoised_by": memo, "returns": X.U(f.node.returns) if f.node.returns is not None else None},
                              "no function reachable from the anchored functions is memoised unless its result is immutable (int / str / tuple of those ...)",
                              "every caller gets the same object: once one of them changes it in place (draws on a picture, appends to a list), all later "
                              "calls with equal arguments return the changed value", rule=rule_id)
            if ws and q not in STATE_WRITERS:
                ctx.violation(f, {"writes_module_state": [X.U(w)[:90] for w in ws][:3]},
                              "the anchored functions and what they call keep no state at module level (only the tabulated setters write it)",
                              "a module-level cache / memo makes the result depend on earlier calls in the same process (stale or foreign entries are served)", node=ws[0], rule=rule_id)
        # hidden instance state: an attribute that no class of the pinned tree has (reference/exits.json["instance_state"]), is not declared at
        # class level, and is written by a non-constructor method and read back: a per-object memo / cache / counter
        ref_state = reference().get("instance_state", {})
        known = {a for attrs in ref_state.values() for a in attrs}
        for c_ in ctx.index.classes.values():
            known |= set(c_.fields) | set(c_.assigns) | set(c_.methods)
        cur_state = instance_state(ctx.index)
        n_cls = 0
        for cq in sorted({ctx.index.functions[q].cls.qualname for q in closure if ctx.index.functions[q].cls is not None}):
            n_cls += 1
            cur = cur_state.get(cq, {})
            gone = [a for a, u in ref_state.get(cq, {}).items() if a not in cur]
            for a, u in cur.items():
                if a in known or not ("w" in u and "r" in u):
                    continue
                twin = next((g for g in gone if ref_state[cq][g] == u), None)
                if twin is not None:
                    gone.remove(twin)  # an attribute of the pinned tree with the same usage vanished: a rename
                    continue
                c_ = ctx.index.classes[cq]
                where = [m for m in c_.methods.values() if a in X.self_state_uses(m.node)[0] and m.name not in CONSTRUCTORS]
                readers = sorted(m.name for m in c_.methods.values() if a in X.self_state_uses(m.node)[1])
                if not any(m.qualname in closure for m in c_.methods.values() if a in X.self_state_uses(m.node)[0] or a in X.self_state_uses(m.node)[1]):
                    continue
                ctx.violation(where[0], {"new_instance_state": a, "written_by": sorted(m.name for m in where), "read_by": readers},
                              "methods reachable from the anchored functions keep no state on the object beyond the attributes the pinned tree has",
                              "a per-object memo / cache makes the result depend on earlier calls on the same object: it survives changes of the inputs it was "
                              "computed from (options, fields, added values), and hands the same mutable result to every caller", rule=rule_id)
        ctx.holds(("-", f"{rule_id} scope", 0), {"entry_functions": len(entries), "functions_in_closure": n, "tabulated_setters": sorted(STATE_WRITERS), "classes_checked_for_instance_state": n_cls},
                  "no function reachable from the anchored functions writes module-level state")
    return run
