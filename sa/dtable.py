"""E14 -- decision tables: what a function does under every truth assignment of a few named conditions

A rule names *atoms* (boolean conditions, each given by one or more source spellings) and gets back, for every assignment of
truth values to the atoms, the *outcome* of a path-sensitive walk of the function body under that assignment:

    ("return", <expression with the path's local definitions substituted>)   ("raise", <exception name>)
    ("fallthrough", None)                                                    ("unknown", <why>)

plus the side effects met on the way (stores through attributes / subscripts, expression statements, loops).  Branch tests are
evaluated structurally (and / or / not / conditional expressions) down to leaves; a leaf must be one of the atoms (or its
negation, in relational normal form) - otherwise the outcome for that assignment is "unknown".  Locals assigned on the path are
tracked symbolically (name -> expression), so `x = A if c else B; return f(x)` and `if c: return f(A) ... return f(B)` give the
same table.  This is abstract interpretation over an enumerated boolean domain: nothing of the repository is executed.

Because the table is semantic, it is invariant under if/else <-> guard clauses, De Morgan, branch swapping, early returns,
conditional expressions vs statements and the introduction of temporaries.
"""

from __future__ import annotations

import ast
import copy
import itertools
from typing import Any

from sa import astx as X
from sa import normal as N


class _Unknown(Exception):
    pass


class _Done(Exception):
    pass


class _NewAtom(Exception):
    def __init__(self, expr: ast.AST) -> None:
        self.expr = expr


def _nfkey(e: ast.AST):
    try:
        return N.nf_key(N.boolean_nf(e))
    except Exception:
        return None


class DecisionTable:
    def __init__(self, fn: ast.AST, atoms: dict[str, list[str]], max_atoms: int = 7, discover: bool = True, module_consts: dict | None = None) -> None:
        """`discover`: a branch condition that is none of the named atoms becomes an extra atom `?<source>` (both truth values are
        enumerated): the rule's expectation does not mention it, so the outcome must not depend on it"""
        self.fn = fn
        self.discover = discover
        self.max_atoms = max_atoms
        self.module_consts: dict[str, ast.AST] = dict(module_consts or {})
        self.names = list(atoms)
        if len(self.names) > max_atoms:
            raise ValueError("too many atoms")
        self.atom_dumps: dict[str, set[str]] = {}
        self.atom_keys: dict[str, set] = {}
        self.atom_negkeys: dict[str, set] = {}
        for a, srcs in atoms.items():
            exprs = [ast.parse(s, mode="eval").body for s in srcs]
            self.atom_dumps[a] = {X.norm_dump(e) for e in exprs}
            self.atom_keys[a] = {k for k in (_nfkey(e) for e in exprs) if k is not None}
            self.atom_negkeys[a] = {k for k in (_nfkey(ast.UnaryOp(op=ast.Not(), operand=e)) for e in exprs) if k is not None}

    # ------------------------------------------------------------------ evaluation of tests
    def _subst(self, e: ast.AST, env: dict[str, ast.AST]) -> ast.AST:
        class T(ast.NodeTransformer):
            def visit_Name(s, n: ast.Name):
                if isinstance(n.ctx, ast.Load) and n.id in env:
                    return copy.deepcopy(env[n.id])
                return n

            def visit_ListComp(s, n):  # bound variables shadow
                return s._comp(n)

            visit_SetComp = visit_GeneratorExp = visit_DictComp = visit_ListComp

            def _comp(s, n):
                bound = {t.id for g in n.generators for t in ast.walk(g.target) if isinstance(t, ast.Name)}
                saved = {k: env[k] for k in bound if k in env}
                for k in saved:
                    del env[k]
                try:
                    return s.generic_visit(n)
                finally:
                    env.update(saved)

            def visit_Lambda(s, n):
                bound = {a.arg for a in [*n.args.posonlyargs, *n.args.args, *n.args.kwonlyargs]}
                saved = {k: env[k] for k in bound if k in env}
                for k in saved:
                    del env[k]
                try:
                    return s.generic_visit(n)
                finally:
                    env.update(saved)

        return ast.fix_missing_locations(T().visit(copy.deepcopy(e)))

    def _leaf(self, e: ast.AST, asg: dict[str, bool]) -> bool:
        d = X.norm_dump(e)
        for a in self.names:
            if d in self.atom_dumps[a]:
                return asg[a]
        k = _nfkey(e)
        if k is not None:
            for a in self.names:
                if k in self.atom_keys[a]:
                    return asg[a]
                if k in self.atom_negkeys[a]:
                    return not asg[a]
        if self.discover and isinstance(e, (ast.Compare, ast.Call, ast.Name, ast.Attribute, ast.Subscript)):
            raise _NewAtom(e)
        raise _Unknown(f"condition `{X.U(e)[:90]}` is not one of the atoms")

    def truth(self, e: ast.AST, asg: dict[str, bool]) -> bool:
        if isinstance(e, (ast.BoolOp, ast.IfExp, ast.Constant)) or (isinstance(e, ast.UnaryOp) and isinstance(e.op, ast.Not)):
            d, self.discover = self.discover, False
            try:
                return self._leaf(e, asg)  # a compound test may itself be an atom
            except _Unknown:
                pass
            finally:
                self.discover = d
        if isinstance(e, ast.BoolOp):
            if isinstance(e.op, ast.And):
                for v in e.values:
                    if not self.truth(v, asg):
                        return False
                return True
            for v in e.values:
                if self.truth(v, asg):
                    return True
            return False
        if isinstance(e, ast.UnaryOp) and isinstance(e.op, ast.Not):
            return not self.truth(e.operand, asg)
        if isinstance(e, ast.IfExp):
            return self.truth(e.body if self.truth(e.test, asg) else e.orelse, asg)
        if isinstance(e, ast.Constant):
            return bool(e.value)
        if isinstance(e, ast.Call) and X.U(e.func) == "bool" and len(e.args) == 1:
            return self.truth(e.args[0], asg)
        if isinstance(e, ast.Compare) and len(e.ops) == 1 and isinstance(e.ops[0], (ast.Is, ast.IsNot, ast.Eq, ast.NotEq)) \
                and isinstance(e.comparators[0], ast.Constant) and isinstance(e.comparators[0].value, bool):
            v = self.truth(e.left, asg)
            same = v == e.comparators[0].value
            return same if isinstance(e.ops[0], (ast.Is, ast.Eq)) else not same
        return self._leaf(e, asg)

    def resolve(self, e: ast.AST, asg: dict[str, bool]) -> ast.AST:
        "replace conditional sub-expressions whose test is decidable by the selected arm"
        dt = self

        class T(ast.NodeTransformer):
            def visit_IfExp(s, n: ast.IfExp):
                try:
                    t = dt.truth(n.test, asg)
                except _Unknown:
                    return s.generic_visit(n)
                return s.visit(n.body if t else n.orelse)

        return ast.fix_missing_locations(T().visit(copy.deepcopy(e)))

    # ------------------------------------------------------------------ walking
    def _walk(self, body: list[ast.stmt], env: dict, asg: dict, effects: list) -> None:
        for st in body:
            if isinstance(st, ast.Expr) and isinstance(st.value, ast.Constant):
                continue
            if isinstance(st, (ast.Pass, ast.Import, ast.ImportFrom, ast.Global, ast.Nonlocal, ast.FunctionDef, ast.ClassDef)):
                continue
            if isinstance(st, ast.If):
                t = self.truth(self._subst(st.test, env), asg)
                self._walk(st.body if t else st.orelse, env, asg, effects)
                continue
            if isinstance(st, ast.Return):
                v = None if st.value is None else self.resolve(self._subst(st.value, env), asg)
                self.outcome = ("return", v)
                raise _Done()
            if isinstance(st, ast.Raise):
                nm = None
                if st.exc is not None:
                    nm = X.U(st.exc.func) if isinstance(st.exc, ast.Call) else X.U(st.exc)
                self.outcome = ("raise", nm)
                raise _Done()
            if isinstance(st, (ast.Assign, ast.AnnAssign)):
                if getattr(st, "value", None) is None:
                    continue
                val = self.resolve(self._subst(st.value, env), asg)
                tgs = st.targets if isinstance(st, ast.Assign) else [st.target]
                for tg in tgs:
                    if isinstance(tg, ast.Name):
                        env[tg.id] = val
                    elif isinstance(tg, (ast.Tuple, ast.List)) and isinstance(val, (ast.Tuple, ast.List)) and len(val.elts) == len(tg.elts) \
                            and all(isinstance(t, ast.Name) for t in tg.elts):
                        for t, v in zip(tg.elts, val.elts):
                            env[t.id] = v
                    elif isinstance(tg, (ast.Tuple, ast.List)) and all(isinstance(t, ast.Name) for t in tg.elts) \
                            and isinstance(val, (ast.Attribute, ast.Name, ast.Subscript)):
                        # `a, b = x.shape` : a is x.shape[0], b is x.shape[1]
                        for i_, t in enumerate(tg.elts):
                            env[t.id] = ast.Subscript(value=copy.deepcopy(val), slice=ast.Constant(i_), ctx=ast.Load())
                    elif isinstance(tg, (ast.Tuple, ast.List)):
                        for t in ast.walk(tg):
                            if isinstance(t, ast.Name):
                                env.pop(t.id, None)
                    else:
                        effects.append(("store", X.U(self._subst(tg, env)), X.U(val)))
                continue
            if isinstance(st, ast.AugAssign):
                if isinstance(st.target, ast.Name):
                    cur = env.get(st.target.id, ast.Name(id=st.target.id, ctx=ast.Load()))
                    env[st.target.id] = ast.BinOp(left=copy.deepcopy(cur), op=st.op, right=self.resolve(self._subst(st.value, env), asg))
                else:
                    effects.append(("augstore", X.U(self._subst(st.target, env)), X.U(self._subst(st.value, env))))
                continue
            if isinstance(st, ast.Expr):
                effects.append(("expr", X.U(self.resolve(self._subst(st.value, env), asg))))
                continue
            if isinstance(st, ast.Assert):
                effects.append(("assert", X.U(self._subst(st.test, env))))
                continue
            if isinstance(st, ast.With):
                for it in st.items:
                    effects.append(("with", X.U(self._subst(it.context_expr, env))))
                    if it.optional_vars is not None:
                        for t in ast.walk(it.optional_vars):
                            if isinstance(t, ast.Name):
                                env.pop(t.id, None)
                self._walk(st.body, env, asg, effects)
                continue
            if isinstance(st, ast.For) and not st.orelse and not any(isinstance(n, (ast.Break, ast.Continue)) for n in ast.walk(st)):
                items = self._const_items(self._subst(st.iter, env))
                if items is not None:
                    # a loop over a literal (or module-constant) sequence of constants is unrolled
                    for it_ in items:
                        tg = st.target
                        if isinstance(tg, ast.Name):
                            env[tg.id] = it_
                        elif isinstance(tg, (ast.Tuple, ast.List)) and isinstance(it_, (ast.Tuple, ast.List)) and len(tg.elts) == len(it_.elts) \
                                and all(isinstance(t, ast.Name) for t in tg.elts):
                            for t, v in zip(tg.elts, it_.elts):
                                env[t.id] = v
                        else:
                            raise _Unknown("loop target")
                        self._walk(st.body, env, asg, effects)
                    continue
            if isinstance(st, (ast.For, ast.While)):
                effects.append(("loop", X.U(self._subst(st.iter, env)) if isinstance(st, ast.For) else X.U(st.test)))
                for n in ast.walk(st):
                    if isinstance(n, ast.Name) and isinstance(n.ctx, ast.Store):
                        env.pop(n.id, None)
                if any(isinstance(n, (ast.Return, ast.Raise)) for n in ast.walk(st)):
                    raise _Unknown("exit inside a loop")
                continue
            if isinstance(st, ast.Try):
                effects.append(("try", ""))
                self._walk(st.body, env, asg, effects)
                self._walk(st.orelse, env, asg, effects)
                self._walk(st.finalbody, env, asg, effects)
                continue
            if isinstance(st, ast.Delete):
                continue
            raise _Unknown(f"statement kind {type(st).__name__}")

    def _const_items(self, it: ast.AST):
        "elements of a literal tuple/list of constants (or of constant tuples), possibly given by a module-level constant name"
        if isinstance(it, ast.Name) and it.id in self.module_consts:
            it = self.module_consts[it.id]
        if isinstance(it, (ast.Tuple, ast.List)) and 1 <= len(it.elts) <= 8:
            def const(e):
                return isinstance(e, ast.Constant) or (isinstance(e, ast.UnaryOp) and isinstance(e.operand, ast.Constant)) \
                    or (isinstance(e, (ast.Tuple, ast.List)) and all(const(x) for x in e.elts))
            if all(const(e) for e in it.elts):
                return list(it.elts)
        return None

    def rows(self) -> list[dict]:
        for _ in range(8):
            try:
                return self._rows()
            except _NewAtom as na:
                name = "?" + X.U(na.expr)[:80]
                if name in self.names or len(self.names) >= self.max_atoms + 2:
                    self.discover = False
                    continue
                self.names.append(name)
                self.atom_dumps[name] = {X.norm_dump(na.expr)}
                k = _nfkey(na.expr)
                self.atom_keys[name] = {k} if k is not None else set()
                nk = _nfkey(ast.UnaryOp(op=ast.Not(), operand=na.expr))
                self.atom_negkeys[name] = {nk} if nk is not None else set()
        self.discover = False
        return self._rows()

    def _rows(self) -> list[dict]:
        out = []
        body = list(self.fn.body)
        for vals in itertools.product((False, True), repeat=len(self.names)):
            asg = dict(zip(self.names, vals))
            env: dict[str, ast.AST] = {}
            effects: list = []
            self.outcome = ("fallthrough", None)
            try:
                self._walk(body, env, asg, effects)
            except _Done:
                pass
            except _Unknown as e:
                self.outcome = ("unknown", str(e))
            out.append({"assignment": asg, "outcome": self.outcome, "effects": effects, "env": env})
        return out


def table(fn: ast.AST, atoms: dict[str, list[str]], module_consts: dict | None = None) -> list[dict]:
    return DecisionTable(fn, atoms, module_consts=module_consts).rows()


def outcome_str(o: tuple) -> str:
    k, v = o
    if k == "return":
        return "return " + (X.U(v) if v is not None else "None")
    return k + ("" if v is None else f" {v}")


def judge_table(rows: list[dict], expected) -> tuple[bool | None, list[dict]]:
    """`expected(assignment) -> predicate(outcome) -> bool`; returns (verdict, per-row report).  Any row whose outcome is unknown
    makes the verdict None unless some decided row already contradicts the expectation."""
    rep, bad, unk = [], False, False
    for r in rows:
        k = r["outcome"][0]
        if k == "unknown":
            unk = True
            ok = None
        else:
            ok = bool(expected(r["assignment"])(r["outcome"]))
            bad = bad or not ok
        rep.append({"when": {a: v for a, v in r["assignment"].items()}, "outcome": outcome_str(r["outcome"])[:160], "ok": ok})
    return (False if bad else None if unk else True), rep
