"""E10/E11 -- a small, total evaluator for a pure expression fragment

Used for constant folding of module-level declarations (vocabulary, defaults) and for
evaluating predicates over *finite abstract domains* (field tables, element-class instances,
render configurations).  It never execs or imports repository code.  Anything outside the
fragment raises `Unknown`, which callers turn into ANALYSIS-ERROR.
"""

from __future__ import annotations

import ast
import copy
from typing import Any, Callable

from sa.index import AnalysisError


class Unknown(AnalysisError):
    pass


class EvalRaised(Exception):
    "the evaluated fragment itself raises (an outcome of the abstract run, not a limitation of the evaluator)"

    def __init__(self, exc_name: str, detail: str = "") -> None:
        super().__init__(f"{exc_name}: {detail}")
        self.exc_name = exc_name


class Obj:
    "abstract instance: class name (qualname), attribute dict; hashable by value"

    __slots__ = ("cls", "attrs")

    def __init__(self, cls: str, attrs: dict[str, Any] | None = None) -> None:
        self.cls = cls
        self.attrs = dict(attrs or {})

    def _key(self):
        return (self.cls, tuple(sorted((k, _hashable(v)) for k, v in self.attrs.items())))

    def __eq__(self, other):
        return isinstance(other, Obj) and self._key() == other._key()

    def __hash__(self):
        return hash(self._key())

    def __repr__(self):
        return f"{self.cls.rsplit('.', 1)[-1]}({', '.join(f'{k}={v!r}' for k, v in self.attrs.items())})"


def _hashable(v):
    if isinstance(v, (list, tuple)):
        return tuple(_hashable(x) for x in v)
    if isinstance(v, dict):
        return tuple(sorted((k, _hashable(x)) for k, x in v.items()))
    if isinstance(v, set):
        return frozenset(_hashable(x) for x in v)
    return v


class Closure:
    def __init__(self, node: ast.Lambda | ast.FunctionDef, env: dict) -> None:
        self.node, self.env = node, env


class ClassRef:
    "reference to a class of the analysed package (by qualname)"

    def __init__(self, qualname: str) -> None:
        self.qualname = qualname

    def __eq__(self, other):
        return isinstance(other, ClassRef) and other.qualname == self.qualname

    def __hash__(self):
        return hash(("ClassRef", self.qualname))

    def __repr__(self):
        return f"<class {self.qualname}>"


def _isinstance(v, t):
    "isinstance on the abstract run's values against builtin types (a tuple of them); anything else is undecided"
    ts = t if isinstance(t, tuple) else (t,)
    if not all(isinstance(x, type) and x.__module__ == "builtins" for x in ts):
        raise Unknown("isinstance against a type the abstract run does not model")
    if isinstance(v, Obj) or type(v).__name__ == "Arr":
        return False if all(x in (list, tuple, dict, set, frozenset, str, int, float, bool, bytes, type(None)) for x in ts) else (_ for _ in ()).throw(Unknown("isinstance of an abstract object"))
    return isinstance(v, ts)


def _next(it, *default):
    "next() on what the evaluator produced for a generator expression (it evaluates them eagerly, to a list) or on a real iterator"
    if isinstance(it, list):
        if it:
            return it[0]
        if default:
            return default[0]
        raise EvalRaised("StopIteration", "")
    try:
        return next(it, *default)
    except StopIteration:
        raise EvalRaised("StopIteration", "")


_SAFE_BUILTINS: dict[str, Callable] = {
    "isinstance": _isinstance, "bytes": bytes, "type": type, "callable": callable, "divmod": divmod, "round": round, "ord": ord, "chr": chr, "iter": iter, "next": _next,
    "len": len, "range": range, "str": str, "int": int, "bool": bool, "tuple": tuple, "list": list,
    "set": set, "frozenset": frozenset, "sorted": sorted, "max": max, "min": min, "abs": abs, "all": all,
    "any": any, "sum": sum, "enumerate": enumerate, "zip": zip, "reversed": reversed, "dict": dict, "map": map, "filter": filter,
    "repr": repr, "float": float, "slice": slice,
}
import functools as _functools
import operator as _operator

# standard-library functions that are pure, or whose only effect is on their (abstract, list-backed) arguments - `operator.iconcat(a, b)` extends
# the list `a` in place, which is exactly what the abstract run has to see.  bare names are what `from functools import reduce` etc. bind
_SAFE_STDLIB = {_functools.reduce, _operator.add, _operator.concat, _operator.iconcat, _operator.iadd, _operator.mul, _operator.sub, _operator.eq, _operator.ne,
                _operator.lt, _operator.le, _operator.gt, _operator.ge, _operator.not_, _operator.and_, _operator.or_, _operator.getitem, _operator.contains, _operator.neg}
import re as _re

_SAFE_STDLIB |= {_re.findall, _re.match, _re.fullmatch, _re.search, _re.sub, _re.split, dict.fromkeys}
_WELL_KNOWN = {
    "re": {"__namespace__": True, "findall": _re.findall, "match": _re.match, "fullmatch": _re.fullmatch, "search": _re.search, "sub": _re.sub, "split": _re.split},
    "operator": {"__namespace__": True, **{f.__name__: f for f in _SAFE_STDLIB if f is not _functools.reduce}},
    "functools": {"__namespace__": True, "reduce": _functools.reduce},
    "reduce": _functools.reduce,
}
_SAFE_METHODS = {
    str: {"upper", "lower", "startswith", "endswith", "strip", "lstrip", "rstrip", "split", "join", "replace",
          "removeprefix", "removesuffix", "format", "isdigit", "index", "count", "zfill"},
    tuple: {"index", "count"},
    # mutating methods act on the abstract run's own containers (real python lists / dicts / sets: aliases see the change, as they would at run time)
    list: {"index", "count", "copy", "append", "extend", "insert", "pop", "remove", "reverse", "clear"},
    dict: {"get", "keys", "values", "items", "copy", "pop", "setdefault", "update", "popitem", "clear"},
    set: {"union", "intersection", "difference", "issubset", "issuperset", "symmetric_difference", "isdisjoint", "copy", "add", "discard", "remove", "update", "clear",
          "difference_update", "intersection_update"},
    frozenset: {"union", "intersection", "difference", "issubset"},
}


class Evaluator:
    def __init__(self, hooks: dict[str, Callable] | None = None, max_steps: int = 2_000_000) -> None:
        self.hooks = hooks or {}
        self.steps = 0
        self.max_steps = max_steps

    def ev(self, node: ast.AST, env: dict[str, Any]) -> Any:
        self.steps += 1
        if self.steps > self.max_steps:
            raise Unknown("evaluation budget exceeded")
        m = getattr(self, "_" + type(node).__name__, None)
        if m is None:
            raise Unknown(f"expression kind {type(node).__name__} outside the fragment: {ast.unparse(node)[:80]}")
        return m(node, env)

    # -- leaves
    def _Constant(self, n, env):
        return n.value

    def _Name(self, n, env):
        if n.id in env:
            return env[n.id]
        if n.id in _SAFE_BUILTINS:
            return _SAFE_BUILTINS[n.id]
        if n.id in ("True", "False", "None"):
            return {"True": True, "False": False, "None": None}[n.id]
        if n.id == "typing":
            # type expressions of the analysed source are built with the real (pure) typing constructors, so that
            # `typing.get_args(dict[typing.Literal['a', 'b'], bool | None])` folds to what the interpreter would compute
            import typing as _t

            return {"__namespace__": True, "Literal": _t.Literal, "get_args": _t.get_args, "get_origin": _t.get_origin, "Union": _t.Union,
                    "Optional": _t.Optional, "Any": _t.Any}
        if "__name__" in self.hooks:
            try:
                return self.hooks["__name__"](n.id, env)
            except Unknown:
                if n.id not in _WELL_KNOWN:
                    raise
        if n.id in _WELL_KNOWN:
            return _WELL_KNOWN[n.id]
        raise Unknown(f"free name `{n.id}`")

    def _Attribute(self, n, env):
        v = self.ev(n.value, env)
        if isinstance(v, Obj):
            if n.attr in v.attrs:
                return v.attrs[n.attr]
            if n.attr == "__dict__":
                return v.attrs   # the instance dictionary itself: stores through it are attribute stores
            if "__getattr__" in self.hooks:
                return self.hooks["__getattr__"](v, n.attr)
            raise Unknown(f"abstract object {v!r} has no attribute {n.attr}")
        if isinstance(v, ClassRef) and "__classattr__" in self.hooks:
            return self.hooks["__classattr__"](v, n.attr)
        if type(v).__name__ == "Arr" and not n.attr.startswith("_") and hasattr(type(v), n.attr) and n.attr not in ("data", "truth", "reduce_axis", "flat_list", "eq_elementwise"):
            return getattr(v, n.attr)
        for t, names in _SAFE_METHODS.items():
            if isinstance(v, t) and n.attr in names:
                return getattr(v, n.attr)
        if isinstance(v, (int, float)) and n.attr in ("astype", "item"):
            return safe(lambda *a, **k: v)   # a number produced by an array reduction stands for the numpy scalar: conversions keep the value
        if v is dict and n.attr == "fromkeys":
            return dict.fromkeys
        if isinstance(v, dict) and n.attr in v and v.get("__namespace__"):
            return v[n.attr]
        raise Unknown(f"attribute .{n.attr} of {type(v).__name__}")

    @staticmethod
    def truth(v) -> bool:
        "truth value as the evaluated code would see it (numpy semantics for abstract arrays)"
        if type(v).__name__ == "Arr":
            try:
                return v.truth()
            except ValueError as e:
                raise EvalRaised("ValueError", str(e))
        if isinstance(v, Obj) and "__len__" in v.attrs:
            return v.attrs["__len__"] != 0   # an abstract object of a class that defines __len__ (and no __bool__): falsy when empty
        return bool(v)

    # -- operators
    def _BinOp(self, n, env):
        l, r = self.ev(n.left, env), self.ev(n.right, env)
        ops = {ast.Add: lambda a, b: a + b, ast.Sub: lambda a, b: a - b, ast.Mult: lambda a, b: a * b,
               ast.FloorDiv: lambda a, b: a // b, ast.Mod: lambda a, b: a % b, ast.Pow: lambda a, b: a ** b,
               ast.BitOr: lambda a, b: a | b, ast.BitAnd: lambda a, b: a & b, ast.Div: lambda a, b: a / b}
        f = ops.get(type(n.op))
        if f is None:
            raise Unknown(f"operator {type(n.op).__name__}")
        try:
            return f(l, r)
        except ValueError as e:
            if "broadcast" in str(e) and (type(l).__name__ == "Arr" or type(r).__name__ == "Arr"):
                raise EvalRaised("ValueError", str(e))
            raise Unknown(f"{ast.unparse(n)[:60]}: {e}")
        except Exception as e:
            raise Unknown(f"{ast.unparse(n)[:60]}: {e}")

    def _UnaryOp(self, n, env):
        v = self.ev(n.operand, env)
        if type(v).__name__ == "Arr":
            if isinstance(n.op, ast.Invert):
                return ~v
            if isinstance(n.op, ast.Not):
                return not self.truth(v)
        if isinstance(n.op, ast.Invert):
            return ~v
        if isinstance(n.op, ast.Not):
            return not self.truth(v)
        if isinstance(n.op, ast.USub):
            return -v
        if isinstance(n.op, ast.UAdd):
            return +v
        raise Unknown("unary operator")

    def _BoolOp(self, n, env):
        if isinstance(n.op, ast.And):
            v = True
            for x in n.values:
                v = self.ev(x, env)
                if not self.truth(v):
                    return v
            return v
        v = False
        for x in n.values:
            v = self.ev(x, env)
            if self.truth(v):
                return v
        return v

    def _Compare(self, n, env):
        left = self.ev(n.left, env)
        for op, c in zip(n.ops, n.comparators):
            right = self.ev(c, env)
            t = type(op)
            if t in (ast.Eq, ast.NotEq) and (type(left).__name__ == "Arr" or type(right).__name__ == "Arr") and len(n.ops) == 1:
                # numpy semantics inside the evaluated code: == / != on an abstract array is elementwise
                arr, other = (left, right) if type(left).__name__ == "Arr" else (right, left)
                try:
                    m_ = arr.eq_elementwise(other)
                except ValueError as e:
                    raise EvalRaised("ValueError", str(e))
                return m_ if t is ast.Eq else ~m_
            try:
                r = {ast.Eq: lambda: left == right, ast.NotEq: lambda: left != right, ast.Lt: lambda: left < right,
                     ast.LtE: lambda: left <= right, ast.Gt: lambda: left > right, ast.GtE: lambda: left >= right,
                     ast.Is: lambda: left is right or (isinstance(left, (bool, type(None))) and left == right and type(left) is type(right)),
                     ast.IsNot: lambda: not (left is right or (isinstance(left, (bool, type(None))) and left == right and type(left) is type(right))),
                     ast.In: lambda: left in right, ast.NotIn: lambda: left not in right}[t]()
            except Exception as e:
                raise Unknown(f"comparison {ast.unparse(n)[:60]}: {e}")
            if type(r).__name__ == "Arr":
                if len(n.ops) == 1:
                    return r  # elementwise comparison of an abstract array
                raise EvalRaised("ValueError", "truth value of an array in a chained comparison")
            if not r:
                return False
            left = right
        return True

    def _IfExp(self, n, env):
        return self.ev(n.body, env) if self.truth(self.ev(n.test, env)) else self.ev(n.orelse, env)

    # -- containers
    def _elts(self, elts, env):
        out = []
        for e in elts:
            if isinstance(e, ast.Starred):
                out.extend(self.ev(e.value, env))
            else:
                out.append(self.ev(e, env))
        return out

    def _Tuple(self, n, env):
        return tuple(self._elts(n.elts, env))

    def _List(self, n, env):
        return self._elts(n.elts, env)

    def _Set(self, n, env):
        return set(self._elts(n.elts, env))

    def _Dict(self, n, env):
        out = {}
        for k, v in zip(n.keys, n.values):
            if k is None:
                out.update(self.ev(v, env))
            else:
                out[self.ev(k, env)] = self.ev(v, env)
        return out

    def _Slice(self, n, env):
        return slice(*(None if x is None else self.ev(x, env) for x in (n.lower, n.upper, n.step)))

    def _Subscript(self, n, env):
        v = self.ev(n.value, env)
        if isinstance(n.slice, ast.Slice):
            s = slice(*(None if x is None else self.ev(x, env) for x in (n.slice.lower, n.slice.upper, n.slice.step)))
            try:
                return v[s]
            except TypeError as e:
                if isinstance(v, (int, float, bool, type(None))) or any(type(b).__name__ == "Arr" or isinstance(b, (list, str)) for b in (s.start, s.stop) if b is not None):
                    raise EvalRaised("TypeError", f"{ast.unparse(n)[:60]}: {e}")
                raise Unknown(f"subscript {ast.unparse(n)[:60]}: {e}")
        k = self.ev(n.slice, env)
        try:
            if isinstance(v, Obj) and "__getitem__" in self.hooks:
                return self.hooks["__getitem__"](v, k)
            return v[k]
        except (IndexError, KeyError) as e:
            if isinstance(v, (list, tuple, dict, str, Obj)) or type(v).__name__ == "Arr":
                raise EvalRaised(type(e).__name__, f"{ast.unparse(n)[:60]}: {e}")
            raise Unknown(f"subscript {ast.unparse(n)[:60]}: {e}")
        except (Unknown, EvalRaised):
            raise
        except TypeError as e:
            if isinstance(v, (int, float, bool, type(None))) or "slice indices" in str(e):
                raise EvalRaised("TypeError", f"{ast.unparse(n)[:60]}: {e}")  # subscripting a number / a non-integer slice bound: the evaluated code itself fails
            raise Unknown(f"subscript {ast.unparse(n)[:60]}: {e}")
        except Exception as e:
            raise Unknown(f"subscript {ast.unparse(n)[:60]}: {e}")

    def _comp(self, gens, env, leaf):
        if not gens:
            yield leaf(env)
            return
        g = gens[0]
        it_ = self.ev(g.iter, env)
        if it_ is None or isinstance(it_, (bool, int, float)):
            raise EvalRaised("TypeError", f"'{type(it_).__name__}' object is not iterable")
        for item in it_:
            e2 = dict(env)
            self.bind(g.target, item, e2)
            if all(self.truth(self.ev(c, e2)) for c in g.ifs):
                yield from self._comp(gens[1:], e2, leaf)

    def bind(self, target, value, env):
        if isinstance(target, ast.Name):
            env[target.id] = value
        elif isinstance(target, (ast.Tuple, ast.List)):
            vals = list(value)
            if len(vals) != len(target.elts):
                raise Unknown("unpacking arity")
            for t, v in zip(target.elts, vals):
                self.bind(t, v, env)
        elif isinstance(target, ast.Subscript) and isinstance(target.value, ast.Name) and type(env.get(target.value.id)).__name__ == "Arr":
            k = self.ev(target.slice, env)
            try:
                env[target.value.id][k] = value
            except (ValueError, IndexError) as e:
                raise EvalRaised(type(e).__name__, f"{ast.unparse(target)[:60]}: {e}")
            except Exception as e:
                raise Unknown(f"store {ast.unparse(target)[:60]}: {e}")
        elif isinstance(target, ast.Subscript) and isinstance(target.value, ast.Name) and isinstance(env.get(target.value.id), (list, dict)):
            # element / slice store into a container that the fragment itself created
            recv = env[target.value.id]
            if isinstance(target.slice, ast.Slice):
                k = slice(*(None if x is None else self.ev(x, env) for x in (target.slice.lower, target.slice.upper, target.slice.step)))
                value = list(value)
            else:
                k = self.ev(target.slice, env)
            try:
                recv[k] = value
            except Exception as e:
                raise Unknown(f"store {ast.unparse(target)[:60]}: {e}")
        elif isinstance(target, ast.Subscript):
            # store through an expression (`obj.__dict__['k'] = v`, `rows[i][j] = v`, `self.grid[k] = v`): the receiver is a container of the abstract run
            recv = self.ev(target.value, env)
            if not (isinstance(recv, (list, dict)) or type(recv).__name__ == "Arr"):
                raise Unknown(f"store into {type(recv).__name__}")
            if isinstance(target.slice, ast.Slice) and isinstance(recv, list):
                k = slice(*(None if x is None else self.ev(x, env) for x in (target.slice.lower, target.slice.upper, target.slice.step)))
                value = list(value)
            else:
                k = self.ev(target.slice, env)
            try:
                recv[k] = value
            except (ValueError, IndexError, KeyError) as e:
                if type(recv).__name__ == "Arr" or isinstance(e, IndexError):
                    raise EvalRaised(type(e).__name__, f"{ast.unparse(target)[:60]}: {e}")
                raise Unknown(f"store {ast.unparse(target)[:60]}: {e}")
            except Exception as e:
                raise Unknown(f"store {ast.unparse(target)[:60]}: {e}")
        elif isinstance(target, ast.Attribute):
            recv = self.ev(target.value, env)
            if not isinstance(recv, Obj):
                raise Unknown(f"attribute store on {type(recv).__name__}")
            recv.attrs[target.attr] = value
        else:
            raise Unknown("binding target")

    def _ListComp(self, n, env):
        return list(self._comp(n.generators, env, lambda e: self.ev(n.elt, e)))

    def _GeneratorExp(self, n, env):
        return list(self._comp(n.generators, env, lambda e: self.ev(n.elt, e)))

    def _SetComp(self, n, env):
        return set(self._comp(n.generators, env, lambda e: self.ev(n.elt, e)))

    def _DictComp(self, n, env):
        return dict(self._comp(n.generators, env, lambda e: (self.ev(n.key, e), self.ev(n.value, e))))

    # -- strings
    def _JoinedStr(self, n, env):
        return "".join(self.ev(v, env) if not isinstance(v, ast.Constant) else str(v.value) for v in n.values)

    def _FormattedValue(self, n, env):
        v = self.ev(n.value, env)
        if n.conversion == ord("r"):
            v = repr(v)
        elif n.conversion == ord("s"):
            v = str(v)
        spec = self.ev(n.format_spec, env) if n.format_spec is not None else ""
        try:
            return format(v, spec)
        except Exception as e:
            raise Unknown(f"format: {e}")

    # -- calls
    def _Lambda(self, n, env):
        return Closure(n, env)

    def call(self, f, args, kwargs):
        if isinstance(f, Closure):
            a = f.node.args
            params = [x.arg for x in [*a.posonlyargs, *a.args]]
            env = dict(f.env)
            defaults = a.defaults
            for p, d in zip(params[len(params) - len(defaults):], defaults):
                env[p] = self.ev(d, f.env)
            if len(args) > len(params) and a.vararg is None:
                raise Unknown("too many arguments for closure")
            for p, v in zip(params, args):
                env[p] = v
            if a.vararg is not None:
                env[a.vararg.arg] = tuple(args[len(params):])
            for k, v in kwargs.items():
                env[k] = v
            if isinstance(f.node, ast.Lambda):
                return self.ev(f.node.body, env)
            try:
                return self.run_body(f.node.body, env)
            finally:
                # `nonlocal x`: the enclosing function's variable is the one assigned
                for st_ in f.node.body:
                    if isinstance(st_, ast.Nonlocal):
                        for nm_ in st_.names:
                            if nm_ in env:
                                f.env[nm_] = env[nm_]
        import typing as _t

        if callable(f) and (f in _SAFE_BUILTINS.values() or getattr(f, "__self__", None) is not None
                            or getattr(f, "_sa_safe", False) or f in (_t.get_args, _t.get_origin) or f in _SAFE_STDLIB):
            # closures handed to builtins (sorted(key=...), map, filter, max(key=...)) become python callables
            def wrap(v):
                if isinstance(v, Closure):
                    return lambda *a, _c=v: self.call(_c, list(a), {})
                return v
            args = [wrap(a) for a in args]
            kwargs = {k: wrap(v) for k, v in kwargs.items()}
            try:
                return f(*args, **kwargs)
            except Unknown:
                raise
            except (Unknown, EvalRaised):
                raise
            except Exception as e:
                if f is _functools.reduce and "empty iterable with no initial value" in str(e):
                    raise EvalRaised("TypeError", str(e))  # what the evaluated code does on an empty collection
                if isinstance(e, TypeError) and f in (tuple, list, set, frozenset, dict, sorted, sum, max, min, len, enumerate, zip, iter, map, filter, reversed, any, all) \
                        and any(a_ is None or isinstance(a_, (bool, int, float)) for a_ in args):
                    raise EvalRaised("TypeError", str(e))  # e.g. tuple(None), len(5): the evaluated code itself fails that way
                raise Unknown(f"call failed: {e}")
        raise Unknown(f"call of {f!r} outside the fragment")

    def _Call(self, n, env):
        if "__call__" in self.hooks:
            r = self.hooks["__call__"](self, n, env)
            if r is not NotImplemented:
                return r
        f = self.ev(n.func, env)
        args = self._elts(n.args, env)
        kwargs = {}
        for kw in n.keywords:
            if kw.arg is None:
                kwargs.update(self.ev(kw.value, env))
            else:
                kwargs[kw.arg] = self.ev(kw.value, env)
        return self.call(f, args, kwargs)

    # -- tiny statement interpreter for predicate bodies (if / return / assign / pass / docstring)
    class _Return(Exception):
        def __init__(self, value):
            self.value = value

    def run_body(self, body: list[ast.stmt], env: dict[str, Any]) -> Any:
        try:
            self._exec(body, env)
        except Evaluator._Return as r:
            return r.value
        return None

    def _exec(self, body, env):
        for st in body:
            if isinstance(st, ast.Expr) and isinstance(st.value, ast.Constant):
                continue
            if isinstance(st, ast.Delete) and all(isinstance(t, (ast.Name, ast.Subscript)) for t in st.targets):
                for t in st.targets:
                    if isinstance(t, ast.Name):
                        if t.id not in env:
                            raise EvalRaised("NameError", f"name '{t.id}' is not defined")
                        del env[t.id]
                        continue
                    recv = self.ev(t.value, env)
                    if not isinstance(recv, (list, dict)):
                        raise Unknown(f"del on {type(recv).__name__}")
                    if isinstance(t.slice, ast.Slice):
                        k = slice(*(None if x is None else self.ev(x, env) for x in (t.slice.lower, t.slice.upper, t.slice.step)))
                    else:
                        k = self.ev(t.slice, env)
                    try:
                        del recv[k]
                    except (KeyError, IndexError) as e:
                        raise EvalRaised(type(e).__name__, f"{ast.unparse(t)[:60]}: {e}")
                    except Exception as e:
                        raise Unknown(f"del {ast.unparse(t)[:60]}: {e}")
                continue
            if isinstance(st, (ast.FunctionDef,)) and not st.decorator_list:
                env[st.name] = Closure(st, env)   # a nested function: a closure over the enclosing variables (by reference, as in Python)
                continue
            if isinstance(st, (ast.Nonlocal, ast.Global)):
                continue
            if isinstance(st, ast.Pass):
                continue
            if isinstance(st, ast.Return):
                raise Evaluator._Return(self.ev(st.value, env) if st.value is not None else None)
            if isinstance(st, ast.If):
                self._exec(st.body if self.truth(self.ev(st.test, env)) else st.orelse, env)
                continue
            if isinstance(st, ast.Assign) and len(st.targets) == 1:
                self.bind(st.targets[0], self.ev(st.value, env), env)
                continue
            if isinstance(st, ast.AnnAssign) and st.value is not None:
                self.bind(st.target, self.ev(st.value, env), env)
                continue
            if isinstance(st, ast.AugAssign) and isinstance(st.target, (ast.Subscript, ast.Attribute)):
                # `a[k] op= v` / `o.f op= v`: read, combine, store back through the same target (the index expression is pure in the fragment)
                load = copy.deepcopy(st.target)
                load.ctx = ast.Load()
                cur = self.ev(ast.BinOp(left=load, op=st.op, right=st.value), env)
                self.bind(st.target, cur, env)
                continue
            if isinstance(st, ast.AugAssign) and isinstance(st.target, ast.Name):
                if isinstance(env.get(st.target.id), list) and isinstance(st.op, ast.Add):
                    env[st.target.id].extend(list(self.ev(st.value, env)))  # list.__iadd__ is in place: aliases see it
                    continue
                cur = self.ev(ast.BinOp(left=ast.Name(id=st.target.id, ctx=ast.Load()), op=st.op, right=st.value), env)
                env[st.target.id] = cur
                continue
            if isinstance(st, ast.Expr) and isinstance(st.value, ast.Call) and isinstance(st.value.func, ast.Attribute) and isinstance(st.value.func.value, ast.Name) \
                    and st.value.func.attr in ("add", "update", "append", "extend", "discard", "remove", "insert", "setdefault", "clear", "pop") \
                    and isinstance(env.get(st.value.func.value.id), (set, list, dict)):
                # mutation of a container that the fragment itself created
                recv = env[st.value.func.value.id]
                args = [self.ev(a, env) for a in st.value.args]
                if st.value.keywords:
                    raise Unknown("keyword arguments in a container mutation")
                getattr(recv, st.value.func.attr)(*args)
                continue
            if isinstance(st, ast.Expr) and isinstance(st.value, ast.Call) and "__call__" in self.hooks:
                r_ = self.hooks["__call__"](self, st.value, env)
                if r_ is not NotImplemented:
                    continue  # an expression statement the rule's model knows (e.g. a warning): evaluated for effect only
            if isinstance(st, ast.For) and not st.orelse:
                it = self.ev(st.iter, env)
                if it is None or isinstance(it, (bool, int, float)):
                    raise EvalRaised("TypeError", f"'{type(it).__name__}' object is not iterable")
                if not isinstance(it, (list, tuple, range, str, dict, set, frozenset, type({}.items()), type({}.keys()), type({}.values()))) \
                        and not hasattr(it, "__next__") and type(it).__name__ != "Arr":
                    raise Unknown("loop over an untracked iterable")
                n_iter = 0
                for item in list(it):
                    n_iter += 1
                    if n_iter > 10_000:
                        raise Unknown("loop budget exceeded")
                    self.bind(st.target, item, env)
                    try:
                        self._exec(st.body, env)
                    except Evaluator._Continue:
                        continue
                    except Evaluator._Break:
                        break
                continue
            if isinstance(st, ast.Try):
                # exceptions of the abstract run (EvalRaised, by class name) are dispatched to the handlers the way Python does: first handler whose
                # class is the raised class or one of its bases (builtin hierarchy; a class the evaluator does not know derives from Exception)
                try:
                    try:
                        self._exec(st.body, env)
                    except EvalRaised as exc:
                        h = self._handler_for(st.handlers, exc, env)
                        if h is None:
                            raise
                        if h.name:
                            env[h.name] = f"{exc.exc_name}: {exc.args[1] if len(exc.args) > 1 else ''}".rstrip(": ")
                        self._current_exc = getattr(self, "_current_exc", []) + [exc]
                        try:
                            self._exec(h.body, env)
                        finally:
                            self._current_exc.pop()
                    else:
                        self._exec(st.orelse, env)
                finally:
                    if st.finalbody:
                        self._exec(st.finalbody, env)
                continue
            if isinstance(st, ast.Expr) and isinstance(st.value, ast.Call) and isinstance(st.value.func, ast.Attribute) and isinstance(st.value.func.value, ast.Name) \
                    and st.value.func.attr in ("sort", "reverse") and isinstance(env.get(st.value.func.value.id), list):
                recv = env[st.value.func.value.id]
                kwargs = {k.arg: self.ev(k.value, env) for k in st.value.keywords}
                if "key" in kwargs and isinstance(kwargs["key"], Closure):
                    c_ = kwargs["key"]
                    kwargs["key"] = lambda a, _c=c_: self.call(_c, [a], {})
                try:
                    getattr(recv, st.value.func.attr)(**kwargs)
                except Exception as e:
                    raise Unknown(f"{st.value.func.attr}: {e}")
                continue
            if isinstance(st, ast.While) and not st.orelse:
                n_iter = 0
                while self.truth(self.ev(st.test, env)):
                    n_iter += 1
                    if n_iter > 20_000:
                        raise Unknown("loop budget exceeded")
                    try:
                        self._exec(st.body, env)
                    except Evaluator._Continue:
                        continue
                    except Evaluator._Break:
                        break
                continue
            if isinstance(st, ast.Raise):
                nm = None
                if st.exc is None and getattr(self, "_current_exc", None):
                    raise self._current_exc[-1]   # bare `raise` inside a handler
                if st.exc is not None:
                    e_ = st.exc.func if isinstance(st.exc, ast.Call) else st.exc
                    nm = ast.unparse(e_)
                raise EvalRaised(nm or "re-raise", "raise statement")
            if isinstance(st, ast.Continue):
                raise Evaluator._Continue()
            if isinstance(st, ast.Break):
                raise Evaluator._Break()
            if isinstance(st, ast.Assert):
                try:
                    holds = self.truth(self.ev(st.test, env))
                except Unknown:
                    continue  # an assertion about values the fragment does not track
                if not holds:
                    raise EvalRaised("AssertionError", ast.unparse(st.test)[:80])
                continue
            if isinstance(st, ast.Expr):
                self.ev(st.value, env)   # an expression statement: evaluated for its effects on the abstract run's own objects (a call the evaluator cannot follow is Unknown)
                continue
            raise Unknown(f"statement kind {type(st).__name__} outside the fragment")

    @staticmethod
    def _exc_matches(raised: str, caught: str) -> bool:
        import builtins

        r_, c_ = raised.rsplit(".", 1)[-1], caught.rsplit(".", 1)[-1]
        if r_ == c_ or c_ == "BaseException":
            return True
        rc, cc = getattr(builtins, r_, None), getattr(builtins, c_, None)
        if isinstance(cc, type) and issubclass(cc, BaseException):
            if isinstance(rc, type) and issubclass(rc, BaseException):
                return issubclass(rc, cc)
            return cc is Exception   # a library / user exception class: derives from Exception as far as the evaluator knows
        return False

    def _handler_for(self, handlers, exc, env):
        for h in handlers:
            if h.type is None:
                return h
            names = [ast.unparse(t) for t in (h.type.elts if isinstance(h.type, ast.Tuple) else [h.type])]
            if any(self._exc_matches(exc.exc_name, n_) for n_ in names):
                return h
        return None

    class _Continue(Exception):
        pass

    class _Break(Exception):
        pass


def safe(f):
    f._sa_safe = True
    return f
