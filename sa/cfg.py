"""E4 -- statement-level control-flow graph per function, with reachability-based path queries

Nodes are simple statements and branch tests.  Two exits: EXIT (return / fall off the end) and
RAISE (uncaught raise / failed assert).  `try` bodies get an exceptional edge from every
statement to every handler of that `try` (coarse but sound for "falls through").  Queries are
decided by reachability with a node set removed (a dominates b  <=>  b unreachable from entry once
a is removed), which is exact on this graph and cheap for functions of this size.
"""

from __future__ import annotations

import ast
from typing import Iterable

from sa.index import AnalysisError


class CNode:
    __slots__ = ("id", "ast", "kind", "succ", "stmt")

    def __init__(self, id: int, node: ast.AST | None, kind: str, stmt: ast.stmt | None = None) -> None:
        self.id, self.ast, self.kind = id, node, kind
        self.succ: list[tuple["CNode", object]] = []
        self.stmt = stmt  # the statement this node belongs to (for tests: the If/While/...)

    def __repr__(self) -> str:
        t = ast.unparse(self.ast)[:50] if self.ast is not None else ""
        return f"<{self.id}:{self.kind} {t}>"

    @property
    def lineno(self) -> int:
        return getattr(self.ast, "lineno", 0)


class CFG:
    def __init__(self) -> None:
        self.nodes: list[CNode] = []
        self.entry = self.new(None, "entry")
        self.exit = self.new(None, "exit")
        self.raise_exit = self.new(None, "raise")

    def new(self, node, kind, stmt=None) -> CNode:
        n = CNode(len(self.nodes), node, kind, stmt)
        self.nodes.append(n)
        return n

    # ---------------------------------------------------------------- queries
    def reachable(self, start: CNode, removed: Iterable[CNode] = (), skip_labels: tuple = ()) -> set[int]:
        rem = {n.id for n in removed}
        if start.id in rem:
            return set()
        seen = {start.id}
        stack = [start]
        while stack:
            n = stack.pop()
            for s, lab in n.succ:
                if lab in skip_labels:
                    continue
                if s.id not in seen and s.id not in rem:
                    seen.add(s.id)
                    stack.append(s)
        return seen

    def every_path_to_exit_passes(self, through: set[CNode] | list[CNode], normal_only: bool = True,
                                  start: CNode | None = None) -> bool:
        "does every path from `start` (entry) to EXIT (and RAISE unless normal_only) meet a node of `through`?"
        r = self.reachable(start or self.entry, removed=through)
        if self.exit.id in r:
            return False
        if not normal_only and self.raise_exit.id in r:
            return False
        return True

    def dominates(self, a: CNode, b: CNode) -> bool:
        "every path entry -> b passes a"
        if a is b:
            return True
        return b.id not in self.reachable(self.entry, removed=[a])

    def set_dominates(self, through: Iterable[CNode], b: CNode) -> bool:
        through = list(through)
        if b in through:
            return True
        return b.id not in self.reachable(self.entry, removed=through)

    def can_reach(self, a: CNode, b: CNode, removed: Iterable[CNode] = ()) -> bool:
        return b.id in self.reachable(a, removed=removed)

    def nodes_of(self, pred) -> list[CNode]:
        return [n for n in self.nodes if n.ast is not None and pred(n)]

    def node_for(self, stmt: ast.AST) -> CNode:
        for n in self.nodes:
            if n.ast is stmt or n.stmt is stmt:
                return n
        raise AnalysisError("statement not in CFG")

    def nodes_containing(self, pred) -> list[CNode]:
        "nodes whose own expression/statement (not nested bodies) contains an ast node satisfying pred"
        out = []
        for n in self.nodes:
            if n.ast is None:
                continue
            for sub in _own_walk(n):
                if pred(sub):
                    out.append(n)
                    break
        return out

    def edge_conditions_into(self, target: CNode) -> list[tuple[CNode, object]]:
        return [(n, lab) for n in self.nodes for s, lab in n.succ if s is target]


def _own_walk(n: CNode):
    "walk the AST owned by a CFG node: for compound statements only the header expression"
    a = n.ast
    if n.kind in ("test", "for", "with", "match"):
        yield from ast.walk(a)
        return
    # simple statement: whole statement, but not nested function bodies
    stack = [a]
    first = True
    while stack:
        x = stack.pop()
        if not first and isinstance(x, (ast.FunctionDef, ast.AsyncFunctionDef, ast.ClassDef)):
            continue
        first = False
        yield x
        stack.extend(ast.iter_child_nodes(x))


class _Builder:
    def __init__(self) -> None:
        self.g = CFG()

    def build(self, fn: ast.FunctionDef | ast.Lambda) -> CFG:
        g = self.g
        if isinstance(fn, ast.Lambda):
            n = g.new(fn.body, "stmt")
            n.succ.append((g.exit, None))
            g.entry.succ.append((n, None))
            return g
        head = self.seq(fn.body, g.exit, brk=None, cont=None, exc=[g.raise_exit])
        g.entry.succ.append((head, None))
        return g

    def seq(self, stmts, follow, brk, cont, exc) -> CNode:
        head = follow
        for st in reversed(stmts):
            head = self.stmt(st, head, brk, cont, exc)
        return head

    def _exc_edges(self, n: CNode, exc: list[CNode], in_try: bool) -> None:
        if in_try:
            for h in exc:
                n.succ.append((h, "exc"))

    def stmt(self, st, follow, brk, cont, exc) -> CNode:
        g = self.g
        in_try = not (len(exc) == 1 and exc[0] is g.raise_exit)
        if isinstance(st, ast.If):
            t = g.new(st.test, "test", st)
            t.succ.append((self.seq(st.body, follow, brk, cont, exc), True))
            t.succ.append((self.seq(st.orelse, follow, brk, cont, exc) if st.orelse else follow, False))
            self._exc_edges(t, exc, in_try)
            return t
        if isinstance(st, ast.While):
            t = g.new(st.test, "test", st)
            after = self.seq(st.orelse, follow, brk, cont, exc) if st.orelse else follow
            body = self.seq(st.body, t, brk=follow, cont=t, exc=exc)
            t.succ.append((body, True))
            const_true = isinstance(st.test, ast.Constant) and bool(st.test.value)
            if not const_true:
                t.succ.append((after, False))
            self._exc_edges(t, exc, in_try)
            return t
        if isinstance(st, (ast.For, ast.AsyncFor)):
            t = g.new(st, "for", st)
            after = self.seq(st.orelse, follow, brk, cont, exc) if st.orelse else follow
            body = self.seq(st.body, t, brk=follow, cont=t, exc=exc)
            t.succ.append((body, "next"))
            t.succ.append((after, "done"))
            self._exc_edges(t, exc, in_try)
            return t
        if isinstance(st, (ast.With, ast.AsyncWith)):
            t = g.new(st, "with", st)
            t.succ.append((self.seq(st.body, follow, brk, cont, exc), None))
            self._exc_edges(t, exc, in_try)
            return t
        if isinstance(st, ast.Try) or st.__class__.__name__ == "TryStar":
            if st.finalbody:
                for sub in ast.walk(ast.Module(body=st.body + st.orelse + [h for h in st.handlers], type_ignores=[])):
                    if isinstance(sub, (ast.Return, ast.Break, ast.Continue)):
                        raise AnalysisError("try/finally with jumps is outside the CFG fragment")
                fin = self.seq(st.finalbody, follow, brk, cont, exc)
            else:
                fin = follow
            heads = []
            catches_all = False
            for h in st.handlers:
                hn = g.new(h, "handler", h)
                hn.succ.append((self.seq(h.body, fin, brk, cont, exc), None))
                heads.append(hn)
                ty = ast.unparse(h.type) if h.type is not None else "BaseException"
                if ty in ("Exception", "BaseException"):
                    catches_all = True
            inner_exc = heads + ([] if catches_all else exc)
            after_body = self.seq(st.orelse, fin, brk, cont, exc) if st.orelse else fin
            return self.seq(st.body, after_body, brk, cont, inner_exc)
        if isinstance(st, ast.Return):
            n = g.new(st, "return", st)
            n.succ.append((g.exit, None))
            self._exc_edges(n, exc, in_try)
            return n
        if isinstance(st, ast.Raise):
            n = g.new(st, "raise", st)
            for h in exc:
                n.succ.append((h, "exc"))
            return n
        if isinstance(st, ast.Break):
            n = g.new(st, "break", st)
            if brk is None:
                raise AnalysisError("break outside loop")
            n.succ.append((brk, None))
            return n
        if isinstance(st, ast.Continue):
            n = g.new(st, "continue", st)
            n.succ.append((cont, None))
            return n
        if isinstance(st, ast.Assert):
            t = g.new(st.test, "test", st)
            t.succ.append((follow, True))
            for h in exc:
                t.succ.append((h, False))
            return t
        if isinstance(st, ast.Match):
            t = g.new(st.subject, "match", st)
            wildcard = False
            for case in st.cases:
                t.succ.append((self.seq(case.body, follow, brk, cont, exc), ast.unparse(case.pattern)))
                if isinstance(case.pattern, ast.MatchAs) and case.pattern.pattern is None and case.guard is None:
                    wildcard = True
            if not wildcard:
                t.succ.append((follow, "nomatch"))
            return t
        # simple statement (incl. nested def/class: treated as a binding)
        n = g.new(st, "stmt", st)
        n.succ.append((follow, None))
        self._exc_edges(n, exc, in_try)
        return n


def build_cfg(fn: ast.FunctionDef | ast.Lambda) -> CFG:
    return _Builder().build(fn)


def forward_may(g: CFG, init: frozenset, transfer) -> dict[int, frozenset]:
    """forward 'may' dataflow (join = union) over the CFG; `transfer(node, in_state) -> out_state`.
    returns the IN state of every node"""
    IN: dict[int, frozenset] = {g.entry.id: init}
    work = [g.entry]
    while work:
        n = work.pop()
        out = transfer(n, IN.get(n.id, frozenset())) if n.ast is not None else IN.get(n.id, frozenset())
        for s, _ in n.succ:
            old = IN.get(s.id)
            new = out if old is None else (old | out)
            if old is None or new != old:
                IN[s.id] = new
                work.append(s)
    return IN


def path_conditions(g: CFG, start: CNode, target: CNode, limit: int = 4000, with_nodes: bool = False) -> list:
    """all acyclic paths start -> target as lists of (test expression, branch label) for the test / for / match nodes on the path
    (exceptional edges are not followed).  Used to read *under which conditions* a statement executes, independently of how the
    guards are nested (guard clauses with continue/return vs if/else)."""
    out: list[list[tuple[ast.AST, object]]] = []
    stack = [(start, [], frozenset([start.id]))]
    steps = 0
    while stack:
        n, conds, seen = stack.pop()
        steps += 1
        if steps > limit:
            raise AnalysisError("too many paths")
        if n is target:
            out.append((conds, seen) if with_nodes else conds)
            continue
        for s, lab in n.succ:
            if lab == "exc" or s.id in seen:
                continue
            c2 = conds + [(n.ast, lab)] if n.kind in ("test",) and lab in (True, False) else conds
            stack.append((s, c2, seen | {s.id}))
    return out
