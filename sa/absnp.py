"""abstract n-d arrays for E15: list-backed arrays whose elements are symbols

`Arr` models the part of numpy indexing the serializers use: integer / slice / ellipsis / tuple keys for reads and stores, row
iteration, shape, len.  Elements are arbitrary Python values (symbolic strings such as "s1.0r"); a whole sub-array may be replaced
by one opaque symbol (a maze's connection list is stored into a row as the symbol "CL1").  `MODELS` gives list-level models of the
numpy functions the serializers call.  Uninitialised cells of `np.empty` are the marker `UNINIT`, so padding that leaks into a
result is visible.
"""

from __future__ import annotations

import itertools
from typing import Any

UNINIT = "<uninit>"


def _shape(d: Any) -> tuple:
    if isinstance(d, list):
        return (len(d),) + (_shape(d[0]) if d else ())
    return ()


class Arr:
    def __init__(self, data: Any) -> None:
        self.data = data

    # -- basic protocol
    @property
    def shape(self) -> tuple:
        return _shape(self.data)

    @property
    def ndim(self) -> int:
        return len(self.shape)

    def __len__(self) -> int:
        return len(self.data)

    def __iter__(self):
        for x in self.data:
            yield Arr(x) if isinstance(x, list) else x

    def __eq__(self, other) -> bool:
        return isinstance(other, Arr) and self.data == other.data

    def __hash__(self) -> int:
        return hash(repr(self.data))

    def __repr__(self) -> str:
        return f"Arr({self.data!r})"

    def tolist(self):
        return self.data

    def copy(self):
        import copy as _c

        return Arr(_c.deepcopy(self.data))

    def astype(self, *_a, **_k):
        return self

    # -- elementwise comparisons / logic (scalar or last-axis vector broadcast), enough for bounds masks
    def _zip(self, other, f):
        o = other.data if isinstance(other, Arr) else (list(other) if isinstance(other, (tuple, list)) else other)

        def rec(d, o_):
            if isinstance(d, list):
                if isinstance(o_, list):
                    if _shape(o_) == _shape(d):
                        return [rec(x, y) for x, y in zip(d, o_)]
                    if len(_shape(o_)) < len(_shape(d)):
                        return [rec(x, o_) for x in d]  # broadcast over the leading axis
                    raise ValueError(f"operands could not be broadcast together with shapes {_shape(d)} {_shape(o_)}")
                return [rec(x, o_) for x in d]
            if isinstance(o_, list):
                raise ValueError("operands could not be broadcast together")
            return f(d, o_)
        return Arr(rec(self.data, o))

    def __lt__(self, o):
        return self._zip(o, lambda a, b: a < b)

    def __le__(self, o):
        return self._zip(o, lambda a, b: a <= b)

    def __gt__(self, o):
        return self._zip(o, lambda a, b: a > b)

    def __ge__(self, o):
        return self._zip(o, lambda a, b: a >= b)

    def __and__(self, o):
        return self._zip(o, lambda a, b: bool(a) and bool(b))

    def __or__(self, o):
        return self._zip(o, lambda a, b: bool(a) or bool(b))

    def __invert__(self):
        def rec(d):
            return [rec(x) for x in d] if isinstance(d, list) else (not d)
        return Arr(rec(self.data))

    def _reduce(self, f, args, k):
        axis = k.get("axis", args[0] if args else None)

        def full(d):
            return f(full(x) for x in d) if isinstance(d, list) else bool(d)
        if axis is None:
            return full(self.data)
        nd = self.ndim
        if axis not in (-1, nd - 1):
            raise TypeError("only reductions along the last axis are modelled")

        def last(d, depth):
            if depth == nd - 1:
                return f(bool(x) for x in d)
            return [last(x, depth + 1) for x in d]
        r = last(self.data, 0)
        return Arr(r) if isinstance(r, list) else r

    def all(self, *a, **k):
        return self._reduce(all, a, k)

    def any(self, *a, **k):
        return self._reduce(any, a, k)

    def sum(self, *_a, **_k):
        return sum(self.data)

    def cumsum(self, *_a, **_k):
        return Arr(list(itertools.accumulate(self.data)))

    def max(self, *_a, **_k):
        return max(self.data)

    def min(self, *_a, **_k):
        return min(self.data)

    # -- indexing
    @staticmethod
    def _norm_key(key, ndim: int) -> list:
        ks = list(key) if isinstance(key, tuple) else [key]
        if any(k is Ellipsis for k in ks):
            i = ks.index(Ellipsis)
            fill = ndim - (len(ks) - 1)
            ks = ks[:i] + [slice(None)] * max(fill, 0) + ks[i + 1:]
        return ks

    def __getitem__(self, key):
        ks = self._norm_key(key, self.ndim)

        def get(d, ks):
            if not ks:
                return d
            k, rest = ks[0], ks[1:]
            if isinstance(k, Arr):
                k = k.data
            if isinstance(k, slice):
                return [get(x, rest) for x in d[k]]
            if isinstance(k, bool) or not isinstance(k, int):
                raise TypeError(f"unsupported index {k!r}")
            return get(d[k], rest)
        r = get(self.data, ks)
        return Arr(r) if isinstance(r, list) else r

    def eq_elementwise(self, other) -> "Arr":
        "elementwise == (kept apart from __eq__, which is structural equality for the rules)"
        return self._zip(other, lambda a, b: a == b)

    def __setitem__(self, key, value) -> None:
        if isinstance(key, Arr) and key.shape == self.shape[:key.ndim] and key.ndim >= 1:
            # boolean mask store
            v = value.data if isinstance(value, Arr) else value

            def put_mask(d, m):
                for i, mm in enumerate(m):
                    if isinstance(mm, list):
                        put_mask(d[i], mm)
                    elif mm is True:
                        d[i] = v
                    elif mm is not False:
                        raise TypeError("mask store with a non-boolean mask")
            put_mask(self.data, key.data)
            return
        ks = self._norm_key(key, self.ndim)
        v = value.data if isinstance(value, Arr) else value

        def put(d, ks, v):
            k, rest = ks[0], ks[1:]
            if isinstance(k, slice):
                idxs = list(range(*k.indices(len(d))))
                if isinstance(v, list):
                    if len(v) != len(idxs):
                        raise ValueError(f"could not broadcast input array from shape ({len(v)},) into shape ({len(idxs)},)")
                    for i, x in zip(idxs, v):
                        if rest:
                            put(d[i], rest, x)
                        else:
                            d[i] = x
                else:
                    for i in idxs:
                        if rest:
                            put(d[i], rest, v)
                        else:
                            d[i] = v
                return
            if isinstance(k, bool) or not isinstance(k, int):
                raise TypeError(f"unsupported index {k!r}")
            if rest:
                put(d[k], rest, v)
            else:
                if isinstance(v, list) and isinstance(d[k], list) and _shape(v) != _shape(d[k]) and _shape(d[k]):
                    raise ValueError(f"could not broadcast input array from shape {_shape(v)} into shape {_shape(d[k])}")
                d[k] = v
        put(self.data, ks, v)


def _full(shape, fill):
    shape = [int(s.data if isinstance(s, Arr) else s) for s in (shape if isinstance(shape, (tuple, list)) else (shape,))]
    if any(s < 0 for s in shape):
        raise ValueError("negative dimensions are not allowed")

    def mk(sh):
        if not sh:
            return fill
        return [mk(sh[1:]) for _ in range(sh[0])]
    return Arr(mk(shape))


def _to_data(x):
    if isinstance(x, Arr):
        return x.data
    if isinstance(x, (list, tuple)):
        return [_to_data(y) for y in x]
    return x


def _split(arr, points, axis=0):
    pts = list(_to_data(points)) if not isinstance(points, int) else None
    if pts is None or axis != 0:
        raise TypeError("only split at explicit points along axis 0 is modelled")
    d = arr.data
    out, prev = [], 0
    for p in pts + [len(d)]:
        out.append(Arr(d[prev:p]))
        prev = p
    return out


def _pad(arr, pad_width, mode="constant", constant_values=0, **_k):
    pw = _to_data(pad_width)
    if isinstance(pw, int):
        pw = [[pw, pw]] * arr.ndim
    elif pw and isinstance(pw[0], int):
        pw = [list(pw)] * arr.ndim
    if mode != "constant" or arr.ndim != 2 or len(pw) != 2:
        raise TypeError("only constant padding of 2-d arrays is modelled")
    (t, b), (l, r) = pw
    w = len(arr.data[0]) if arr.data else 0
    rows = [[constant_values] * (w + l + r) for _ in range(t)]
    rows += [[constant_values] * l + list(row) + [constant_values] * r for row in arr.data]
    rows += [[constant_values] * (w + l + r) for _ in range(b)]
    return Arr(rows)


MODELS = {
    "np.pad": _pad,
    "np.empty": lambda shape, *a, **k: _full(shape, UNINIT),
    "np.zeros": lambda shape, *a, **k: _full(shape, 0),
    "np.ones": lambda shape, *a, **k: _full(shape, 1),
    "np.full": lambda shape, fill, *a, **k: _full(shape, fill),
    "np.array": lambda x, *a, **k: Arr(_to_data(x)) if isinstance(x, (list, tuple, Arr)) else x,
    "np.asarray": lambda x, *a, **k: Arr(_to_data(x)) if isinstance(x, (list, tuple, Arr)) else x,
    "np.sum": lambda x, *a, **k: sum(_to_data(x)),
    "np.cumsum": lambda x, *a, **k: Arr(list(itertools.accumulate(_to_data(x)))),
    "np.split": _split,
    "np.concatenate": lambda xs, *a, **k: Arr([row for x in xs for row in _to_data(x)]),
    "np.stack": lambda xs, *a, **k: Arr([_to_data(x) for x in xs]),
    "np.max": lambda x, *a, **k: max(_to_data(x)),
    "np.all": lambda x, *a, **k: x.all(*a, **k) if isinstance(x, Arr) else all(x),
    "np.any": lambda x, *a, **k: x.any(*a, **k) if isinstance(x, Arr) else any(x),
    "np.logical_and": lambda a, b: a & b,
    "np.logical_not": lambda a: ~a,
    "len": lambda x: len(x),
}
