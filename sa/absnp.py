"""abstract n-d arrays for E15: list-backed arrays whose elements are symbols

`Arr` models the part of numpy indexing the serializers use: integer / slice / ellipsis / tuple keys for reads and stores, row
iteration, shape, len.  Elements are arbitrary Python values (symbolic strings such as "s1.0r"); a whole sub-array may be replaced
by one opaque symbol (a maze's connection list is stored into a row as the symbol "CL1").  `MODELS` gives list-level models of the
numpy functions the serializers call.  Uninitialised cells of `np.empty` are the marker `UNINIT`, so padding that leaks into a
result is visible.
"""

from __future__ import annotations

import itertools
from typing import Any

UNINIT = "<uninit>"


def _shape(d: Any) -> tuple:
    if isinstance(d, list):
        return (len(d),) + (_shape(d[0]) if d else ())
    return ()


def _bshape(*shapes: tuple) -> tuple:
    "numpy broadcasting of shapes (ValueError when they do not broadcast)"
    n = max((len(s) for s in shapes), default=0)
    out = []
    for i in range(n):
        dims = {s[len(s) - n + i] for s in shapes if len(s) - n + i >= 0}
        big = dims - {1}
        if len(big) > 1:
            raise ValueError("operands could not be broadcast together with shapes " + " ".join(str(s) for s in shapes))
        out.append(big.pop() if big else (1 if dims else 1))
    return tuple(out)


def _get_at(d, idx):
    for i in idx:
        d = d[i]
    return d


def _build(shape: tuple, f):
    "nested list of the given shape with f(index tuple) at the leaves (a scalar for shape ())"
    def rec(prefix, sh):
        if not sh:
            return f(tuple(prefix))
        return [rec(prefix + [i], sh[1:]) for i in range(sh[0])]
    return rec([], list(shape))


def _elementwise(f, *operands):
    "apply f elementwise with numpy broadcasting; operands are Arr / nested lists / tuples / scalars; returns an Arr (or a scalar for 0-d)"
    datas = [o.data if isinstance(o, Arr) else (_to_data(o) if isinstance(o, (list, tuple)) else o) for o in operands]
    shapes = [_shape(d) for d in datas]
    out_shape = _bshape(*shapes)

    def leaf(idx):
        vals = []
        for d, sh in zip(datas, shapes):
            sub = idx[len(idx) - len(sh):] if sh else ()
            vals.append(_get_at(d, [0 if n_ == 1 else i for i, n_ in zip(sub, sh)]))
        return f(*vals)
    r = _build(out_shape, leaf)
    return Arr(r) if isinstance(r, list) else r


class Arr:
    def __init__(self, data: Any) -> None:
        self.data = data

    # -- basic protocol
    @property
    def shape(self) -> tuple:
        return _shape(self.data)

    @property
    def ndim(self) -> int:
        return len(self.shape)

    def __len__(self) -> int:
        return len(self.data)

    def __iter__(self):
        for x in self.data:
            yield Arr(x) if isinstance(x, list) else x

    def __eq__(self, other) -> bool:
        return isinstance(other, Arr) and self.data == other.data

    def __hash__(self) -> int:
        return hash(repr(self.data))

    def __repr__(self) -> str:
        return f"Arr({self.data!r})"

    def tolist(self):
        return self.data

    def copy(self):
        import copy as _c

        return Arr(_c.deepcopy(self.data))

    def astype(self, *_a, **_k):
        return self

    # -- elementwise comparisons / logic (scalar or last-axis vector broadcast), enough for bounds masks
    def _zip(self, other, f):
        return _elementwise(f, self, other)

    def __lt__(self, o):
        return self._zip(o, lambda a, b: a < b)

    def __le__(self, o):
        return self._zip(o, lambda a, b: a <= b)

    def __gt__(self, o):
        return self._zip(o, lambda a, b: a > b)

    def __ge__(self, o):
        return self._zip(o, lambda a, b: a >= b)

    def __and__(self, o):
        return self._zip(o, lambda a, b: bool(a) and bool(b))

    def __or__(self, o):
        return self._zip(o, lambda a, b: bool(a) or bool(b))

    def __invert__(self):
        def rec(d):
            return [rec(x) for x in d] if isinstance(d, list) else (not d)
        return Arr(rec(self.data))

    def _reduce(self, f, args, k):
        axis = k.get("axis", args[0] if args else None)

        def full(d):
            return f(full(x) for x in d) if isinstance(d, list) else bool(d)
        if axis is None:
            return full(self.data)
        return self.reduce_axis(lambda xs: f(bool(x) for x in xs), axis)

    def all(self, *a, **k):
        return self._reduce(all, a, k)

    def any(self, *a, **k):
        return self._reduce(any, a, k)

    def sum(self, *a, **k):
        axis = k.get("axis", a[0] if a else None)
        if axis is None and self.ndim <= 1:
            return sum(self.data)
        return self.reduce_axis(lambda xs: sum(xs), axis)

    def cumsum(self, *_a, **_k):
        return Arr(list(itertools.accumulate(self.data)))

    def max(self, *a, **k):
        axis = k.get("axis", a[0] if a else None)
        if axis is None and self.ndim <= 1:
            return max(self.data)
        return self.reduce_axis(lambda xs: max(xs), axis)

    def min(self, *a, **k):
        axis = k.get("axis", a[0] if a else None)
        if axis is None and self.ndim <= 1:
            return min(self.data)
        return self.reduce_axis(lambda xs: min(xs), axis)

    # -- arithmetic on numeric cells (coordinates, deltas); a symbolic cell makes the python operator fail, which the evaluator reports as undecided
    def __add__(self, o):
        return _elementwise(lambda a, b: a + b, self, o)

    def __radd__(self, o):
        return _elementwise(lambda a, b: b + a, self, o)

    def __sub__(self, o):
        return _elementwise(lambda a, b: a - b, self, o)

    def __rsub__(self, o):
        return _elementwise(lambda a, b: b - a, self, o)

    def __mul__(self, o):
        return _elementwise(lambda a, b: a * b, self, o)

    def __rmul__(self, o):
        return _elementwise(lambda a, b: b * a, self, o)

    def __floordiv__(self, o):
        return _elementwise(lambda a, b: a // b, self, o)

    def __mod__(self, o):
        return _elementwise(lambda a, b: a % b, self, o)

    def __neg__(self):
        return _elementwise(lambda a: -a, self)

    def __abs__(self):
        return _elementwise(lambda a: abs(a), self)

    def __xor__(self, o):
        return _elementwise(lambda a, b: bool(a) != bool(b), self, o)

    @property
    def size(self) -> int:
        n = 1
        for s_ in self.shape:
            n *= s_
        return n

    @property
    def T(self):
        if self.ndim != 2:
            raise TypeError("only 2-d transposition is modelled")
        return Arr([list(r) for r in zip(*self.data)]) if self.data and self.data[0] else Arr([])

    def flat_list(self) -> list:
        out = []

        def rec(d):
            if isinstance(d, list):
                for x in d:
                    rec(x)
            else:
                out.append(d)
        rec(self.data)
        return out

    def flatten(self):
        return Arr(self.flat_list())

    ravel = flatten

    def item(self):
        if self.size != 1:
            raise ValueError("can only convert an array of size 1 to a Python scalar")
        return self.flat_list()[0]

    def __int__(self):
        return int(self.item())

    def __index__(self):
        return int(self.item())

    def truth(self) -> bool:
        "numpy truthiness: empty -> False, one element -> its truth, otherwise ValueError"
        if self.size == 0:
            return False
        if self.size == 1:
            return bool(self.flat_list()[0])
        raise ValueError("The truth value of an array with more than one element is ambiguous. Use a.any() or a.all()")

    def reshape(self, *shape):
        if len(shape) == 1 and isinstance(shape[0], (tuple, list)):
            shape = tuple(shape[0])
        flat = self.flat_list()
        shape = list(shape)
        if shape.count(-1) == 1:
            known = 1
            for s_ in shape:
                if s_ != -1:
                    known *= s_
            if known == 0 or len(flat) % known:
                raise ValueError(f"cannot reshape array of size {len(flat)} into shape {tuple(shape)}")
            shape[shape.index(-1)] = len(flat) // known
        n = 1
        for s_ in shape:
            n *= s_
        if n != len(flat):
            raise ValueError(f"cannot reshape array of size {len(flat)} into shape {tuple(shape)}")
        it = iter(flat)
        r = _build(tuple(shape), lambda idx: next(it))
        return Arr(r) if isinstance(r, list) else r

    def reduce_axis(self, f, axis=None):
        "f over all cells (axis None) or along one axis; f takes a list of cells"
        if axis is None:
            return f(self.flat_list())
        nd = self.ndim
        if axis < 0:
            axis += nd
        if not 0 <= axis < nd:
            raise ValueError(f"axis {axis} is out of bounds for array of dimension {nd}")
        sh = self.shape
        out_shape = sh[:axis] + sh[axis + 1:]
        r = _build(out_shape, lambda idx: f([_get_at(self.data, idx[:axis] + (k,) + idx[axis:]) for k in range(sh[axis])]))
        return Arr(r) if isinstance(r, list) else r

    def prod(self, axis=None, **_k):
        def mul(xs):
            r = 1
            for v in xs:
                r *= v
            return r
        return self.reduce_axis(mul, axis)

    def argmax(self, axis=None, **_k):
        return self.reduce_axis(lambda xs: max(range(len(xs)), key=lambda i: (xs[i], -i)), axis)

    def argmin(self, axis=None, **_k):
        return self.reduce_axis(lambda xs: min(range(len(xs)), key=lambda i: (xs[i], i)), axis)

    # -- indexing
    @staticmethod
    def _norm_key(key, ndim: int) -> list:
        ks = list(key) if isinstance(key, tuple) else [key]
        if any(k is Ellipsis for k in ks):
            i = ks.index(Ellipsis)
            fill = ndim - (len(ks) - 1)
            ks = ks[:i] + [slice(None)] * max(fill, 0) + ks[i + 1:]
        return ks

    # -- general (numpy "advanced") indexing: integer arrays / lists, boolean masks, None (newaxis) mixed with ints and slices
    @staticmethod
    def _is_advanced(key) -> bool:
        ks = key if isinstance(key, tuple) else (key,)
        return any(k is None or isinstance(k, (list, Arr)) for k in ks)

    def _plan(self, key):
        """(output shape, function output index -> source index) following numpy: ints and integer arrays broadcast together to B; when they
        are adjacent B takes their place, otherwise it comes first; a boolean mask is the tuple of its nonzero index arrays"""
        ks = list(key) if isinstance(key, tuple) else [key]
        n_real = 0
        for k in ks:
            if k is None or k is Ellipsis:
                continue
            if isinstance(k, Arr) and k.size and isinstance(k.flat_list()[0], bool) or (isinstance(k, list) and k and isinstance(_flat(k)[0], bool)):
                n_real += len(_shape(k.data if isinstance(k, Arr) else k))
            else:
                n_real += 1
        if any(k is Ellipsis for k in ks):
            i = ks.index(Ellipsis)
            ks = ks[:i] + [slice(None)] * max(self.ndim - n_real, 0) + ks[i + 1:]
        else:
            ks = ks + [slice(None)] * max(self.ndim - n_real, 0)
        sh = self.shape
        entries = []   # ("slice", axis, positions) | ("new",) | ("adv", axis, Arr-or-int)
        ax = 0
        for k in ks:
            if k is None:
                entries.append(("new",))
                continue
            if ax >= len(sh):
                raise IndexError("too many indices for array")
            if isinstance(k, slice):
                entries.append(("slice", ax, list(range(*k.indices(sh[ax])))))
                ax += 1
            elif isinstance(k, bool) or isinstance(k, (float, str)):
                raise TypeError(f"unsupported index {k!r}")
            elif isinstance(k, int):
                entries.append(("adv", ax, k))
                ax += 1
            else:
                d = k.data if isinstance(k, Arr) else _to_data(k)
                fl = _flat(d)
                if fl and isinstance(fl[0], bool):
                    msh = _shape(d)
                    if msh != sh[ax:ax + len(msh)]:
                        raise IndexError(f"boolean index did not match indexed array: mask shape {msh}, array shape {sh}")
                    hits = [idx for idx in itertools.product(*[range(n_) for n_ in msh]) if _get_at(d, idx) is True]
                    if any(_get_at(d, idx) not in (True, False) for idx in itertools.product(*[range(n_) for n_ in msh])):
                        raise TypeError("mask with non-boolean cells")
                    for j in range(len(msh)):
                        entries.append(("adv", ax + j, Arr([h[j] for h in hits])))
                    ax += len(msh)
                else:
                    if any(not isinstance(x, int) or isinstance(x, bool) for x in fl):
                        raise IndexError("arrays used as indices must be of integer (or boolean) type")
                    entries.append(("adv", ax, Arr(d) if isinstance(d, list) else d))
                    ax += 1
        adv = [i for i, e in enumerate(entries) if e[0] == "adv"]
        has_array = any(isinstance(entries[i][2], Arr) for i in adv)
        if not has_array:
            # only ints: basic indexing (each int removes its axis)
            B, adjacent = (), True
        else:
            B = _bshape(*[(entries[i][2].shape if isinstance(entries[i][2], Arr) else ()) for i in adv])
            adjacent = adv == list(range(adv[0], adv[-1] + 1))
        for i in adv:
            e = entries[i]
            vals = e[2].flat_list() if isinstance(e[2], Arr) else [e[2]]
            for v in vals:
                if not -sh[e[1]] <= v < sh[e[1]]:
                    raise IndexError(f"index {v} is out of bounds for axis {e[1]} with size {sh[e[1]]}")
        out_dims = []   # ("B", j) | ("slice", entry index) | ("new",)
        placed = False
        if has_array and not adjacent:
            out_dims += [("B", j) for j in range(len(B))]
            placed = True
        for i, e in enumerate(entries):
            if e[0] == "adv":
                if has_array and not placed:
                    out_dims += [("B", j) for j in range(len(B))]
                    placed = True
            elif e[0] == "slice":
                out_dims.append(("slice", i))
            else:
                out_dims.append(("new",))
        out_shape = tuple(B[d[1]] if d[0] == "B" else (len(entries[d[1]][2]) if d[0] == "slice" else 1) for d in out_dims)

        def src(idx):
            b = tuple(i_ for i_, d in zip(idx, out_dims) if d[0] == "B")
            sl = {d[1]: i_ for i_, d in zip(idx, out_dims) if d[0] == "slice"}
            out = [None] * len(sh)
            for i, e in enumerate(entries):
                if e[0] == "slice":
                    out[e[1]] = e[2][sl[i]]
                elif e[0] == "adv":
                    if isinstance(e[2], Arr):
                        ash = e[2].shape
                        sub = b[len(b) - len(ash):] if ash else ()
                        out[e[1]] = _get_at(e[2].data, [0 if n_ == 1 else i_ for i_, n_ in zip(sub, ash)])
                    else:
                        out[e[1]] = e[2]
            return out
        return out_shape, src

    def __getitem__(self, key):
        if self._is_advanced(key):
            out_shape, src = self._plan(key)
            r = _build(out_shape, lambda idx: _get_at(self.data, src(idx)))
            return Arr(r) if isinstance(r, list) else r
        ks = self._norm_key(key, self.ndim)

        def get(d, ks):
            if not ks:
                return d
            k, rest = ks[0], ks[1:]
            if isinstance(k, Arr):
                k = k.data
            if isinstance(k, slice):
                return [get(x, rest) for x in d[k]]
            if isinstance(k, bool) or not isinstance(k, int):
                raise TypeError(f"unsupported index {k!r}")
            return get(d[k], rest)
        r = get(self.data, ks)
        return Arr(r) if isinstance(r, list) else r

    def eq_elementwise(self, other) -> "Arr":
        "elementwise == (kept apart from __eq__, which is structural equality for the rules)"
        return self._zip(other, lambda a, b: a == b)

    def __setitem__(self, key, value) -> None:
        if isinstance(key, Arr) and key.shape == self.shape[:key.ndim] and key.ndim >= 1 and not isinstance(value, (Arr, list, tuple)):
            # boolean mask store
            v = value.data if isinstance(value, Arr) else value

            def put_mask(d, m):
                for i, mm in enumerate(m):
                    if isinstance(mm, list):
                        put_mask(d[i], mm)
                    elif mm is True:
                        d[i] = v
                    elif mm is not False:
                        raise TypeError("mask store with a non-boolean mask")
            put_mask(self.data, key.data)
            return
        if self._is_advanced(key):
            out_shape, src = self._plan(key)
            v = value.data if isinstance(value, Arr) else (_to_data(value) if isinstance(value, (list, tuple)) else value)
            vsh = _shape(v)
            if _bshape(vsh, out_shape) != out_shape:
                raise ValueError(f"shape mismatch: value array of shape {vsh} could not be broadcast to indexing result of shape {out_shape}")
            for idx in itertools.product(*[range(n_) for n_ in out_shape]):
                sub = idx[len(idx) - len(vsh):] if vsh else ()
                cell = _get_at(v, [0 if n_ == 1 else i_ for i_, n_ in zip(sub, vsh)]) if vsh else v
                s_ = src(idx)
                tgt = _get_at(self.data, s_[:-1])
                tgt[s_[-1]] = cell
            return
        ks = self._norm_key(key, self.ndim)
        v = value.data if isinstance(value, Arr) else value

        def put(d, ks, v):
            k, rest = ks[0], ks[1:]
            if isinstance(k, slice):
                idxs = list(range(*k.indices(len(d))))
                if isinstance(v, list):
                    if len(v) != len(idxs):
                        raise ValueError(f"could not broadcast input array from shape ({len(v)},) into shape ({len(idxs)},)")
                    for i, x in zip(idxs, v):
                        if rest:
                            put(d[i], rest, x)
                        else:
                            d[i] = x
                else:
                    for i in idxs:
                        if rest:
                            put(d[i], rest, v)
                        else:
                            d[i] = v
                return
            if isinstance(k, bool) or not isinstance(k, int):
                raise TypeError(f"unsupported index {k!r}")
            if rest:
                put(d[k], rest, v)
            else:
                if isinstance(v, list) and isinstance(d[k], list) and _shape(v) != _shape(d[k]) and _shape(d[k]):
                    raise ValueError(f"could not broadcast input array from shape {_shape(v)} into shape {_shape(d[k])}")
                d[k] = v
        put(self.data, ks, v)


def _flat(d) -> list:
    out = []

    def rec(x):
        if isinstance(x, list):
            for y in x:
                rec(y)
        else:
            out.append(x)
    rec(d)
    return out


def _full(shape, fill):
    if isinstance(shape, Arr) and shape.ndim == 1:
        shape = list(shape.data)
    shape = [int(s.data if isinstance(s, Arr) else s) for s in (shape if isinstance(shape, (tuple, list)) else (shape,))]
    if any(s < 0 for s in shape):
        raise ValueError("negative dimensions are not allowed")

    def mk(sh):
        if not sh:
            return fill
        return [mk(sh[1:]) for _ in range(sh[0])]
    return Arr(mk(shape))


def _to_data(x):
    if isinstance(x, Arr):
        return x.data
    if isinstance(x, (list, tuple)):
        return [_to_data(y) for y in x]
    return x


def _split(arr, points, axis=0):
    pts = list(_to_data(points)) if not isinstance(points, int) else None
    if pts is None or axis != 0:
        raise TypeError("only split at explicit points along axis 0 is modelled")
    d = arr.data
    out, prev = [], 0
    for p in pts + [len(d)]:
        out.append(Arr(d[prev:p]))
        prev = p
    return out


def _pad(arr, pad_width, mode="constant", constant_values=0, **_k):
    pw = _to_data(pad_width)
    if isinstance(pw, int):
        pw = [[pw, pw]] * arr.ndim
    elif pw and isinstance(pw[0], int):
        pw = [list(pw)] * arr.ndim
    if mode != "constant" or arr.ndim != 2 or len(pw) != 2:
        raise TypeError("only constant padding of 2-d arrays is modelled")
    (t, b), (l, r) = pw
    w = len(arr.data[0]) if arr.data else 0
    rows = [[constant_values] * (w + l + r) for _ in range(t)]
    rows += [[constant_values] * l + list(row) + [constant_values] * r for row in arr.data]
    rows += [[constant_values] * (w + l + r) for _ in range(b)]
    return Arr(rows)


def _where(cond, a=None, b=None):
    if a is None and b is None:
        # the tuple of index arrays of the true cells, one array per axis (row-major order)
        c = _arr(cond)
        sh = c.shape
        hits = [idx for idx in itertools.product(*[range(n_) for n_ in sh]) if _get_at(c.data, idx)]
        return tuple(Arr([h[j] for h in hits]) for j in range(len(sh)))
    return _elementwise(lambda c, x, y: x if c else y, cond, a, b)


def _arr(x):
    return x if isinstance(x, Arr) else (Arr(_to_data(x)) if isinstance(x, (list, tuple)) else x)


def _array_equal(a, b):
    a, b = _arr(a), _arr(b)
    if isinstance(a, Arr) != isinstance(b, Arr):
        return False
    if not isinstance(a, Arr):
        return a == b
    return a.shape == b.shape and a.flat_list() == b.flat_list()


def _stack(xs, axis=0, **_k):
    arrs = [_arr(x) for x in xs]
    if not arrs:
        raise ValueError("need at least one array to stack")
    sh = arrs[0].shape if isinstance(arrs[0], Arr) else ()
    if any((a.shape if isinstance(a, Arr) else ()) != sh for a in arrs):
        raise ValueError("all input arrays must have the same shape")
    nd = len(sh) + 1
    if axis < 0:
        axis += nd
    if not 0 <= axis < nd:
        raise ValueError(f"axis {axis} is out of bounds for array of dimension {nd}")
    out_shape = sh[:axis] + (len(arrs),) + sh[axis:]
    r = _build(out_shape, lambda idx: _get_at(arrs[idx[axis]].data, idx[:axis] + idx[axis + 1:]) if sh else arrs[idx[axis]])
    return Arr(r)


def _sort(a, axis=-1, **_k):
    "np.sort: every lane along `axis` is sorted independently (a copy)"
    a = _arr(a)
    if axis is None:
        return Arr(sorted(a.flat_list()))
    nd = a.ndim
    if axis < 0:
        axis += nd
    sh = a.shape
    lanes = {}
    for idx in itertools.product(*[range(n_) for n_ in sh[:axis] + sh[axis + 1:]]):
        lanes[idx] = sorted(_get_at(a.data, idx[:axis] + (k,) + idx[axis:]) for k in range(sh[axis]))
    return Arr(_build(sh, lambda idx: lanes[idx[:axis] + idx[axis + 1:]][idx[axis]]))


def _argwhere(a):
    a = _arr(a)
    sh = a.shape
    return Arr([list(idx) for idx in itertools.product(*[range(n_) for n_ in sh]) if _get_at(a.data, idx)])


def _meshgrid(*xs, indexing="xy", **_k):
    if indexing not in ("ij", "xy") or len(xs) != 2:
        raise TypeError("only np.meshgrid(a, b, indexing='ij' | 'xy') is modelled")
    a, b = [list(_to_data(x)) if not isinstance(x, range) else list(x) for x in xs]
    if indexing == "xy":
        return [Arr([[x for x in a] for _ in b]), Arr([[y for _ in a] for y in b])]
    return [Arr([[x for _ in b] for x in a]), Arr([[y for y in b] for _ in a])]


def _vstack(xs):
    rows = []
    for x in xs:
        d = _to_data(x)
        rows += d if d and isinstance(d[0], list) else [d]
    return Arr(rows)


def _prod(x, axis=None, **_k):
    a = _arr(x)
    if not isinstance(a, Arr):
        return a

    def mul(xs):
        r = 1
        for v in xs:
            r *= v
        return r
    return a.reduce_axis(mul, axis)


def _norm(x, ord=None, axis=None, **_k):
    """np.linalg.norm of a vector (or of each row / column of a matrix along `axis`) for ord 1, 2 (default), inf"""
    a = _arr(x)
    if ord not in (None, 1, 2, float("inf")) or not isinstance(a, Arr) or (a.ndim == 2 and axis is None) or a.ndim > 2:
        raise TypeError("only vector norms with ord 1 / 2 / inf are modelled")

    def nrm(xs):
        if ord == 1:
            return sum(abs(v) for v in xs)
        if ord == float("inf"):
            return max(abs(v) for v in xs)
        r = sum(v * v for v in xs) ** 0.5
        return int(r) if r == int(r) else r
    r = a.reduce_axis(nrm, axis)
    return r if isinstance(r, Arr) else Arr(r)


MODELS = {
    "np.linalg.norm": _norm,
    "np.sort": _sort,
    "warnings.warn": lambda *a, **k: None,
    "np.prod": _prod,
    "np.column_stack": lambda xs: Arr([list(r) for r in zip(*[_to_data(x) for x in xs])]),
    "np.maximum": lambda a, b, **k: _elementwise(lambda x, y: x if x >= y else y, a, b),
    "np.minimum": lambda a, b, **k: _elementwise(lambda x, y: x if x <= y else y, a, b),
    "np.copy": lambda a, **k: _arr(a).copy() if isinstance(_arr(a), Arr) else a,
    "np.ndindex": lambda *sh: list(itertools.product(*[range(int(n_)) for n_ in (sh[0] if len(sh) == 1 and isinstance(sh[0], (tuple, list)) else sh)])),
    "np.meshgrid": _meshgrid,
    "np.vstack": _vstack,
    "np.abs": lambda x: abs(x) if not isinstance(x, (list, tuple)) else abs(_arr(x)),
    "np.absolute": lambda x: abs(_arr(x)),
    "np.argmax": lambda x, axis=None, **k: _arr(x).argmax(axis),
    "np.argmin": lambda x, axis=None, **k: _arr(x).argmin(axis),
    "np.where": _where,
    "np.array_equal": _array_equal,
    "np.arange": lambda *a, **k: Arr(list(range(*a))),
    "np.min": lambda x, axis=None, **k: _arr(x).min(axis=axis),
    "np.logical_or": lambda a, b: _arr(a) | b,
    "np.logical_xor": lambda a, b: _arr(a) ^ b,
    "np.zeros_like": lambda x, *a, **k: _elementwise(lambda c: 0, x),
    "np.ones_like": lambda x, *a, **k: _elementwise(lambda c: 1, x),
    "np.argwhere": _argwhere,
    "np.count_nonzero": lambda x, **k: sum(1 for c in _arr(x).flat_list() if c),
    "np.pad": _pad,
    "np.empty": lambda shape, *a, **k: _full(shape, UNINIT),
    "np.zeros": lambda shape, *a, **k: _full(shape, 0),
    "np.ones": lambda shape, *a, **k: _full(shape, 1),
    "np.full": lambda shape, fill, *a, **k: _full(shape, fill),
    "np.array": lambda x, *a, **k: Arr(_to_data(x)) if isinstance(x, (list, tuple, Arr)) else x,
    "np.asarray": lambda x, *a, **k: Arr(_to_data(x)) if isinstance(x, (list, tuple, Arr)) else x,
    "np.sum": lambda x, *a, **k: _arr(x).sum(*a, **k) if isinstance(_arr(x), Arr) else x,
    "np.cumsum": lambda x, *a, **k: Arr(list(itertools.accumulate(_to_data(x)))),
    "np.split": _split,
    "np.concatenate": lambda xs, *a, **k: Arr([row for x in xs for row in _to_data(x)]),
    "np.stack": _stack,
    "np.max": lambda x, axis=None, **k: _arr(x).max(axis=axis),
    "np.all": lambda x, *a, **k: x.all(*a, **k) if isinstance(x, Arr) else all(x),
    "np.any": lambda x, *a, **k: x.any(*a, **k) if isinstance(x, Arr) else any(x),
    "np.logical_and": lambda a, b: a & b,
    "np.logical_not": lambda a: ~a,
    "len": lambda x: len(x),
}
