"""nondeterministic abstract evaluation (E15): every random draw of the interpreted code is a *choice point*; `explore` re-runs the
fragment once per sequence of choices, depth first, so that a rule sees the outcome of every possible draw (on a small abstract
input).  Models of the `random` / `np.random` calls the repository uses are in `models(script)`."""

from __future__ import annotations

import itertools
from typing import Any, Callable

from sa.absnp import Arr
from sa.fold import EvalRaised, Unknown


class Pruned(Unknown):
    "the run needs more choice points than the exploration depth allows: the branch is left unexplored (and counted)"


class Script:
    "the choices of one run: (index taken, number of alternatives) per choice point, replayed as a prefix on the next run"

    def __init__(self, max_depth: int | None = None) -> None:
        self.trace: list[list[int]] = []
        self.pos = 0
        self.max_depth = max_depth

    def choose(self, n: int) -> int:
        if n <= 0:
            raise Unknown("choice among no alternatives")
        if self.max_depth is not None and self.pos >= self.max_depth:
            raise Pruned()
        if self.pos < len(self.trace):
            i, m = self.trace[self.pos]
            if m != n:
                raise Unknown("replay diverged (the number of alternatives depends on something else than earlier choices)")
        else:
            i = 0
            self.trace.append([0, n])
        self.pos += 1
        return i

    def advance(self) -> bool:
        "move to the next unexplored sequence; False when all are done"
        while self.trace and self.trace[-1][0] == self.trace[-1][1] - 1:
            self.trace.pop()
        if not self.trace:
            return False
        self.trace[-1][0] += 1
        self.pos = 0
        return True


PRUNED = object()


def explore(run: Callable[[Script], Any], max_runs: int = 20000, max_depth: int | None = None):
    """yield (choices, outcome) for every sequence of choices; outcome is the value, the EvalRaised instance, or PRUNED for a branch cut
    at max_depth choice points (random walks that can go on for ever are explored up to that depth)"""
    sc = Script(max_depth)
    n = 0
    while True:
        sc.pos = 0
        try:
            out = run(sc)
        except EvalRaised as e:
            out = e
        except Pruned:
            out = PRUNED
        yield [i for i, _ in sc.trace[:sc.pos]], out
        n += 1
        if n >= max_runs:
            raise Unknown("choice exploration budget exceeded")
        # choices beyond the replayed prefix that the run did not reach are dropped
        del sc.trace[sc.pos:]
        if not sc.advance():
            return


def models(sc: Script) -> dict[str, Callable]:
    def randint_np(lo, hi=None, size=None, **_k):
        if hi is None:
            lo, hi = 0, lo
        if size is not None or isinstance(lo, Arr) or isinstance(hi, Arr):
            # one independent draw per component (bounds broadcast against the requested size)
            n = int(size) if size is not None else max(len(x) for x in (lo, hi) if isinstance(x, Arr))
            los = list(lo.data) if isinstance(lo, Arr) else [lo] * n
            his = list(hi.data) if isinstance(hi, Arr) else [hi] * n
            if len(los) != n or len(his) != n:
                raise EvalRaised("ValueError", "shape mismatch: objects cannot be broadcast to a single shape")
            return Arr([randint_np(a_, b_) for a_, b_ in zip(los, his)])
        lo, hi = int(lo), int(hi)
        if lo >= hi:
            raise EvalRaised("ValueError", "low >= high")
        return lo + sc.choose(hi - lo)

    def randint_py(a, b):
        if a > b:
            raise EvalRaised("ValueError", "empty range for randrange()")
        return a + sc.choose(b - a + 1)

    def _population(a):
        if isinstance(a, int) and not isinstance(a, bool):
            if a <= 0:
                raise EvalRaised("ValueError", "a must be greater than 0")
            return list(range(a))
        pop = list(a.data) if isinstance(a, Arr) else list(a)
        if not pop:
            raise EvalRaised("ValueError", "'a' cannot be empty")
        return [Arr(x) if isinstance(x, list) else x for x in pop]

    def choice_np(a, size=None, replace=True, p=None, **_k):
        if p is not None:
            raise Unknown("np.random.choice with probabilities")
        pop = _population(a)
        if size is None:
            return pop[sc.choose(len(pop))]
        k = int(size)
        if not replace and k > len(pop):
            raise EvalRaised("ValueError", "Cannot take a larger sample than population when 'replace=False'")
        tuples = list(itertools.product(range(len(pop)), repeat=k)) if replace else list(itertools.permutations(range(len(pop)), k))
        if len(tuples) > 400:
            raise Unknown("too many joint draws")
        t = tuples[sc.choose(len(tuples))]
        return Arr([pop[i].data if isinstance(pop[i], Arr) else pop[i] for i in t])

    def choice_py(seq):
        pop = list(seq.data) if isinstance(seq, Arr) else list(seq)
        if not pop:
            raise EvalRaised("IndexError", "Cannot choose from an empty sequence")
        x = pop[sc.choose(len(pop))]
        return Arr(x) if isinstance(x, list) else x

    return {"np.random.randint": randint_np, "random.randint": randint_py, "np.random.choice": choice_np, "random.choice": choice_py,
            "random.randrange": lambda a, b=None: randint_np(a, b)}


class RandomScript(Script):
    "choices drawn from a fixed linear congruential sequence: a reproducible sample of the runs that are too deep to enumerate"

    def __init__(self, seed: int, max_choices: int = 400) -> None:
        super().__init__(None)
        self.x = (1103515245 * (seed + 12345) + 12345) % (1 << 31)
        self.n = 0
        self.max_choices = max_choices

    def choose(self, n: int) -> int:
        if n <= 0:
            raise Unknown("choice among no alternatives")
        self.n += 1
        if self.n > self.max_choices:
            raise Pruned()
        self.x = (1103515245 * self.x + 12345) % (1 << 31)
        return (self.x >> 12) % n


def sample(run: Callable[[Script], Any], n_runs: int, seed: int = 0, max_choices: int = 400):
    "yield the outcome of n_runs runs under pseudo-random (reproducible) choice sequences"
    for k in range(n_runs):
        sc = RandomScript(seed * 1000003 + k, max_choices)
        try:
            out = run(sc)
        except EvalRaised as e:
            out = e
        except Pruned:
            out = PRUNED
        yield k, out
