"""E11 -- size and members of the `all_instances` space of the tokenizer classes, from their declarations

Model of maze_dataset.utils.all_instances over the class declarations (no import, no instantiation):
bool -> 2 values; Literal[...] -> its arguments; a concrete dataclass -> product over its fields
(the hidden `_type_` field is a singleton and is not represented); an abstract class -> union over its
*direct* subclasses in definition order; tuple[...] -> product; A | B -> concatenation.
Validation: `_TokenizerElement: lambda x: x.is_valid()` filters every element instance, where
is_valid is the first of (mark_as_unsupported lambda, explicit def) along the MRO -- the marker
is applied before the dataclass decorator and overrides the class body's own is_valid.
Abstractness follows abc: abstract methods along the MRO that no more-derived class body (or
marker) overrides; dataclasses calls abc.update_abstractmethods.
"""

from __future__ import annotations

import ast
import itertools
from typing import Any

from sa.finite import class_hooks
from sa.fold import ClassRef, Closure, Evaluator, Obj, Unknown
from sa.index import AnalysisError, ClassInfo, SourceIndex, dotted_of

MT = "maze_dataset.tokenization.maze_tokenizer"
ELEMENT = f"{MT}._TokenizerElement"


class TokenizerSpace:
    def __init__(self, index: SourceIndex) -> None:
        self.ix = index
        self.mod = index.module(MT)
        self._inst: dict[str, list] = {}
        self._size: dict[str, int] = {}
        self.table: dict[str, int] = {}
        self.permutation_validator: ast.Lambda | None = None

    # ---------------------------------------------------------------- class facts
    def element_classes(self) -> list[ClassInfo]:
        return [c for c in self.ix.classes.values() if c.qualname != ELEMENT and ELEMENT in self.ix.mro(c)]

    def marker(self, c: ClassInfo) -> ast.Lambda | None:
        d = c.decorator("mark_as_unsupported")
        if d is None or d.call is None or not d.call.args:
            return None
        if not isinstance(d.call.args[0], ast.Lambda):
            raise AnalysisError(f"{c.qualname}: mark_as_unsupported argument is not a lambda")
        # the marker must be applied *before* (below) the dataclass decorator to take effect on the class attribute
        return d.call.args[0]

    def abstract_methods(self, c: ClassInfo) -> set[str]:
        "names still abstract on class c (abc semantics incl. update_abstractmethods after the decorators ran)"
        abstract: set[str] = set()
        for q in reversed(self.ix.mro(c)):
            ci = self.ix.classes.get(q)
            if ci is None:
                continue
            for name, m in ci.methods.items():
                is_abs = any(d.name.endswith("abstractmethod") for d in m.decorators)
                if is_abs:
                    abstract.add(name)
                else:
                    abstract.discard(name)
            if self.marker(ci) is not None:
                abstract.discard("is_valid")
        return abstract

    def is_abstract(self, c: ClassInfo) -> bool:
        return bool(self.abstract_methods(c))

    def is_valid_impl(self, c: ClassInfo):
        "('lambda', Lambda, owner) | ('def', FunctionDef, owner)"
        for q in self.ix.mro(c):
            ci = self.ix.classes.get(q)
            if ci is None:
                continue
            m = self.marker(ci)
            if m is not None:
                return ("lambda", m, ci)
            if "is_valid" in ci.methods:
                return ("def", ci.methods["is_valid"].node, ci)
        raise AnalysisError(f"{c.qualname}: no is_valid along the MRO")

    def direct_subclasses(self, c: ClassInfo) -> list[ClassInfo]:
        subs = [s for s in self.ix.classes.values() if c.qualname in s.bases]
        return sorted(subs, key=lambda s: (s.module.name, s.node.lineno))

    # ---------------------------------------------------------------- evaluator
    def evaluator(self, scope: ClassInfo | None) -> Evaluator:
        hooks = class_hooks(self.ix, self.mod, scope)
        base_call = hooks["__call__"]
        base_classattr = hooks["__classattr__"]
        space = self

        def classattr(cref: ClassRef, attr: str):
            ci = space.ix.classes[cref.qualname]
            if attr in ci.nested:
                return ClassRef(ci.nested[attr].qualname)
            if attr in ci.assigns:
                return Evaluator(hooks).ev(ci.assigns[attr], {})
            return base_classattr(cref, attr)

        def call(ev, node, env):
            r = base_call(ev, node, env)
            if r is not NotImplemented:
                return r
            # constructing an element class with explicit keyword arguments / defaults
            try:
                f = ev.ev(node.func, env)
            except Unknown:
                return NotImplemented
            if isinstance(f, ClassRef):
                kwargs = {kw.arg: ev.ev(kw.value, env) for kw in node.keywords if kw.arg}
                if node.args:
                    raise Unknown("positional constructor arguments")
                return space.construct(space.ix.classes[f.qualname], kwargs)
            if isinstance(f, Obj):
                raise Unknown("calling an instance")
            return NotImplemented

        def getattr_hook(obj: Obj, attr: str):
            if attr == "__class__":
                return ClassRef(obj.cls)
            raise Unknown(f"attribute {attr} of {obj!r}")

        hooks.update({"__classattr__": classattr, "__call__": call, "__getattr__": getattr_hook})
        return Evaluator(hooks, max_steps=20_000_000)

    def fields_of(self, c: ClassInfo):
        return [(n, f) for n, f in self.ix.all_fields(c).items() if n != "_type_"]

    def construct(self, c: ClassInfo, kwargs: dict[str, Any]) -> Obj:
        attrs = {}
        for n, f in self.fields_of(c):
            if n in kwargs:
                attrs[n] = kwargs[n]
            else:
                d = f.default
                if d is None:
                    raise Unknown(f"{c.qualname}.{n} has no default")
                attrs[n] = self.evaluator(c.outer).ev(d, {})
        return Obj(c.qualname, attrs)

    def valid(self, inst: Obj) -> bool:
        c = self.ix.classes[inst.cls]
        kind, node, owner = self.is_valid_impl(c)
        ev = self.evaluator(owner.outer or owner)
        if kind == "lambda":
            return bool(ev.call(Closure(node, {}), [inst], {}))
        return bool(ev.run_body(node.body, {"self": inst}))

    def validity_is_constant_true(self, c: ClassInfo) -> bool:
        probe = Obj(c.qualname, {})
        try:
            return self.valid(probe) is True
        except Unknown:
            return False

    # ---------------------------------------------------------------- the space
    def type_values(self, ann: ast.AST, scope: ClassInfo | None, alias_depth: int = 0) -> list:
        "all values of an annotation (enumerated)"
        if isinstance(ann, ast.Constant) and isinstance(ann.value, str):
            ann = ast.parse(ann.value, mode="eval").body
        if isinstance(ann, ast.Name) and ann.id == "bool":
            return [True, False]
        if isinstance(ann, ast.Subscript):
            base = dotted_of(ann.value) or ""
            if base.split(".")[-1] == "Literal":
                elts = ann.slice.elts if isinstance(ann.slice, ast.Tuple) else [ann.slice]
                return [Evaluator().ev(e, {}) for e in elts]
            if base == "tuple":
                elts = ann.slice.elts if isinstance(ann.slice, ast.Tuple) else [ann.slice]
                if any(isinstance(e, ast.Constant) and e.value is Ellipsis for e in elts):
                    raise AnalysisError("variable-length tuple annotation is not finite")
                return [tuple(c) for c in itertools.product(*[self.type_values(e, scope) for e in elts])]
            raise AnalysisError(f"annotation outside the supported fragment: {ast.unparse(ann)}")
        if isinstance(ann, ast.BinOp) and isinstance(ann.op, ast.BitOr):
            return self.type_values(ann.left, scope) + self.type_values(ann.right, scope)
        d = dotted_of(ann)
        if d is None:
            raise AnalysisError(f"annotation outside the supported fragment: {ast.unparse(ann)}")
        q = self.ix.resolve(self.mod, d, scope)
        if q in self.ix.classes:
            return self.instances(self.ix.classes[q])
        # alias defined as a class-level / module-level assignment (e.g. StepTokenizerPermutation)
        owner_q, _, name = q.rpartition(".")
        owner = self.ix.classes.get(owner_q)
        if owner is not None and name in owner.assigns and alias_depth < 3:
            vals = self.type_values(owner.assigns[name], owner, alias_depth + 1)
            if name == "StepTokenizerPermutation" and self.permutation_validator is not None:
                ev = self.evaluator(owner)
                vals = [v for v in vals if ev.call(Closure(self.permutation_validator, {}), [v], {})]
            return vals
        if owner is not None and name in owner.fields and alias_depth < 3:
            return self.type_values(owner.fields[name].value, owner, alias_depth + 1)
        raise AnalysisError(f"annotation `{ast.unparse(ann)}` does not resolve to a finite type")

    def instances(self, c: ClassInfo) -> list[Obj]:
        if c.qualname in self._inst:
            return self._inst[c.qualname]
        if self.is_abstract(c):
            out = []
            for s in self.direct_subclasses(c):
                out.extend(self.instances(s))
        else:
            fl = self.fields_of(c)
            doms = [self.type_values(f.annotation, c.outer or c) for _, f in fl]
            n = 1
            for d in doms:
                n *= len(d)
            if n > 3_000_000:
                raise AnalysisError(f"{c.qualname}: {n} raw instances - too many to enumerate")
            out = [Obj(c.qualname, dict(zip([x for x, _ in fl], combo))) for combo in itertools.product(*doms)]
            if ELEMENT in self.ix.mro(c):
                out = [o for o in out if self.valid(o)]
        self._inst[c.qualname] = out
        self.table[c.qualname.replace(MT + ".", "")] = len(out)
        return out

    def size(self, c: ClassInfo) -> int:
        "number of valid instances, computed without enumerating products whose validity is constant"
        if c.qualname in self._size:
            return self._size[c.qualname]
        if self.is_abstract(c):
            n = sum(self.size(s) for s in self.direct_subclasses(c))
        else:
            is_el = ELEMENT in self.ix.mro(c)
            if is_el and not self.validity_is_constant_true(c):
                n = len(self.instances(c))
            else:
                n = 1
                for _, f in self.fields_of(c):
                    n *= self.type_size(f.annotation, c.outer or c)
        self._size[c.qualname] = n
        self.table[c.qualname.replace(MT + ".", "")] = n
        return n

    def type_size(self, ann: ast.AST, scope: ClassInfo | None) -> int:
        d = dotted_of(ann)
        if d is not None:
            q = self.ix.resolve(self.mod, d, scope)
            if q in self.ix.classes:
                return self.size(self.ix.classes[q])
        return len(self.type_values(ann, scope))
