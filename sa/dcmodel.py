"""E9 -- dataclass semantics model: which dunders are *effective* on a class after its decorator ran

Premises, each extracted or tabulated:
* `serializable_dataclass` forwards eq/frozen/unsafe_hash/init to `dataclasses.dataclass`
  (sa.deps reads that from the installed muutils source, incl. the defaults);
* CPython: `_set_new_attribute` never overwrites a name present in the class body, so an explicit
  `__eq__`/`__init__` survives the decorator; `__hash__` follows `_hash_action`
  (sa.deps.DATACLASS_HASH_ACTION); a class body that defines `__eq__` but not `__hash__` gets
  `__hash__ = None` from the interpreter; the generated `__init__` calls `__post_init__`.
"""

from __future__ import annotations

import ast
from dataclasses import dataclass

from sa.deps import DATACLASS_HASH_ACTION, DependencyFacts
from sa.index import AnalysisError, ClassInfo, FieldInfo, FuncInfo, SourceIndex

DC_DECORATORS = (
    "muutils.json_serialize.serializable_dataclass.serializable_dataclass",
    "muutils.json_serialize.serializable_dataclass",
    "dataclasses.dataclass",
)
SDC_BASES = (
    "muutils.json_serialize.serializable_dataclass.SerializableDataclass",
    "muutils.json_serialize.SerializableDataclass",
)


@dataclass
class Dunder:
    kind: str  # 'explicit' | 'generated' | 'none' | 'external' | 'object'
    owner: str  # qualname of the class whose namespace provides it
    func: FuncInfo | None = None

    def to_json(self) -> dict:
        return {"kind": self.kind, "owner": self.owner}


class DataclassModel:
    def __init__(self, index: SourceIndex, deps: DependencyFacts) -> None:
        self.index, self.deps = index, deps

    def dc_decorator(self, c: ClassInfo):
        for d in c.decorators:
            if d.name in DC_DECORATORS or d.name.endswith(".serializable_dataclass"):
                return d
        return None

    def _flag(self, c: ClassInfo, name: str) -> bool:
        d = self.dc_decorator(c)
        if d is None:
            raise AnalysisError(f"{c.qualname} is not decorated as a dataclass")
        is_sdc = d.name != "dataclasses.dataclass"
        v = d.kwarg(name)
        if v is not None:
            if isinstance(v, ast.Constant) and isinstance(v.value, bool):
                val = v.value
            else:
                raise AnalysisError(f"{c.qualname}: decorator argument {name}={ast.unparse(v)} is not a literal")
        else:
            if is_sdc:
                try:
                    val = bool(self.deps.sdc_param_default(name))
                except AnalysisError:
                    val = {"kw_only": False}.get(name)
                    if val is None:
                        raise
            else:
                val = {"init": True, "repr": True, "eq": True, "order": False, "unsafe_hash": False,
                       "frozen": False, "kw_only": False}[name]
        if is_sdc and not self.deps.sdc_forwards(name):
            raise AnalysisError(f"serializable_dataclass no longer forwards `{name}` to dataclasses.dataclass")
        return val

    def flags(self, c: ClassInfo) -> dict[str, bool]:
        return {n: self._flag(c, n) for n in ("init", "eq", "frozen", "unsafe_hash")}

    def own(self, c: ClassInfo, name: str) -> Dunder | None:
        "what `c.__dict__[name]` holds after class creation and decoration (None = not in __dict__)"
        explicit = c.methods.get(name)
        if name in c.assigns and explicit is None:
            v = c.assigns[name]
            if isinstance(v, ast.Constant) and v.value is None:
                return Dunder("none", c.qualname)
            raise AnalysisError(f"{c.qualname}.{name} is assigned from {ast.unparse(v)}: unknown dunder shape")
        deco = self.dc_decorator(c)
        if name == "__eq__":
            if explicit:
                return Dunder("explicit", c.qualname, explicit)
            if deco is not None and self._flag(c, "eq"):
                return Dunder("generated", c.qualname)
            return None
        if name == "__hash__":
            body_eq = "__eq__" in c.methods
            if deco is None:
                if explicit:
                    return Dunder("explicit", c.qualname, explicit)
                return Dunder("none", c.qualname) if body_eq else None
            has_explicit = explicit is not None
            act = DATACLASS_HASH_ACTION[(self._flag(c, "unsafe_hash"), self._flag(c, "eq"),
                                         self._flag(c, "frozen"), has_explicit)]
            if act == "raise":
                raise AnalysisError(f"{c.qualname}: unsafe_hash with explicit __hash__ raises at import")
            if act == "add":
                return Dunder("generated", c.qualname)
            if act == "none":
                return Dunder("none", c.qualname)
            if explicit:
                return Dunder("explicit", c.qualname, explicit)
            return Dunder("none", c.qualname) if body_eq else None
        if name == "__init__":
            if explicit:
                return Dunder("explicit", c.qualname, explicit)
            if deco is not None and self._flag(c, "init"):
                return Dunder("generated", c.qualname)
            return None
        if explicit:
            return Dunder("explicit", c.qualname, explicit)
        return None

    def effective(self, c: ClassInfo, name: str) -> Dunder:
        for q in self.index.mro(c):
            ci = self.index.classes.get(q)
            if ci is None:
                if q in SDC_BASES and name in ("__eq__", "__hash__"):
                    return Dunder("external", q)
                continue
            self.index.consulted.add(ci.relpath)
            d = self.own(ci, name)
            if d is not None:
                return d
        return Dunder("object", "builtins.object")

    def compared_fields(self, c: ClassInfo) -> list[FieldInfo]:
        return [f for f in self.index.all_fields(c).values() if f.bool_kwarg("compare", True)]

    def hashed_fields(self, c: ClassInfo) -> list[FieldInfo]:
        "fields a *generated* __hash__ would hash: hash=None follows compare"
        out = []
        for f in self.index.all_fields(c).values():
            h = f.kwarg("hash")
            if h is None or (isinstance(h, ast.Constant) and h.value is None):
                if f.bool_kwarg("compare", True):
                    out.append(f)
            elif f.bool_kwarg("hash", True):
                out.append(f)
        return out

    def serialized_fields(self, c: ClassInfo) -> list[FieldInfo]:
        return [f for f in self.index.all_fields(c).values() if f.bool_kwarg("serialize", True)]

    def post_init(self, c: ClassInfo) -> FuncInfo | None:
        return self.index.find_method(c, "__post_init__")
