"""E7 -- expression normalisers: affine normal form, relational normal form, slices, L1 terms

Slots are compared after *semantic* normalisation so that `2*i+2`, `(i+1)*2` and `i*2+2` are
the same slot value and `not a < b` is the same as `a >= b`.
"""

from __future__ import annotations

import ast
from fractions import Fraction
from typing import Any

from sa.index import dotted_of

Affine = dict  # {symbol(str) | 1: Fraction}


def sym(node: ast.AST) -> str:
    "canonical text of an opaque sub-expression"
    return ast.unparse(node)


def _clean(a: Affine) -> Affine:
    return {k: v for k, v in a.items() if v != 0}


def aff_add(a: Affine, b: Affine, sign: int = 1) -> Affine:
    out = dict(a)
    for k, v in b.items():
        out[k] = out.get(k, 0) + sign * v
    return _clean(out)


def aff_scale(a: Affine, c) -> Affine:
    return _clean({k: v * c for k, v in a.items()})


def aff_const(a: Affine):
    "the constant if `a` has no symbols, else None"
    if all(k == 1 for k in a):
        return a.get(1, Fraction(0))
    return None


def affine(node: ast.AST, env: dict[str, Affine] | None = None) -> Affine:
    """affine normal form  sum c_i * sym_i + c_0  of an integer/real expression

    sub-expressions that are not +,-,*,/const of affine terms become opaque symbols
    (their canonical `ast.unparse` text), so the function is total.
    `env` maps names to already-known affine values (substitution of local definitions).
    """
    env = env or {}
    if isinstance(node, ast.Constant) and isinstance(node.value, (int, float)) and not isinstance(node.value, bool):
        return _clean({1: Fraction(node.value).limit_denominator(10**6)})
    if isinstance(node, ast.Name) and node.id in env:
        return dict(env[node.id])
    if isinstance(node, ast.UnaryOp) and isinstance(node.op, ast.USub):
        return aff_scale(affine(node.operand, env), -1)
    if isinstance(node, ast.UnaryOp) and isinstance(node.op, ast.UAdd):
        return affine(node.operand, env)
    if isinstance(node, ast.BinOp):
        if isinstance(node.op, ast.Add):
            return aff_add(affine(node.left, env), affine(node.right, env))
        if isinstance(node.op, ast.Sub):
            return aff_add(affine(node.left, env), affine(node.right, env), -1)
        if isinstance(node.op, ast.Mult):
            l, r = affine(node.left, env), affine(node.right, env)
            cl, cr = aff_const(l), aff_const(r)
            if cl is not None:
                return aff_scale(r, cl)
            if cr is not None:
                return aff_scale(l, cr)
        if isinstance(node.op, ast.Pow):
            l, r = affine(node.left, env), affine(node.right, env)
            cl, cr = aff_const(l), aff_const(r)
            if cl is not None and cr is not None and cr.denominator == 1 and 0 <= cr <= 64:
                return _clean({1: cl ** int(cr)})
        if isinstance(node.op, ast.Div):
            l, r = affine(node.left, env), affine(node.right, env)
            cr = aff_const(r)
            if cr is not None and cr != 0:
                return aff_scale(l, Fraction(1) / cr)
    return {sym(node): Fraction(1)}


def aff_key(a: Affine) -> tuple:
    "hashable, order-independent key of an affine form"
    return tuple(sorted(((str(k), str(v)) for k, v in a.items())))


def aff_str(a: Affine) -> str:
    if not a:
        return "0"
    parts = []
    for k, v in sorted(a.items(), key=lambda kv: str(kv[0])):
        if k == 1:
            parts.append(str(v))
        elif v == 1:
            parts.append(str(k))
        else:
            parts.append(f"{v}*{k}")
    return " + ".join(parts)


def aff_eq(a: ast.AST | Affine, b: ast.AST | Affine, env=None) -> bool:
    a = affine(a, env) if isinstance(a, ast.AST) else a
    b = affine(b, env) if isinstance(b, ast.AST) else b
    return aff_key(a) == aff_key(b)


# ------------------------------------------------------------------ relations
_FLIP = {ast.Lt: ast.Gt, ast.Gt: ast.Lt, ast.LtE: ast.GtE, ast.GtE: ast.LtE, ast.Eq: ast.Eq, ast.NotEq: ast.NotEq}
_NEG = {ast.Lt: ast.GtE, ast.GtE: ast.Lt, ast.Gt: ast.LtE, ast.LtE: ast.Gt, ast.Eq: ast.NotEq, ast.NotEq: ast.Eq,
        ast.In: ast.NotIn, ast.NotIn: ast.In, ast.Is: ast.IsNot, ast.IsNot: ast.Is}


class Atom:
    """`diff OP 0` with OP in {<, <=, ==, !=}; or an opaque boolean term (op 'true'/'false')"""

    __slots__ = ("diff", "op", "text")

    def __init__(self, diff: Affine | None, op: str, text: str = "") -> None:
        self.diff, self.op, self.text = diff, op, text

    def key(self) -> tuple:
        return (aff_key(self.diff) if self.diff is not None else self.text, self.op)

    def __eq__(self, other) -> bool:
        return isinstance(other, Atom) and self.key() == other.key()

    def __hash__(self) -> int:
        return hash(self.key())

    def __repr__(self) -> str:
        if self.diff is None:
            return f"{'' if self.op == 'true' else 'not '}{self.text}"
        return f"{aff_str(self.diff)} {self.op} 0"

    def negated(self) -> "Atom":
        if self.diff is None:
            return Atom(None, "false" if self.op == "true" else "true", self.text)
        if self.op == "<":  # d < 0  ->  d >= 0  ->  -d <= 0
            return Atom(aff_scale(self.diff, -1), "<=")
        if self.op == "<=":
            return Atom(aff_scale(self.diff, -1), "<")
        return Atom(self.diff, "!=" if self.op == "==" else "==")


def _canon_sign(d: Affine) -> Affine:
    for k in sorted(d, key=str):
        if k != 1:
            return d if d[k] > 0 else aff_scale(d, -1)
    return d


def _len_arg(e: ast.AST):
    if isinstance(e, ast.Call) and isinstance(e.func, ast.Name) and e.func.id == "len" and len(e.args) == 1 and not e.keywords:
        return e.args[0]
    return None


def compare_atom(left: ast.AST, op: ast.cmpop, right: ast.AST, env=None) -> Atom:
    t = type(op)
    # emptiness tests are spelled in many ways: len(x) > 0, len(x) != 0, len(x) >= 1, 0 < len(x)  ==  `x` (non-empty);
    # len(x) == 0, len(x) < 1, len(x) <= 0  ==  `not x`
    for a, b, flip in ((left, right, False), (right, left, True)):
        x = _len_arg(a)
        if x is not None and isinstance(b, ast.Constant) and isinstance(b.value, int) and not isinstance(b.value, bool):
            tt = {ast.Lt: ast.Gt, ast.Gt: ast.Lt, ast.LtE: ast.GtE, ast.GtE: ast.LtE}.get(t, t) if flip else t
            k = b.value
            nonempty = (tt is ast.Gt and k == 0) or (tt is ast.NotEq and k == 0) or (tt is ast.GtE and k == 1)
            empty = (tt is ast.Eq and k == 0) or (tt is ast.Lt and k == 1) or (tt is ast.LtE and k == 0)
            if nonempty or empty:
                return Atom(None, "true" if nonempty else "false", sym(x))
    if t in (ast.Lt, ast.LtE, ast.Gt, ast.GtE, ast.Eq, ast.NotEq):
        d = aff_add(affine(left, env), affine(right, env), -1)  # left - right OP 0
        if t is ast.Gt:
            return Atom(aff_scale(d, -1), "<")
        if t is ast.GtE:
            return Atom(aff_scale(d, -1), "<=")
        if t is ast.Lt:
            return Atom(d, "<")
        if t is ast.LtE:
            return Atom(d, "<=")
        return Atom(_canon_sign(d), "==" if t is ast.Eq else "!=")
    txt = f"{sym(left)} {({ast.In: 'in', ast.NotIn: 'in', ast.Is: 'is', ast.IsNot: 'is'}[t])} {sym(right)}"
    return Atom(None, "true" if t in (ast.In, ast.Is) else "false", txt)


def boolean_nf(test: ast.AST, env=None, neg: bool = False) -> Any:
    """negation-normal form of a condition: ('and'|'or', [children]) | Atom

    chained comparisons become conjunctions; `not` is pushed to the atoms
    """
    if isinstance(test, ast.UnaryOp) and isinstance(test.op, ast.Not):
        return boolean_nf(test.operand, env, not neg)
    if isinstance(test, ast.BoolOp):
        kind = "and" if isinstance(test.op, ast.And) else "or"
        if neg:
            kind = "or" if kind == "and" else "and"
        kids = []
        for v in test.values:
            k = boolean_nf(v, env, neg)
            if isinstance(k, tuple) and k[0] == kind:
                kids.extend(k[1])
            else:
                kids.append(k)
        return (kind, kids)
    if isinstance(test, ast.Compare):
        atoms = []
        left = test.left
        for op, right in zip(test.ops, test.comparators):
            a = compare_atom(left, op, right, env)
            atoms.append(a.negated() if neg else a)
            left = right
        if len(atoms) == 1:
            return atoms[0]
        return ("or" if neg else "and", atoms)
    a = Atom(None, "true", sym(test))
    return a.negated() if neg else a


def nf_atoms(nf: Any) -> list[Atom]:
    if isinstance(nf, Atom):
        return [nf]
    out = []
    for k in nf[1]:
        out.extend(nf_atoms(k))
    return out


def nf_key(nf: Any) -> Any:
    if isinstance(nf, Atom):
        return nf.key()
    return (nf[0], tuple(sorted((nf_key(k) for k in nf[1]), key=repr)))


def nf_str(nf: Any) -> str:
    if isinstance(nf, Atom):
        return repr(nf)
    return "(" + f" {nf[0]} ".join(nf_str(k) for k in nf[1]) + ")"


# ------------------------------------------------------------------ slices / subscripts
def subscript_parts(node: ast.Subscript) -> list[ast.AST]:
    s = node.slice
    if isinstance(s, ast.Tuple):
        return list(s.elts)
    return [s]


def slice_form(s: ast.AST, env=None) -> Any:
    """normal form of one subscript element:
    ('idx', affine) for an index, ('slice', lo, hi, step) with affine/None parts, ('ellipsis',)"""
    if isinstance(s, ast.Slice):
        f = lambda x: None if x is None else aff_key(affine(x, env))  # noqa: E731
        lo = f(s.lower)
        if lo == aff_key({}):  # 0: == None
            lo = None
        st = f(s.step)
        if st == aff_key({1: Fraction(1)}):
            st = None
        return ("slice", lo, f(s.upper), st)
    if isinstance(s, ast.Constant) and s.value is Ellipsis:
        return ("ellipsis",)
    return ("idx", aff_key(affine(s, env)))


def const_int(node: ast.AST | None):
    if node is None:
        return None
    c = aff_const(affine(node))
    if c is not None and c.denominator == 1:
        return int(c)
    return None


# ------------------------------------------------------------------ misc helpers
def call_name(node: ast.AST) -> str | None:
    return dotted_of(node.func) if isinstance(node, ast.Call) else None


def kwarg(call: ast.Call, name: str) -> ast.expr | None:
    for kw in call.keywords:
        if kw.arg == name:
            return kw.value
    return None


def arg_or_kw(call: ast.Call, pos: int, name: str) -> ast.expr | None:
    if len(call.args) > pos and not any(isinstance(a, ast.Starred) for a in call.args[: pos + 1]):
        return call.args[pos]
    return kwarg(call, name)


def walk_no_nested_defs(node: ast.AST):
    "ast.walk that does not descend into nested function/class definitions (lambdas are descended)"
    stack = [node]
    first = True
    while stack:
        n = stack.pop()
        if not first and isinstance(n, (ast.FunctionDef, ast.AsyncFunctionDef, ast.ClassDef)):
            continue
        first = False
        yield n
        stack.extend(reversed(list(ast.iter_child_nodes(n))))


def names_in(node: ast.AST) -> set[str]:
    return {n.id for n in ast.walk(node) if isinstance(n, ast.Name)}


def is_l1_distance(node: ast.AST, a: str, b: str) -> bool:
    """does `node` compute the L1 distance between the 2-vectors named by texts `a` and `b`?
    recognised: abs(a[0]-b[0]) + abs(a[1]-b[1])  (abs / np.abs), np.linalg.norm(a - b, 1),
    np.abs(a - b).sum(), np.sum(np.abs(a - b))"""
    def is_abs(n):
        return isinstance(n, ast.Call) and dotted_of(n.func) in ("abs", "np.abs", "numpy.abs", "np.absolute") and len(n.args) == 1

    def diff_of(n, i=None):
        if not (isinstance(n, ast.BinOp) and isinstance(n.op, ast.Sub)):
            return False
        l, r = sym(n.left), sym(n.right)
        if i is None:
            return {l, r} == {a, b}
        return {l, r} == {f"{a}[{i}]", f"{b}[{i}]"}

    if isinstance(node, ast.BinOp) and isinstance(node.op, ast.Add):
        l, r = node.left, node.right
        if is_abs(l) and is_abs(r):
            return (diff_of(l.args[0], 0) and diff_of(r.args[0], 1)) or (diff_of(l.args[0], 1) and diff_of(r.args[0], 0))
        return False
    if isinstance(node, ast.Call):
        d = dotted_of(node.func)
        if d in ("np.linalg.norm", "numpy.linalg.norm"):
            o = arg_or_kw(node, 1, "ord")
            return len(node.args) >= 1 and diff_of(node.args[0]) and const_int(o) == 1
        if isinstance(node.func, ast.Attribute) and node.func.attr == "sum" and not node.args:
            return is_abs(node.func.value) and diff_of(node.func.value.args[0])
        if d in ("np.sum", "numpy.sum", "sum") and len(node.args) == 1:
            return is_abs(node.args[0]) and diff_of(node.args[0].args[0])
    return False
