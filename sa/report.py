"""obligations, verdict aggregation, evidence and violation files"""

from __future__ import annotations

import ast
import hashlib
import json
import os
import re
import time
from dataclasses import dataclass, field
from typing import Any, Callable

from sa.index import AnalysisError, SourceIndex

HOLDS = "HOLDS"
VIOLATION = "VIOLATION"
ERROR = "ANALYSIS-ERROR"

VERIF_DIR = os.path.dirname(os.path.dirname(os.path.abspath(__file__)))


def jsonable(x: Any) -> Any:
    if isinstance(x, ast.AST):
        return ast.unparse(x)
    if isinstance(x, dict):
        return {str(k): jsonable(v) for k, v in x.items()}
    if isinstance(x, (list, tuple)):
        return [jsonable(v) for v in x]
    if isinstance(x, (set, frozenset)):
        return sorted((jsonable(v) for v in x), key=lambda v: json.dumps(v, sort_keys=True))
    if isinstance(x, (str, int, float, bool)) or x is None:
        return x
    return repr(x)


@dataclass
class Obligation:
    rule: str
    file: str
    construct: str  # dotted qualname (never a line number: findings are keyed by construct)
    line: int  # for humans only
    slot: Any  # JSON-able extracted value
    expected: str  # the accepted set, in words
    verdict: str
    why: str = ""

    def signature(self) -> str:
        "stable key of a finding: rule + construct + normalised slot"
        raw = json.dumps([self.rule, self.construct, jsonable(self.slot)], sort_keys=True)
        return hashlib.sha256(raw.encode()).hexdigest()[:16]

    def to_json(self) -> dict:
        return {
            "rule": self.rule,
            "file": self.file,
            "construct": self.construct,
            "line": self.line,
            "slot": jsonable(self.slot),
            "expected": self.expected,
            "verdict": self.verdict,
            "why": self.why,
        }


@dataclass
class Rule:
    id: str  # e.g. "C11.K2"
    run: Callable[["Ctx"], None]
    floor: int  # instances confirmed by hand on the pinned tree; fewer => ANALYSIS-ERROR
    doc: str = ""
    tier: str = "quick"


class Ctx:
    "what a rule sees: the index, dependency facts, and a sink for obligations"

    def __init__(self, index: SourceIndex, tier: str, deps: Any = None) -> None:
        self.index = index
        self.tier = tier
        self.deps = deps
        self.obligations: list[Obligation] = []
        self.current_rule: str = "?"
        self.notes: list[str] = []
        self.stats: dict[str, int] = {}
        self.covers: list[dict] = []

    def cover(self, constructs: list[str], by: str, supersedes: list[str], bound: str, whole_rules: list[str] | None = None) -> None:
        """declare that the behaviour of `constructs` was decided HOLDS by rule `by` (bounded abstract evaluation over `bound`): verdicts of the
        structural rules in `supersedes` on those constructs that are ANALYSIS-ERROR - the form of the code is not one the structural rule knows -
        are then recorded as HOLDS 'decided semantically' (a VIOLATION, i.e. a located slot with a rejected value, is never superseded: the defect may lie
        beyond the bound or outside what abstract values model, e.g. integer width) (structure first, semantics as the fallback for unrecognised forms).  Only called
        when `by` found no deviation and left nothing undecided"""
        # whole_rules: structural rules *all* of whose anchors are among `constructs` - their floor / extractor errors (reported at the rule
        # itself, not at a construct) are superseded as well
        self.covers.append({"constructs": set(constructs) | set(whole_rules or []), "by": by, "supersedes": set(supersedes), "bound": bound})

    def apply_covers(self) -> int:
        n = 0
        for ob in self.obligations:
            if ob.verdict != ERROR:
                continue   # only *unrecognised* forms are handed to the semantic rule; a located slot judged VIOLATION stands
            for c in self.covers:
                if ob.rule in c["supersedes"] and ob.construct in c["constructs"]:
                    ob.slot = {"structural_verdict": ob.verdict, "structural_slot": jsonable(ob.slot), "decided_by": c["by"], "bound": c["bound"]}
                    ob.why = ("the structural rule does not recognise this form of the code; the behaviour of the construct was decided by bounded "
                              "abstract evaluation instead (" + c["by"] + ")")
                    ob.verdict = HOLDS
                    n += 1
                    break
        if n:
            self.notes.append(f"{n} structural verdict(s) on unrecognised forms superseded by a semantic rule that holds on its whole bound")
        return n

    def _where(self, where: Any) -> tuple[str, str, int]:
        "(file, construct, line) of a FuncInfo/ClassInfo/(file, construct, line) tuple"
        if isinstance(where, tuple):
            return where
        return (where.relpath, where.qualname, getattr(where.node, "lineno", 0))

    def add(self, where: Any, verdict: str, slot: Any, expected: str, why: str = "",
            node: ast.AST | None = None, rule: str | None = None) -> Obligation:
        file, construct, line = self._where(where)
        if node is not None and hasattr(node, "lineno"):
            line = node.lineno
        ob = Obligation(rule or self.current_rule, file, construct, line, slot, expected, verdict, why)
        self.obligations.append(ob)
        return ob

    def judge(self, where: Any, ok: bool | None, slot: Any, expected: str, why: str = "",
              node: ast.AST | None = None, rule: str | None = None) -> Obligation:
        "ok=True holds, ok=False violation, ok=None unknown shape"
        v = HOLDS if ok is True else VIOLATION if ok is False else ERROR
        return self.add(where, v, slot, expected, why, node, rule)

    def holds(self, where: Any, slot: Any, expected: str, why: str = "", node=None, rule=None):
        return self.add(where, HOLDS, slot, expected, why, node, rule)

    def violation(self, where: Any, slot: Any, expected: str, why: str = "", node=None, rule=None):
        return self.add(where, VIOLATION, slot, expected, why, node, rule)

    def unknown(self, where: Any, slot: Any, expected: str, why: str = "", node=None, rule=None):
        return self.add(where, ERROR, slot, expected, why, node, rule)

    def note(self, text: str) -> None:
        self.notes.append(text)

    def stat(self, key: str, n: int = 1) -> None:
        self.stats[key] = self.stats.get(key, 0) + n


# ---------------------------------------------------------------------- known findings
def load_known_findings() -> list[dict]:
    p = os.path.join(VERIF_DIR, "known_findings.json")
    if not os.path.exists(p):
        return []
    with open(p) as f:
        return json.load(f).get("findings", [])


def match_known(ob: Obligation, known: list[dict]) -> dict | None:
    """a violation is a *known finding* only if an entry with status 'known' names the same
    rule and construct and (if given) the same slot signature; 'fixed' entries suppress nothing"""
    for k in known:
        if k.get("status") != "known":
            continue
        if k.get("rule") != ob.rule or k.get("construct") != ob.construct:
            continue
        sig = k.get("slot_signature")
        if sig is not None and sig != ob.signature():
            continue
        return k
    return None


# ---------------------------------------------------------------------- running
def run_rules(prop: str, rules: list[Rule], ctx: Ctx) -> dict[str, dict]:
    per_rule: dict[str, dict] = {}
    for r in rules:
        if r.tier == "thorough" and ctx.tier != "thorough":
            continue
        ctx.current_rule = r.id
        before = len(ctx.obligations)
        t0 = time.time()
        try:
            r.run(ctx)
        except AnalysisError as e:
            ctx.add(("-", r.id, 0), ERROR, str(e), "analysable construct", "extractor gave up")
        except RecursionError as e:  # pragma: no cover
            ctx.add(("-", r.id, 0), ERROR, "recursion", "analysable construct", repr(e))
        except Exception as e:  # a bug in the checker is never a violation
            import traceback

            ctx.add(("-", r.id, 0), ERROR, f"{type(e).__name__}: {e}",
                    "checker runs to completion", traceback.format_exc()[-1500:])
        n = len(ctx.obligations) - before
        if n < r.floor:
            ctx.add(("-", r.id, 0), ERROR, {"instances": n, "floor": r.floor},
                    f"at least {r.floor} instances of this rule (confirmed by hand on the pinned tree)",
                    "rule matched fewer constructs than its floor: it would pass vacuously")
        per_rule[r.id] = {"instances": n, "floor": r.floor, "wall_s": round(time.time() - t0, 4),
                          "doc": r.doc}
    return per_rule


def _safe(s: str) -> str:
    return re.sub(r"[^A-Za-z0-9_.-]+", "_", s)[:120]


def finish(prop: str, ctx: Ctx, per_rule: dict, tier: str, seed: int, t_start: float,
           explanation: str, assumptions: list[str], trusted_base: list[str],
           evidence_dir: str | None = None, repo_root: str = "/repo", extra: dict | None = None) -> int:
    evidence_dir = evidence_dir or os.path.join(VERIF_DIR, "evidence")
    os.makedirs(os.path.join(evidence_dir, "violations"), exist_ok=True)
    known = load_known_findings()
    ctx.apply_covers()
    viols, errs, known_hits = [], [], []
    for ob in ctx.obligations:
        if ob.verdict == VIOLATION:
            k = match_known(ob, known)
            (known_hits if k else viols).append((ob, k))
        elif ob.verdict == ERROR:
            errs.append(ob)
    lines: list[str] = []
    for ob, k in known_hits:
        lines.append(f"KNOWN-FINDING: property={prop} rule={ob.rule} at {ob.file}:{ob.construct} {k.get('what', '')}")
    for ob, _ in viols:
        path = os.path.join(evidence_dir, "violations",
                            f"{prop}-{_safe(ob.rule)}-{_safe(ob.construct)}-{ob.signature()}.json")
        with open(path, "w") as f:
            json.dump({"property": prop, "repo_root": repo_root, **ob.to_json(),
                       "slot_signature": ob.signature()}, f, indent=1)
        lines.append(f"VIOLATION property={prop} replay={path}")
        lines.append(f"  rule={ob.rule} at {ob.file}:{ob.line} {ob.construct}: found {json.dumps(jsonable(ob.slot))[:400]}; expected {ob.expected}. {ob.why}")
    for ob in errs:
        lines.append(f"ANALYSIS-ERROR property={prop} rule={ob.rule} at {ob.file}:{ob.construct} {json.dumps(jsonable(ob.slot))[:300]} -- {ob.why[:300]}")

    holds = [o for o in ctx.obligations if o.verdict == HOLDS]
    distinct = {(o.rule, o.construct, json.dumps(jsonable(o.slot), sort_keys=True))
                for o in ctx.obligations if jsonable(o.slot) not in (None, "", [], {})}
    # samples: at most 3 per rule, violations first
    samples, per = [], {}
    for o in sorted(ctx.obligations, key=lambda o: (o.verdict == HOLDS, o.rule)):
        if per.get(o.rule, 0) < 3:
            per[o.rule] = per.get(o.rule, 0) + 1
            samples.append(o.to_json())
    digests = {p: ctx.index.digests[p] for p in sorted(ctx.index.consulted) if p in ctx.index.digests}
    evidence = {
        "property_id": prop,
        "tier": tier,
        "seed": seed,
        "level": "other",
        "coverage": {
            "explanation": explanation,
            "evaluations": len(ctx.obligations),
            "distinct_nontrivial": len(distinct),
            "rule": ("one evaluation = one clause instance (rule x construct) whose slot was extracted from "
                     "the current source and judged; distinct_nontrivial counts distinct (rule, construct, slot) "
                     "triples with a non-empty slot"),
            "obligations": len(ctx.obligations),
            "discharged": len(holds),
            "samples": samples[:60],
            "rules": per_rule,
            "stats": ctx.stats,
            "notes": ctx.notes,
            "modules_parsed": len(ctx.index.modules),
            "functions_indexed": len(ctx.index.functions),
            "classes_indexed": len(ctx.index.classes),
            "source_digests": digests,
            "trusted_base": trusted_base,
            "known_findings_reported": len(known_hits),
            "analysis_errors": len(errs),
            **(extra or {}),
        },
        "assumptions": assumptions,
        "wall_s": round(time.time() - t_start, 3),
        "violations": len(viols),
    }
    with open(os.path.join(evidence_dir, f"{prop}.json"), "w") as f:
        json.dump(evidence, f, indent=1)
    for ln in lines:
        print(ln)
    n_rules = len(per_rule)
    print(f"{prop}: {len(ctx.obligations)} obligations over {n_rules} rules; "
          f"{len(holds)} hold, {len(viols)} violations, {len(known_hits)} known findings, "
          f"{len(errs)} analysis errors; {evidence['wall_s']}s")
    if viols:
        return 1
    if errs:
        return 2
    return 0
