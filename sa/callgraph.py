"""E3 -- call graph over the package, with explicit registries for indirect calls

Resolution: names through scopes and import tables; `self.m`/`cls.m`/`super().m` through the MRO
plus overriding subclasses (CHA); `x.m` through parameter / variable annotations; class-qualified
calls; function-valued arguments (map/imap/initializer=) count as calls; property reads are call
edges.  Unresolved receivers fall back to *every* package method of that name (sound
over-approximation for reachability / effect rules) and are counted.  Indirect calls go through
registry tables extracted from the source, each with a one-line reason (see `REGISTRIES`).
External callees keep a dotted name (`numpy.random.randint`, `random.choice`).
"""

from __future__ import annotations

import ast
from dataclasses import dataclass, field

from sa import normal as N
from sa.index import AnalysisError, ClassInfo, FuncInfo, SourceIndex, dotted_of

GEN = "maze_dataset.generation.generators"
MD = "maze_dataset.dataset.maze_dataset"

REGISTRIES = {
    "maze_ctor": "`cfg.maze_ctor(...)` -> values of the dict literal GENERATORS_MAP, because _load_maze_ctor only returns GENERATORS_MAP[...] and the field default is GENERATORS_MAP['gen_dfs']",
    "filter_by": "`x.filter_by.NAME(...)` / `getattr(x.filter_by, name)(...)` -> functions of the class decorated with register_filter_namespace_for_dataset (FilterBy.__getattr__ reads dataset._FILTER_NAMESPACE)",
    "__wrapped__": "`F.__wrapped__(...)` -> the undecorated function only (functools.wraps stores it there)",
}

# container / builtin method names that are never package methods' business
_BUILTIN_METHODS = {
    "append", "extend", "insert", "pop", "remove", "clear", "update", "get", "items", "keys", "values", "copy",
    "add", "discard", "join", "split", "strip", "format", "startswith", "endswith", "index", "count", "sort",
    "reverse", "astype", "sum", "all", "any", "ravel", "reshape", "tobytes", "max", "min", "argmax", "tolist",
    "setdefault", "replace", "upper", "lower", "encode", "decode", "lstrip", "rstrip", "isdigit", "exists",
    "as_posix", "absolute", "is_dir", "is_file", "removeprefix", "issubset", "intersection", "difference", "pop",
    "to_bytes", "from_bytes", "digest", "most_common", "warn", "process", "combine", "imap", "map", "close",
    "ravel", "T", "flatten", "item", "cpu", "numpy", "rstrip",
}


@dataclass
class CallSite:
    caller: str
    node: ast.Call | ast.Attribute
    targets: list[str]  # package qualnames
    external: str | None = None  # dotted name of an external callee
    how: str = ""


class CallGraph:
    def __init__(self, index: SourceIndex) -> None:
        self.ix = index
        self._sites: dict[str, list[CallSite]] = {}
        self.fallbacks = 0
        self.unresolved = 0
        self._methods_by_name: dict[str, list[FuncInfo]] = {}
        for f in index.functions.values():
            if f.cls is not None and f.parent is None:
                self._methods_by_name.setdefault(f.name, []).append(f)
        self._properties: dict[str, list[FuncInfo]] = {}
        for f in index.functions.values():
            if f.cls is not None and f.is_property:
                self._properties.setdefault(f.name, []).append(f)
        self._generators = self._generator_registry()
        self._filters = self._filter_registry()

    # ------------------------------------------------------------ registries (read from source)
    def _generator_registry(self) -> list[str]:
        m = self.ix.modules.get(GEN)
        if m is None or "GENERATORS_MAP" not in m.assigns:
            return []
        v = m.assigns["GENERATORS_MAP"]
        out = []
        if isinstance(v, ast.Dict):
            for val in v.values:
                d = dotted_of(val)
                if d:
                    q = self.ix.resolve(m, d)
                    if q in self.ix.functions:
                        out.append(q)
        return out

    def _filter_registry(self) -> dict[str, FuncInfo]:
        out = {}
        for c in self.ix.classes.values():
            if c.decorator("register_filter_namespace_for_dataset"):
                out.update(c.methods)
        return out

    # ------------------------------------------------------------ helpers
    def _decorator_wrappers(self, f: FuncInfo) -> list[str]:
        "nested functions of package decorators applied to f (calling f runs them)"
        out = []
        for d in f.decorators:
            df = self.ix.functions.get(d.name)
            if df is not None:
                out.extend(n.qualname for n in df.nested.values())
        return out

    def _call_function(self, f: FuncInfo) -> list[str]:
        return [f.qualname, *self._decorator_wrappers(f)]

    def _construct(self, c: ClassInfo) -> list[str]:
        "calling a class: explicit __init__ via MRO, and __post_init__ (run by a generated __init__)"
        out = []
        for name in ("__init__", "__post_init__", "__new__"):
            m = self.ix.find_method(c, name)
            if m is not None:
                out.append(m.qualname)
        return out

    def _method_targets(self, c: ClassInfo, name: str, include_subclasses: bool = True) -> list[str]:
        out = []
        m = self.ix.find_method(c, name)
        if m is not None:
            out.extend(self._call_function(m))
        if include_subclasses:
            for sc in self.ix.subclasses(c.qualname):
                if name in sc.methods:
                    out.extend(self._call_function(sc.methods[name]))
        return list(dict.fromkeys(out))

    def _annotation_class(self, f: FuncInfo, ann: ast.AST | None) -> ClassInfo | None:
        if ann is None:
            return None
        if isinstance(ann, ast.Constant) and isinstance(ann.value, str):
            try:
                ann = ast.parse(ann.value, mode="eval").body
            except SyntaxError:
                return None
        if isinstance(ann, ast.BinOp):  # X | None
            return self._annotation_class(f, ann.left) or self._annotation_class(f, ann.right)
        d = dotted_of(ann)
        if d is None:
            return None
        q = self.ix.resolve(f.module, d, f.cls)
        return self.ix.classes.get(q)

    def _var_class(self, f: FuncInfo, name: str) -> ClassInfo | None:
        fn = f.node
        a = fn.args
        for p in [*a.posonlyargs, *a.args, *a.kwonlyargs]:
            if p.arg == name:
                return self._annotation_class(f, p.annotation)
        for n in N.walk_no_nested_defs(fn):
            ann = n.annotation if isinstance(n, ast.AnnAssign) else getattr(n, "_ann", None)
            tgt = n.target if isinstance(n, ast.AnnAssign) else (n.targets[0] if isinstance(n, ast.Assign) and len(n.targets) == 1 else None)
            if ann is not None and isinstance(tgt, ast.Name) and tgt.id == name:
                c = self._annotation_class(f, ann)
                if c is not None:
                    return c
        return None

    # ------------------------------------------------------------ per-function call sites
    def sites(self, qualname: str) -> list[CallSite]:
        if qualname in self._sites:
            return self._sites[qualname]
        f = self.ix.functions.get(qualname)
        if f is None:
            raise AnalysisError(f"call graph: unknown function {qualname}")
        self.ix.consulted.add(f.relpath)
        out: list[CallSite] = []
        params = f.params()
        me = params[0] if (f.cls is not None and params and not f.is_static and f.parent is None) else None
        enclosing_params = set()
        p = f.parent
        while p is not None:
            enclosing_params |= set(p.params())
            p = p.parent
        for n in N.walk_no_nested_defs(f.node):
            if isinstance(n, ast.Call):
                out.append(self._resolve_call(f, n, me, enclosing_params))
                # function-valued arguments count as calls (map/imap/initializer=...)
                for a in [*n.args, *[k.value for k in n.keywords]]:
                    d = dotted_of(a)
                    if d and not isinstance(a, ast.Call):
                        q = self.ix.resolve(f.module, d, f.cls)
                        if q in self.ix.functions and q != qualname:
                            out.append(CallSite(qualname, n, self._call_function(self.ix.functions[q]), how="function-valued argument"))
            elif isinstance(n, ast.Attribute) and isinstance(n.ctx, ast.Load) and n.attr in self._properties:
                tg = []
                if isinstance(n.value, ast.Name) and n.value.id == me and f.cls is not None:
                    tg = self._method_targets(f.cls, n.attr)
                else:
                    c = self._var_class(f, n.value.id) if isinstance(n.value, ast.Name) else None
                    if c is not None:
                        tg = self._method_targets(c, n.attr)
                    else:
                        tg = [p.qualname for p in self._properties[n.attr]]
                if tg:
                    out.append(CallSite(qualname, n, tg, how="property read"))
        self._sites[qualname] = out
        return out

    def _resolve_call(self, f: FuncInfo, n: ast.Call, me: str | None, enclosing_params: set[str]) -> CallSite:
        q = f.qualname
        fn = n.func
        # getattr(x.filter_by, name)(...)
        if isinstance(fn, ast.Call) and dotted_of(fn.func) == "getattr" and fn.args and isinstance(fn.args[0], ast.Attribute) \
                and fn.args[0].attr == "filter_by":
            tg = []
            for flt in self._filters.values():
                tg.extend(self._call_function(flt))
            return CallSite(q, n, list(dict.fromkeys(tg)), how="registry filter_by (all filters)")
        if isinstance(fn, ast.Name):
            name = fn.id
            if name in f.nested:
                return CallSite(q, n, [f.nested[name].qualname], how="nested def")
            p = f.parent
            while p is not None:
                if name in p.nested:
                    return CallSite(q, n, [p.nested[name].qualname], how="sibling nested def")
                p = p.parent
            if name == "cls" and f.is_classmethod and f.cls is not None and f.parent is None:
                tg = self._construct(f.cls)
                for sc in self.ix.subclasses(f.cls.qualname):
                    tg.extend(self._construct(sc))
                return CallSite(q, n, list(dict.fromkeys(tg)), how="cls(...) in classmethod: class and subclasses")
            if name in enclosing_params or name in f.params():
                # calling a parameter: decorator callbacks -> every function decorated by the enclosing decorator
                root = f
                while root.parent is not None:
                    root = root.parent
                tg = [g.qualname for g in self.ix.functions.values() if any(d.name == root.qualname for d in g.decorators)]
                if tg:
                    return CallSite(q, n, tg, how="callback parameter of a decorator: all decorated functions")
                self.unresolved += 1
                return CallSite(q, n, [], external=f"<param {name}>", how="parameter call")
            if me is not None and name == "cls":
                pass
            r = self.ix.resolve(f.module, name, f.cls)
            if name == "cls" and f.is_classmethod and f.cls is not None:
                tg = self._construct(f.cls)
                for sc in self.ix.subclasses(f.cls.qualname):
                    tg.extend(self._construct(sc))
                return CallSite(q, n, list(dict.fromkeys(tg)), how="cls(...) in classmethod: class and subclasses")
            if r in self.ix.functions:
                return CallSite(q, n, self._call_function(self.ix.functions[r]), how="name")
            if r in self.ix.classes:
                return CallSite(q, n, self._construct(self.ix.classes[r]), how="constructor")
            return CallSite(q, n, [], external=r, how="external name")
        if isinstance(fn, ast.Attribute):
            attr = fn.attr
            recv = fn.value
            # F.__wrapped__(...)
            if attr == "__wrapped__":
                d = dotted_of(recv)
                r = self.ix.resolve(f.module, d, f.cls) if d else None
                if r in self.ix.functions:
                    return CallSite(q, n, [r], how="registry __wrapped__ (undecorated function only)")
                self.unresolved += 1
                return CallSite(q, n, [], external="<__wrapped__ of unknown>", how="unresolved")
            # x.filter_by.NAME(...)
            if isinstance(recv, ast.Attribute) and recv.attr == "filter_by":
                flt = self._filters.get(attr)
                if flt is not None:
                    return CallSite(q, n, self._call_function(flt), how="registry filter_by")
                return CallSite(q, n, [], external=f"<unknown filter {attr}>", how="unresolved filter")
            # cfg.maze_ctor(...)
            if attr == "maze_ctor":
                return CallSite(q, n, list(self._generators), how="registry maze_ctor (GENERATORS_MAP values)")
            # super().m(...)
            if isinstance(recv, ast.Call) and dotted_of(recv.func) == "super" and f.cls is not None:
                mro = self.ix.mro(f.cls)
                for cq in mro[1:]:
                    ci = self.ix.classes.get(cq)
                    if ci is not None and attr in ci.methods:
                        return CallSite(q, n, self._call_function(ci.methods[attr]), how="super()")
                    if ci is not None and attr == "__init__":
                        continue
                # generated __init__ of the next dataclass -> __post_init__
                if attr == "__init__":
                    pi = None
                    for cq in mro[1:]:
                        ci = self.ix.classes.get(cq)
                        if ci is not None and "__post_init__" in ci.methods:
                            pi = ci.methods["__post_init__"]
                            break
                    return CallSite(q, n, [pi.qualname] if pi else [], external=None if pi else "<generated __init__>", how="super().__init__ (generated) -> __post_init__")
                return CallSite(q, n, [], external=f"<super().{attr}>", how="external super")
            # self.m / cls.m
            if isinstance(recv, ast.Name) and recv.id == me and f.cls is not None:
                tg = self._method_targets(f.cls, attr)
                if tg:
                    return CallSite(q, n, tg, how="self/cls method via MRO + overriding subclasses")
                # self.Nested(...): constructing a class nested in (a base of) the receiver's class
                for cq in self.ix.mro(f.cls):
                    ci = self.ix.classes.get(cq)
                    if ci is not None and attr in ci.nested:
                        return CallSite(q, n, self._construct(ci.nested[attr]), how="constructor of a nested class via self")
            d = dotted_of(fn)
            if d is not None:
                r = self.ix.resolve(f.module, d, f.cls)
                if r in self.ix.functions:
                    return CallSite(q, n, self._call_function(self.ix.functions[r]), how="qualified name")
                if r in self.ix.classes:
                    return CallSite(q, n, self._construct(self.ix.classes[r]), how="constructor")
                head = d.split(".")[0]
                # receiver typed by annotation
                if isinstance(recv, ast.Name):
                    c = self._var_class(f, recv.id)
                    if c is not None:
                        tg = self._method_targets(c, attr)
                        if tg:
                            return CallSite(q, n, tg, how="annotated receiver")
                if head in f.module.imports and not r.startswith(self.ix.package + "."):
                    return CallSite(q, n, [], external=r, how="external dotted")
                rc = self.ix.resolve(f.module, dotted_of(recv) or "?", f.cls) if dotted_of(recv) else None
                if rc in self.ix.classes:
                    tg = self._method_targets(self.ix.classes[rc], attr, include_subclasses=False)
                    if tg:
                        return CallSite(q, n, tg, how="class-qualified method")
            # fallback: every package method of that name
            cands = self._methods_by_name.get(attr, [])
            if cands and attr not in _BUILTIN_METHODS:
                self.fallbacks += 1
                tg = []
                for c in cands:
                    tg.extend(self._call_function(c))
                return CallSite(q, n, list(dict.fromkeys(tg)), how="name fallback: every package method of that name")
            ext = d or f"<expr>.{attr}"
            if d is not None:
                ext = self.ix.resolve(f.module, d, f.cls)
            return CallSite(q, n, [], external=ext, how="external/builtin method")
        self.unresolved += 1
        return CallSite(q, n, [], external="<dynamic>", how="unresolved callee expression")

    # ------------------------------------------------------------ closure
    def closure(self, entries: list[str], stop: set[str] | None = None) -> dict[str, list[str]]:
        "reachable functions with one call path from an entry to each (for diagnosable reports)"
        paths: dict[str, list[str]] = {}
        work = []
        for e in entries:
            if e not in self.ix.functions:
                raise AnalysisError(f"call graph entry {e} not found")
            paths[e] = [e]
            work.append(e)
        stop = stop or set()
        while work:
            cur = work.pop(0)
            if cur in stop:
                continue
            for s in self.sites(cur):
                for t in s.targets:
                    if t not in paths and t in self.ix.functions:
                        paths[t] = paths[cur] + [t]
                        work.append(t)
        return paths

    def external_calls(self, funcs) -> list[CallSite]:
        out = []
        for q in funcs:
            for s in self.sites(q):
                if s.external is not None and isinstance(s.node, ast.Call):
                    out.append(s)
        return out
