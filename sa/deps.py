"""E2 -- facts about the first-party dependencies (muutils, zanj), *read* from their installed source

The properties depend on a few behaviours of `muutils` / `zanj`.  Instead of assuming them, the
checker parses the installed sources (never imports them) and extracts each fact; if the
dependency changes (e.g. muutils stops forwarding `eq=`), the verdict changes with it.
The CPython `dataclasses` rules are a fixed table (see `DATACLASS_HASH_ACTION`).
"""

from __future__ import annotations

import ast
import glob
import hashlib
import os

from sa.index import AnalysisError, dotted_of


def _purelib() -> str:
    cands = sorted(glob.glob("/venv/lib/python3*/site-packages"))
    for c in cands:
        if os.path.isdir(os.path.join(c, "muutils")):
            return c
    raise AnalysisError("cannot find the repository environment's site-packages with muutils")


# CPython dataclasses._hash_action, keyed (unsafe_hash, eq, frozen, has_explicit_hash):
#   "add" = generate __hash__ from fields, "none" = set __hash__ = None, "" = leave alone, "raise"
DATACLASS_HASH_ACTION = {
    (False, False, False, False): "", (False, False, False, True): "",
    (False, False, True, False): "", (False, False, True, True): "",
    (False, True, False, False): "none", (False, True, False, True): "",
    (False, True, True, False): "add", (False, True, True, True): "",
    (True, False, False, False): "add", (True, False, False, True): "raise",
    (True, False, True, False): "add", (True, False, True, True): "raise",
    (True, True, False, False): "add", (True, True, False, True): "raise",
    (True, True, True, False): "add", (True, True, True, True): "raise",
}


class DependencyFacts:
    def __init__(self) -> None:
        self.root = _purelib()
        self._cache: dict[str, ast.Module] = {}
        self.digests: dict[str, str] = {}
        self.facts: dict[str, object] = {}

    def tree(self, rel: str) -> ast.Module:
        if rel not in self._cache:
            p = os.path.join(self.root, rel)
            if not os.path.exists(p):
                raise AnalysisError(f"dependency source {rel} not found under {self.root}")
            raw = open(p, "rb").read()
            self.digests[rel] = hashlib.sha256(raw).hexdigest()
            self._cache[rel] = ast.parse(raw.decode("utf-8"))
        return self._cache[rel]

    def _func(self, rel: str, name: str, within: str | None = None) -> ast.FunctionDef:
        t: ast.AST = self.tree(rel)
        if within is not None:
            t = self._func(rel, within)
        for n in ast.walk(t):
            if isinstance(n, ast.FunctionDef) and n.name == name and n is not t:
                return n
        raise AnalysisError(f"{rel}: function {name} not found")

    # -- muutils.json_serialize.serializable_dataclass ------------------------------------
    def sdc_param_default(self, name: str) -> object:
        "default of a keyword of `serializable_dataclass` (e.g. eq -> True)"
        f = self._func("muutils/json_serialize/serializable_dataclass.py", "serializable_dataclass")
        for p, d in zip(f.args.kwonlyargs, f.args.kw_defaults):
            if p.arg == name:
                if isinstance(d, ast.Constant):
                    return d.value
                raise AnalysisError(f"serializable_dataclass({name}=...) default is not a literal")
        raise AnalysisError(f"serializable_dataclass has no keyword `{name}`")

    def sdc_forwards(self, name: str) -> bool:
        "does `serializable_dataclass` forward keyword `name` to `dataclasses.dataclass`?"
        f = self._func("muutils/json_serialize/serializable_dataclass.py", "serializable_dataclass")
        for n in ast.walk(f):
            if isinstance(n, ast.Call) and dotted_of(n.func) == "dataclasses.dataclass":
                for kw in n.keywords:
                    if kw.arg == name and isinstance(kw.value, ast.Name) and kw.value.id == name:
                        return True
                    if kw.arg is None and isinstance(kw.value, ast.Name) and kw.value.id == "kwargs":
                        # **kwargs: forwarded when not a named parameter of serializable_dataclass
                        named = {p.arg for p in f.args.kwonlyargs}
                        if name not in named:
                            return True
                return False
        raise AnalysisError("serializable_dataclass does not call dataclasses.dataclass any more")

    def sdc_load_constructs_with_cls(self) -> bool:
        "generated `load` ends in `cls(**ctor_kwargs)` (so `__init__`/`__post_init__` run on load)"
        f = self._func("muutils/json_serialize/serializable_dataclass.py", "load", within="serializable_dataclass")
        for n in ast.walk(f):
            if isinstance(n, ast.Call) and isinstance(n.func, ast.Name) and n.func.id == "cls":
                if any(kw.arg is None for kw in n.keywords):
                    return True
        return False

    def sdc_load_field_order(self) -> list[str]:
        "which loader attribute wins in generated `load`: order of the if/elif chain"
        f = self._func("muutils/json_serialize/serializable_dataclass.py", "load", within="serializable_dataclass")
        order: list[str] = []
        for n in ast.walk(f):
            if isinstance(n, ast.If) and isinstance(n.test, ast.Attribute) and dotted_of(n.test) in (
                "field.deserialize_fn", "field.loading_fn"):
                order.append(n.test.attr)
        return order

    def sdc_loading_fn_gets_whole_data(self) -> bool:
        "`loading_fn(data)` receives the whole mapping, `deserialize_fn(value)` only the field value"
        f = self._func("muutils/json_serialize/serializable_dataclass.py", "load", within="serializable_dataclass")
        got = {}
        for n in ast.walk(f):
            if isinstance(n, ast.Call) and dotted_of(n.func) in ("field.loading_fn", "field.deserialize_fn"):
                if len(n.args) == 1 and isinstance(n.args[0], ast.Name):
                    got[n.func.attr] = n.args[0].id
        return got.get("loading_fn") == "data" and got.get("deserialize_fn") == "value"

    def sdc_diff_skips_noncompared(self) -> bool:
        "`SerializableDataclass.diff` skips exactly the fields with `compare=False`"
        f = self._func("muutils/json_serialize/serializable_dataclass.py", "diff")
        for n in ast.walk(f):
            if isinstance(n, ast.If) and isinstance(n.test, ast.UnaryOp) and isinstance(n.test.op, ast.Not):
                if dotted_of(n.test.operand) == "field.compare" and any(isinstance(s, ast.Continue) for s in n.body):
                    return True
        return False

    def sdc_serialize_skips_nonserialized(self) -> bool:
        f = self._func("muutils/json_serialize/serializable_dataclass.py", "serialize", within="serializable_dataclass")
        for n in ast.walk(f):
            if isinstance(n, ast.If) and dotted_of(n.test) == "field.serialize":
                return True
        return False

    def sdc_base_eq_is_dc_eq(self) -> bool:
        t = self.tree("muutils/json_serialize/serializable_dataclass.py")
        for n in ast.walk(t):
            if isinstance(n, ast.ClassDef) and n.name == "SerializableDataclass":
                for s in n.body:
                    if isinstance(s, ast.FunctionDef) and s.name == "__eq__":
                        return any(isinstance(c, ast.Call) and dotted_of(c.func) == "dc_eq" for c in ast.walk(s))
        raise AnalysisError("SerializableDataclass.__eq__ not found")

    def array_safe_eq_is_total(self) -> bool:
        """muutils.array_safe_eq compares arrays with `(a == b).all()` without a shape guard,
        which raises for non-broadcastable shapes -> not total"""
        f = self._func("muutils/json_serialize/util.py", "array_safe_eq")
        for n in ast.walk(f):
            if isinstance(n, ast.Return) and isinstance(n.value, ast.Call):
                c = n.value
                if isinstance(c.func, ast.Attribute) and c.func.attr == "all" and isinstance(c.func.value, ast.Compare):
                    return False
        return True

    # -- muutils.mlutils.set_reproducibility ---------------------------------------------
    def reseeded_rngs(self) -> set[str]:
        "dotted names of the seeding calls made by `set_reproducibility(seed)` with its argument"
        f = self._func("muutils/mlutils.py", "set_reproducibility")
        out: set[str] = set()
        for n in ast.walk(f):
            if isinstance(n, ast.Call) and n.args and isinstance(n.args[0], ast.Name) and n.args[0].id == "seed":
                d = dotted_of(n.func)
                if d in ("random.seed", "np.random.seed", "numpy.random.seed", "torch.manual_seed"):
                    out.add({"np.random.seed": "numpy.random.seed"}.get(d, d))
        if not out:
            raise AnalysisError("set_reproducibility seeds nothing recognisable")
        return out

    # -- muutils.misc.hashing.stable_hash ---------------------------------------------------
    def stable_hash_is_hashlib(self) -> bool:
        rel = "muutils/misc/hashing.py"
        f = self._func(rel, "stable_hash")
        uses_hashlib = any(isinstance(n, ast.Call) and (dotted_of(n.func) or "").startswith("hashlib.")
                           for n in ast.walk(f))
        uses_builtin_hash = any(isinstance(n, ast.Call) and dotted_of(n.func) == "hash" for n in ast.walk(f))
        return uses_hashlib and not uses_builtin_hash

    # -- zanj.loading.get_item_loader --------------------------------------------------------
    def zanj_exact_format_first(self) -> bool:
        """routing rule of zanj: an exact `__format__` == handler uid match wins, otherwise the first
        registered handler whose `check` accepts"""
        f = self._func("zanj/loading.py", "get_item_loader")
        saw_exact = saw_scan = False
        order = []
        for st in f.body:
            for n in ast.walk(st):
                if isinstance(n, ast.Compare) and isinstance(n.ops[0], ast.In) and dotted_of(n.comparators[0]) == "LOADER_MAP":
                    saw_exact = True
                    order.append("exact")
                if isinstance(n, ast.For) and isinstance(n.iter, ast.Call) and dotted_of(n.iter.func) == "LOADER_MAP.items":
                    saw_scan = True
                    order.append("scan")
        return saw_exact and saw_scan and order.index("exact") < order.index("scan")

    def zanj_handlers_keyed_by_uid(self) -> bool:
        f = self._func("zanj/loading.py", "register_loader_handler")
        for n in ast.walk(f):
            if isinstance(n, ast.Assign) and isinstance(n.targets[0], ast.Subscript):
                t = n.targets[0]
                if dotted_of(t.value) == "LOADER_MAP" and dotted_of(t.slice) == "handler.uid":
                    return True
        return False
