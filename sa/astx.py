"""small AST helpers shared by the rule modules (E5/E8 pieces: keys, aliases, freshness, parents)"""

from __future__ import annotations

import ast
import copy as _copy
from typing import Any, Callable, Iterable

from sa import normal as N
from sa.index import AnalysisError, dotted_of


def parents_map(root: ast.AST) -> dict[ast.AST, ast.AST]:
    out = {}
    for n in ast.walk(root):
        for ch in ast.iter_child_nodes(n):
            out[ch] = n
    return out


def U(node: ast.AST | None) -> str:
    return "" if node is None else ast.unparse(node)


def body_wo_doc(fn: ast.FunctionDef) -> list[ast.stmt]:
    b = fn.body
    if b and isinstance(b[0], ast.Expr) and isinstance(b[0].value, ast.Constant) and isinstance(b[0].value.value, str):
        return b[1:]
    return b


def calls(root: ast.AST, name: str | None = None, suffix: str | None = None) -> list[ast.Call]:
    out = []
    for n in N.walk_no_nested_defs(root):
        if isinstance(n, ast.Call):
            d = dotted_of(n.func)
            if name is not None and d != name:
                continue
            if suffix is not None and not (d and (d == suffix or d.endswith("." + suffix))):
                if not (isinstance(n.func, ast.Attribute) and n.func.attr == suffix):
                    continue
            out.append(n)
    return out


def method_calls(root: ast.AST, attr: str) -> list[ast.Call]:
    return [n for n in N.walk_no_nested_defs(root)
            if isinstance(n, ast.Call) and isinstance(n.func, ast.Attribute) and n.func.attr == attr]


# ------------------------------------------------------------------ E8: record keys
def keys_written(node: ast.AST) -> set[str] | None:
    "constant string keys of a dict literal / dict(k=...) call; None if not a closed record"
    if isinstance(node, ast.Dict):
        ks = set()
        for k in node.keys:
            if k is None or not (isinstance(k, ast.Constant) and isinstance(k.value, str)):
                return None
            ks.add(k.value)
        return ks
    if isinstance(node, ast.Call) and dotted_of(node.func) == "dict" and not node.args:
        if any(kw.arg is None for kw in node.keywords):
            return None
        return {kw.arg for kw in node.keywords}
    return None


def record_value(node: ast.AST, key: str) -> ast.expr | None:
    if isinstance(node, ast.Dict):
        for k, v in zip(node.keys, node.values):
            if isinstance(k, ast.Constant) and k.value == key:
                return v
    if isinstance(node, ast.Call):
        for kw in node.keywords:
            if kw.arg == key:
                return kw.value
    return None


def keys_read(root: ast.AST, var: str | None = None, pred: Callable[[ast.AST], bool] | None = None) -> set[str]:
    """constant keys K in `X["K"]` (load), `X.get("K")` where X is the name `var` (or satisfies pred)"""
    ok = (lambda x: isinstance(x, ast.Name) and x.id == var) if pred is None else pred
    out = set()
    for n in ast.walk(root):
        if isinstance(n, ast.Subscript) and isinstance(n.ctx, ast.Load) and ok(n.value):
            if isinstance(n.slice, ast.Constant) and isinstance(n.slice.value, str):
                out.add(n.slice.value)
        if isinstance(n, ast.Call) and isinstance(n.func, ast.Attribute) and n.func.attr == "get" and ok(n.func.value):
            if n.args and isinstance(n.args[0], ast.Constant) and isinstance(n.args[0].value, str):
                out.add(n.args[0].value)
    return out


# ------------------------------------------------------------------ E5: flow-insensitive definitions
def assignments_to(fn: ast.AST, name: str) -> list[ast.expr]:
    "every value assigned to local `name` in the function (flow-insensitive reaching definitions)"
    out: list[ast.expr] = []
    for n in N.walk_no_nested_defs(fn):
        if isinstance(n, ast.Assign):
            for t in n.targets:
                if isinstance(t, ast.Name) and t.id == name:
                    out.append(n.value)
                elif isinstance(t, (ast.Tuple, ast.List)):
                    for i, e in enumerate(t.elts):
                        if isinstance(e, ast.Name) and e.id == name:
                            if isinstance(n.value, (ast.Tuple, ast.List)) and len(n.value.elts) == len(t.elts):
                                out.append(n.value.elts[i])
                            else:
                                out.append(ast.Subscript(value=n.value, slice=ast.Constant(i), ctx=ast.Load()))
        elif isinstance(n, ast.AnnAssign) and isinstance(n.target, ast.Name) and n.target.id == name and n.value is not None:
            out.append(n.value)
        elif isinstance(n, ast.AugAssign) and isinstance(n.target, ast.Name) and n.target.id == name:
            out.append(ast.BinOp(left=ast.Name(id=name, ctx=ast.Load()), op=n.op, right=n.value))
        elif isinstance(n, ast.NamedExpr) and n.target.id == name:
            out.append(n.value)
    return out


def single_def(fn: ast.AST, name: str) -> ast.expr:
    d = assignments_to(fn, name)
    if len(d) != 1:
        raise AnalysisError(f"expected exactly one definition of `{name}`, found {len(d)}")
    return d[0]


DEEPCOPY = ("copy.deepcopy", "deepcopy")


def is_fresh(expr: ast.AST, fn: ast.AST, depth: int = 0, ctor_names: tuple[str, ...] = ()) -> bool:
    """is the value a *fresh* dataset wrt. aliasing of its cfg with any parameter?
    fresh: copy.deepcopy(...);  K(cfg=<deepcopy>, ...) for a constructor K;  a name all of whose
    definitions are fresh"""
    if depth > 6:
        return False
    if isinstance(expr, ast.Call):
        d = dotted_of(expr.func)
        if d in DEEPCOPY:
            return True
        cfg = N.kwarg(expr, "cfg")
        if cfg is not None and isinstance(cfg, ast.Call) and dotted_of(cfg.func) in DEEPCOPY:
            return True
        if cfg is not None and isinstance(cfg, ast.Name):
            # K(cfg=<local bound only to deep copies>)
            defs = assignments_to(fn, cfg.id)
            return bool(defs) and all(isinstance(d, ast.Call) and dotted_of(d.func) in DEEPCOPY for d in defs)
        return False
    if isinstance(expr, ast.Name):
        defs = assignments_to(fn, expr.id)
        return bool(defs) and all(is_fresh(d, fn, depth + 1) for d in defs)
    return False


def substitute_len(node: ast.AST) -> ast.AST:
    "rewrite `X.shape[0]` to `len(X)` so that both spellings of a length normalise to one symbol"

    class T(ast.NodeTransformer):
        def visit_Subscript(self, n):
            self.generic_visit(n)
            if isinstance(n.value, ast.Attribute) and n.value.attr == "shape" and isinstance(n.slice, ast.Constant) and n.slice.value == 0:
                return ast.Call(func=ast.Name(id="len", ctx=ast.Load()), args=[n.value.value], keywords=[])
            return n

    return ast.fix_missing_locations(T().visit(_copy.deepcopy(node)))


def expr_of(src: str) -> ast.expr:
    return ast.parse(src, mode="eval").body


def same_relation(found: ast.AST, expected_src: str, neg: bool = False) -> tuple[bool | None, dict]:
    """compare a condition (its negation when `neg`) with the expected one in relational normal form.
    True: equal; False: same terms but different relation (operator/constant/polarity);
    None: different terms (unknown shape)"""
    f = N.boolean_nf(substitute_len(found), neg=neg)
    e = N.boolean_nf(substitute_len(expr_of(expected_src)))
    slot = {"found": N.nf_str(f), "expected": N.nf_str(e)}
    if N.nf_key(f) == N.nf_key(e):
        return True, slot

    def symbols(nf):
        s = set()
        for a in N.nf_atoms(nf):
            if a.diff is None:
                s.add(a.text)
            else:
                s |= {k for k in a.diff if k != 1}
        return s

    if symbols(f) == symbols(e):
        return False, slot
    # a conjunction with extra conjuncts (stronger) / a disjunction with extra disjuncts (weaker) than the rule
    fk = {a.key() for a in N.nf_atoms(f)}
    ek = {a.key() for a in N.nf_atoms(e)}
    kind_f = f[0] if isinstance(f, tuple) else "and"
    kind_e = e[0] if isinstance(e, tuple) else kind_f
    if kind_f == kind_e and ek < fk and all(isinstance(k, N.Atom) for k in (f[1] if isinstance(f, tuple) else [f])):
        slot["relation"] = "stronger than the rule" if kind_f == "and" else "weaker than the rule"
        return False, slot
    return None, slot


def returns_of(fn: ast.FunctionDef) -> list[ast.Return]:
    return [n for n in N.walk_no_nested_defs(fn) if isinstance(n, ast.Return)]


def stores_through(root: ast.AST, base: str) -> list[ast.AST]:
    "attribute/subscript stores and mutating calls whose base name is `base` (x.a = .., x.a[k] = .., x.a.append(..))"
    MUT = {"append", "extend", "insert", "pop", "remove", "clear", "update", "setdefault", "sort", "reverse", "discard", "add", "popitem", "__setitem__", "__setattr__"}
    out = []

    def base_of(n):
        while isinstance(n, (ast.Attribute, ast.Subscript)):
            n = n.value
        return n.id if isinstance(n, ast.Name) else None

    for n in N.walk_no_nested_defs(root):
        targets = []
        if isinstance(n, ast.Assign):
            targets = n.targets
        elif isinstance(n, (ast.AugAssign, ast.AnnAssign)):
            targets = [n.target]
        elif isinstance(n, ast.Delete):
            targets = n.targets
        for t in targets:
            for tt in (t.elts if isinstance(t, (ast.Tuple, ast.List)) else [t]):
                if isinstance(tt, (ast.Attribute, ast.Subscript)) and base_of(tt) == base:
                    out.append(tt)
        if isinstance(n, ast.Call) and isinstance(n.func, ast.Attribute) and n.func.attr in MUT:
            if isinstance(n.func.value, (ast.Attribute, ast.Subscript)) and base_of(n.func.value) == base:
                out.append(n)
            elif isinstance(n.func.value, ast.Name) and n.func.value.id == base:
                out.append(n)
    return out


def all_function_nodes(tree: ast.AST, prefix: str):
    "(qualname, FunctionDef) for every function incl. methods and nested functions; each owns only its own statements"
    def rec(node, q):
        for ch in ast.iter_child_nodes(node):
            if isinstance(ch, (ast.FunctionDef, ast.AsyncFunctionDef)):
                yield (f"{q}.{ch.name}", ch)
                yield from rec(ch, f"{q}.{ch.name}")
            elif isinstance(ch, ast.ClassDef):
                yield from rec(ch, f"{q}.{ch.name}")
            else:
                yield from rec(ch, q)
    yield from rec(tree, prefix)


def relation_in(found: ast.AST, accepted_srcs: list[str]) -> tuple[bool, dict]:
    """for a slot whose *role* is certain (located by construct): is the condition one of the accepted
    spellings (compared in relational normal form)?  never returns None: a located slot outside the
    enumerated accepted set is a violation, not an unknown"""
    f = N.boolean_nf(substitute_len(found))
    keys = []
    for src in accepted_srcs:
        e = N.boolean_nf(substitute_len(expr_of(src)))
        keys.append(N.nf_key(e))
    return N.nf_key(f) in keys, {"found": N.nf_str(f), "accepted": accepted_srcs}


def same_expr(node: ast.AST | None, *accepted_srcs: str) -> bool:
    "structural equality (ast.dump, so independent of layout/parentheses/quotes) with one of the accepted expressions"
    if node is None:
        return False
    d = ast.dump(canon(node))
    for src in accepted_srcs:
        if ast.dump(canon(ast.parse(src, mode="eval").body)) == d:
            return True
    return False


def np_method(node: ast.AST | None, *names: str):
    """(receiver, call) when `node` is the reduction / array method `recv.<name>(...)` (the canonical spelling) or the
    function form `np.<name>(recv, ...)` that the canonicaliser left alone; else None"""
    if not isinstance(node, ast.Call):
        return None
    d = dotted_of(node.func)
    if d and d.split(".")[0] in ("np", "numpy") and len(d.split(".")) == 2 and d.split(".")[1] in names and node.args:
        return node.args[0], node
    if isinstance(node.func, ast.Attribute) and node.func.attr in names and not (d and d.split(".")[0] in ("np", "numpy", "math", "random") and len(d.split(".")) == 2):
        return node.func.value, node
    return None


def dict_items(node: ast.AST | None) -> dict | None:
    "{key: value node} of a dict display with constant keys or a `dict(k=v, ...)` call; None for anything else"
    if isinstance(node, ast.Dict) and all(isinstance(k, ast.Constant) for k in node.keys):
        return {k.value: v for k, v in zip(node.keys, node.values)}
    if isinstance(node, ast.Call) and dotted_of(node.func) == "dict" and not node.args and all(k.arg for k in node.keywords):
        return {k.arg: k.value for k in node.keywords}
    return None


def elementwise(node: ast.AST | None):
    """(element expression in terms of `_x`, iterable expression, 'list' | 'iter') for an order-preserving element-wise construction:
    `[E(v) for v in xs]`, `(E(v) for v in xs)`, `list(map(f, xs))`, `map(f, xs)`; None for anything else (filters, several generators)"""
    if node is None:
        return None
    kind = "iter"
    if isinstance(node, ast.Call) and dotted_of(node.func) == "list" and len(node.args) == 1 and not node.keywords:
        kind = "list"
        node = node.args[0]
    if isinstance(node, ast.Call) and dotted_of(node.func) == "map" and len(node.args) == 2 and not node.keywords:
        f = node.args[0]
        if isinstance(f, ast.Lambda) and len(f.args.args) == 1:
            elt = _copy.deepcopy(f.body)
            for x in ast.walk(elt):
                if isinstance(x, ast.Name) and x.id == f.args.args[0].arg:
                    x.id = "_x"
        else:
            elt = ast.Call(func=f, args=[ast.Name(id="_x", ctx=ast.Load())], keywords=[])
        return ast.fix_missing_locations(elt), node.args[1], kind
    if isinstance(node, (ast.ListComp, ast.GeneratorExp)) and len(node.generators) == 1 and not node.generators[0].ifs and isinstance(node.generators[0].target, ast.Name):
        elt = _copy.deepcopy(node.elt)
        for x in ast.walk(elt):
            if isinstance(x, ast.Name) and x.id == node.generators[0].target.id:
                x.id = "_x"
        return elt, node.generators[0].iter, ("list" if isinstance(node, ast.ListComp) else kind)
    return None


def per_item_parts(fn: ast.AST, iter_src: str):
    """how a sequence is assembled per element of `iter_src`: (loop variable, [(kind, expr)]) with kind 'splat' (all elements of expr) or
    'item' (expr itself), read from either `[[*A, b, *C] for v in <iter>]` (a list display per element, flattened by the caller) or
    `for v in <iter>: acc.extend(A); acc.append(b); acc += C` (only such statements in the body).  None otherwise."""
    found = []
    for n in ast.walk(fn):
        if isinstance(n, ast.ListComp) and len(n.generators) == 1 and not n.generators[0].ifs and same_expr(n.generators[0].iter, iter_src) \
                and isinstance(n.elt, ast.List) and isinstance(n.generators[0].target, ast.Name):
            parts = [("splat", e.value) if isinstance(e, ast.Starred) else ("item", e) for e in n.elt.elts]
            found.append((n.generators[0].target.id, parts))
        elif isinstance(n, ast.For) and not n.orelse and same_expr(n.iter, iter_src) and isinstance(n.target, ast.Name):
            parts = []
            accs = set()
            for st in n.body:
                if isinstance(st, ast.Expr) and isinstance(st.value, ast.Call) and isinstance(st.value.func, ast.Attribute) and st.value.func.attr in ("extend", "append") \
                        and len(st.value.args) == 1 and not st.value.keywords and isinstance(st.value.func.value, ast.Name):
                    accs.add(st.value.func.value.id)
                    parts.append(("splat" if st.value.func.attr == "extend" else "item", st.value.args[0]))
                elif isinstance(st, ast.AugAssign) and isinstance(st.op, ast.Add) and isinstance(st.target, ast.Name):
                    accs.add(st.target.id)
                    parts.append(("splat", st.value))
                else:
                    parts = None
                    break
            if parts and len(accs) == 1:
                found.append((n.target.id, parts))
    if len(found) != 1:
        return None
    v, parts = found[0]
    return v, parts


def alternatives(e: ast.AST) -> list[ast.AST]:
    "the values a conditional expression can take: `A if c else (B if d else C)` -> [A, B, C]; anything else -> [e]"
    if isinstance(e, ast.IfExp):
        return alternatives(e.body) + alternatives(e.orelse)
    return [e]


def fuse_zip(comp: ast.AST, fn: ast.AST) -> ast.AST:
    """`[.. for a, b in zip(A, B) ..]` where B is (a local defined as) an element-wise image `[E(x) for x in A]` of the same A:
    an equivalent comprehension over A alone with b replaced by E(a).  Anything else is returned unchanged."""
    if not (isinstance(comp, (ast.ListComp, ast.GeneratorExp, ast.SetComp)) and len(comp.generators) == 1):
        return comp
    g = comp.generators[0]
    if not (isinstance(g.target, ast.Tuple) and len(g.target.elts) == 2 and all(isinstance(e, ast.Name) for e in g.target.elts)
            and isinstance(g.iter, ast.Call) and dotted_of(g.iter.func) == "zip" and len(g.iter.args) == 2 and not g.iter.keywords):
        return comp
    a, b = g.target.elts[0].id, g.target.elts[1].id
    A, B = g.iter.args
    for first, second, A_, B_ in ((a, b, A, B), (b, a, B, A)):
        img = B_
        # strip array wrappers and expand the local
        for _ in range(3):
            img = expand_locals(img, fn)
            if isinstance(img, ast.Call) and dotted_of(img.func) in ("np.array", "numpy.array", "list", "tuple", "np.asarray") and len(img.args) == 1 and not img.keywords:
                img = img.args[0]
        ew = elementwise(img)
        if ew is None or not same_expr(ew[1], U(A_)):
            continue
        elt_for = ew[0]

        class S(ast.NodeTransformer):
            def visit_Name(s, n: ast.Name):
                if n.id == second and isinstance(n.ctx, ast.Load):
                    e = _copy.deepcopy(elt_for)
                    for x in ast.walk(e):
                        if isinstance(x, ast.Name) and x.id == "_x":
                            x.id = first
                    return e
                return n
        new = _copy.deepcopy(comp)
        new.generators[0].target = ast.Name(id=first, ctx=ast.Store())
        new.generators[0].iter = _copy.deepcopy(A_)
        new.elt = S().visit(new.elt)
        new.generators[0].ifs = [S().visit(t) for t in new.generators[0].ifs]
        return ast.fix_missing_locations(new)
    return comp


def nonempty_subject(test: ast.AST) -> ast.AST | None:
    "X when `test` holds iff the container X is non-empty: `X`, `len(X) > 0`, `0 < len(X)`, `len(X) != 0`, `len(X) >= 1`, `len(X)`"
    t = test
    if isinstance(t, (ast.Name, ast.Attribute)):
        return t
    if isinstance(t, ast.Call) and dotted_of(t.func) == "len" and len(t.args) == 1:
        return t.args[0]
    if isinstance(t, ast.Compare) and len(t.ops) == 1:
        l, op, r = t.left, t.ops[0], t.comparators[0]
        is_len = lambda e: isinstance(e, ast.Call) and dotted_of(e.func) == "len" and len(e.args) == 1
        k = lambda e: e.value if isinstance(e, ast.Constant) and isinstance(e.value, int) else None
        if is_len(l) and ((isinstance(op, (ast.Gt, ast.NotEq)) and k(r) == 0) or (isinstance(op, ast.GtE) and k(r) == 1)):
            return l.args[0]
        if is_len(r) and ((isinstance(op, (ast.Lt, ast.NotEq)) and k(l) == 0) or (isinstance(op, ast.LtE) and k(l) == 1)):
            return r.args[0]
    return None


def CT(src: str, strip: bool = False) -> str:
    "canonical text of an expected expression (the index holds idiom-canonical trees: expected texts are canonicalised the same way)"
    t = ast.unparse(canon(ast.parse(src, mode="eval").body))
    return t.replace(" ", "") if strip else t


def same_stmt(node: ast.AST | None, *accepted_srcs: str) -> bool:
    if node is None:
        return False
    d = ast.dump(node)
    for src in accepted_srcs:
        if ast.dump(ast.parse(src).body[0]) == d:
            return True
    return False


# ====================================================================== robustness toolkit
# (added after the first run against behaviour-preserving refactorings written by sub-agents: 31 of 34 raised an alarm)

_NP_METHODS = {"all", "any", "sum", "max", "min", "prod", "argmax", "argmin", "cumsum", "ravel", "astype", "copy", "mean"}


class _Idioms(ast.NodeTransformer):
    """canonical spelling of equivalent idioms:
    np.f(x, **kw) -> x.f(**kw) for reductions; dict()/list()/tuple() -> literals; x.shape[0] -> len(x);
    `not a in b` -> `a not in b`, `not a is b` -> `a is not b`; int/float literal forms; +x -> x; (a) parentheses vanish anyway"""

    def _flatten_display(self, n):
        "`[a, *[b, *c, d], e]` -> `[a, b, *c, d, e]`: a starred list / tuple display inside a display contributes its own elements"
        self.generic_visit(n)
        while any(isinstance(e, ast.Starred) and isinstance(e.value, (ast.List, ast.Tuple)) for e in n.elts):
            flat = []
            for e in n.elts:
                if isinstance(e, ast.Starred) and isinstance(e.value, (ast.List, ast.Tuple)):
                    flat.extend(e.value.elts)
                else:
                    flat.append(e)
            n.elts = flat
        return n

    def visit_List(self, n: ast.List):
        return self._flatten_display(n) if isinstance(n.ctx, ast.Load) else self.generic_visit(n)

    def visit_Tuple(self, n: ast.Tuple):
        return self._flatten_display(n) if isinstance(n.ctx, ast.Load) else self.generic_visit(n)

    def visit_Set(self, n: ast.Set):
        return self._flatten_display(n)

    def visit_Call(self, n: ast.Call):
        self.generic_visit(n)
        if any(isinstance(a, ast.Starred) and isinstance(a.value, (ast.Tuple, ast.List)) for a in n.args):
            flat = []
            for a in n.args:
                if isinstance(a, ast.Starred) and isinstance(a.value, (ast.Tuple, ast.List)):
                    flat.extend(a.value.elts)
                else:
                    flat.append(a)
            n = ast.Call(func=n.func, args=flat, keywords=n.keywords)
        if isinstance(n.func, ast.Lambda) and len(n.func.args.args) == 1 and n.func.args.args[0].arg == "_k" and len(n.args) == 1 and not n.keywords \
                and isinstance(n.func.body, ast.Subscript):
            return ast.Subscript(value=n.func.body.value, slice=n.args[0], ctx=ast.Load())
        d = dotted_of(n.func)
        # any(E for ...) / all(E for ...): the elements are only tested for truth
        if d in ("any", "all") and len(n.args) == 1 and not n.keywords and isinstance(n.args[0], (ast.GeneratorExp, ast.ListComp)):
            n.args[0].elt = self._truth(n.args[0].elt)
        if d and d.split(".")[0] in ("np", "numpy") and d.split(".")[-1] in _NP_METHODS and len(d.split(".")) == 2 and n.args \
                and not isinstance(n.args[0], ast.Starred):
            recv = n.args[0]
            rest = n.args[1:]
            kws = list(n.keywords)
            meth = d.split(".")[-1]
            if meth in ("all", "any", "sum", "max", "min", "prod", "argmax", "argmin", "cumsum", "mean") and len(rest) == 1 and not any(k.arg == "axis" for k in kws):
                kws = [ast.keyword(arg="axis", value=rest[0]), *kws]
                rest = []
            if not rest or meth == "astype":
                return ast.Call(func=ast.Attribute(value=recv, attr=meth, ctx=ast.Load()), args=list(rest), keywords=kws)
        if d == "getattr" and len(n.args) == 2 and not n.keywords and isinstance(n.args[1], ast.Constant) and isinstance(n.args[1].value, str) \
                and n.args[1].value.isidentifier():
            return ast.Attribute(value=n.args[0], attr=n.args[1].value, ctx=ast.Load())
        if d == "len" and len(n.args) == 1 and isinstance(n.args[0], ast.Call) and dotted_of(n.args[0].func) in ("list", "tuple") and len(n.args[0].args) == 1 \
                and not n.args[0].keywords and not isinstance(n.args[0].args[0], (ast.GeneratorExp, ast.Starred)):
            return ast.Call(func=n.func, args=[n.args[0].args[0]], keywords=[])
        if d in ("dict", "list", "tuple", "set") and not n.args and not n.keywords and d != "set":
            return {"dict": ast.Dict(keys=[], values=[]), "list": ast.List(elts=[], ctx=ast.Load()), "tuple": ast.Tuple(elts=[], ctx=ast.Load())}[d]
        if d == "dict" and not n.args and n.keywords and all(k.arg for k in n.keywords):
            return ast.Dict(keys=[ast.Constant(k.arg) for k in n.keywords], values=[k.value for k in n.keywords])
        return n

    def visit_JoinedStr(self, n: ast.JoinedStr):
        self.generic_visit(n)
        # f"{f'a{x}'}b" -> f"a{x}b" ; f"{'lit'}" -> "lit" ; adjacent literal pieces are merged
        flat = []
        for v in n.values:
            if isinstance(v, ast.FormattedValue) and v.conversion == -1 and v.format_spec is None and isinstance(v.value, ast.JoinedStr):
                flat.extend(v.value.values)
            elif isinstance(v, ast.FormattedValue) and v.conversion == -1 and v.format_spec is None and isinstance(v.value, ast.Constant) and isinstance(v.value.value, str):
                flat.append(ast.Constant(v.value.value))
            else:
                flat.append(v)
        merged = []
        for v in flat:
            if isinstance(v, ast.Constant) and isinstance(v.value, str) and merged and isinstance(merged[-1], ast.Constant) and isinstance(merged[-1].value, str):
                merged[-1] = ast.Constant(merged[-1].value + v.value)
            else:
                merged.append(v)
        return ast.JoinedStr(values=merged)

    # ---- boolean contexts (tests): only truthiness matters there
    def _truth(self, e: ast.AST) -> ast.AST:
        "simplify an (already visited) expression whose value is only tested for truth"
        if isinstance(e, ast.BoolOp):
            vals = []
            for v in e.values:
                v = self._truth(v)
                if isinstance(v, ast.BoolOp) and type(v.op) is type(e.op):
                    vals.extend(v.values)
                else:
                    vals.append(v)
            return ast.BoolOp(op=e.op, values=vals)
        if isinstance(e, ast.UnaryOp) and isinstance(e.op, ast.Not):
            return self.visit_UnaryOp(ast.UnaryOp(op=ast.Not(), operand=self._truth(e.operand)))
        if isinstance(e, ast.Call) and dotted_of(e.func) == "bool" and len(e.args) == 1 and not e.keywords:
            return self._truth(e.args[0])
        if isinstance(e, ast.IfExp):
            c, a, b = e.test, e.body, e.orelse
            neg = lambda x: self.visit_UnaryOp(ast.UnaryOp(op=ast.Not(), operand=x))
            if isinstance(a, ast.Constant) and a.value is False:      # False if c else b  ==  not c and b
                return self._truth(ast.BoolOp(op=ast.And(), values=[neg(c), b]))
            if isinstance(a, ast.Constant) and a.value is True:       # True if c else b   ==  c or b
                return self._truth(ast.BoolOp(op=ast.Or(), values=[c, b]))
            if isinstance(b, ast.Constant) and b.value is False:      # a if c else False  ==  c and a
                return self._truth(ast.BoolOp(op=ast.And(), values=[c, a]))
            if isinstance(b, ast.Constant) and b.value is True:       # a if c else True   ==  not c or a
                return self._truth(ast.BoolOp(op=ast.Or(), values=[neg(c), a]))
        return e

    def visit_If(self, n: ast.If):
        self.generic_visit(n)
        n.test = self._truth(n.test)
        return n

    def visit_While(self, n: ast.While):
        self.generic_visit(n)
        n.test = self._truth(n.test)
        return n

    def visit_Assert(self, n: ast.Assert):
        self.generic_visit(n)
        n.test = self._truth(n.test)
        return n

    def visit_comprehension(self, n: ast.comprehension):
        self.generic_visit(n)
        n.ifs = [self._truth(t) for t in n.ifs]
        return n

    @staticmethod
    def _as_map(n):
        "`f(x) for x in xs` (one generator, no filter, f independent of x) -> map(f, xs)"
        if len(n.generators) == 1 and not n.generators[0].ifs and not n.generators[0].is_async and isinstance(n.generators[0].target, ast.Name) \
                and isinstance(n.elt, ast.Call) and len(n.elt.args) == 1 and not n.elt.keywords and isinstance(n.elt.args[0], ast.Name) \
                and n.elt.args[0].id == n.generators[0].target.id and dotted_of(n.elt.func) is not None \
                and not any(isinstance(x, ast.Name) and x.id == n.generators[0].target.id for x in ast.walk(n.elt.func)):
            return ast.Call(func=ast.Name(id="map", ctx=ast.Load()), args=[n.elt.func, n.generators[0].iter], keywords=[])
        return None

    def visit_GeneratorExp(self, n: ast.GeneratorExp):
        self.generic_visit(n)
        return self._as_map(n) or n

    def visit_ListComp(self, n: ast.ListComp):
        self.generic_visit(n)
        m = self._as_map(n)
        return ast.Call(func=ast.Name(id="list", ctx=ast.Load()), args=[m], keywords=[]) if m is not None else n

    def visit_IfExp(self, n: ast.IfExp):
        self.generic_visit(n)
        n.test = self._truth(n.test)
        # `d[k] if k in d else V` -> `d.get(k, V)` (V an empty display / constant: eager evaluation is unobservable)
        t = n.test
        if isinstance(t, ast.Compare) and len(t.ops) == 1 and isinstance(t.ops[0], ast.In) and isinstance(n.body, ast.Subscript) \
                and ast.dump(n.body.value) == ast.dump(t.comparators[0]) and ast.dump(n.body.slice) == ast.dump(t.left) \
                and (isinstance(n.orelse, ast.Constant) or (isinstance(n.orelse, (ast.List, ast.Tuple, ast.Dict)) and not ast.dump(n.orelse).count("Name("))):
            return ast.Call(func=ast.Attribute(value=n.body.value, attr="get", ctx=ast.Load()), args=[t.left, n.orelse], keywords=[])
        # `True if c else False` -> c for comparisons / boolean operators (already bool), bool(c) otherwise
        if isinstance(n.body, ast.Constant) and n.body.value is True and isinstance(n.orelse, ast.Constant) and n.orelse.value is False:
            if isinstance(t, ast.Compare) or (isinstance(t, ast.UnaryOp) and isinstance(t.op, ast.Not)):
                return t
            return ast.Call(func=ast.Name(id="bool", ctx=ast.Load()), args=[t], keywords=[])
        return n

    def visit_Attribute(self, n: ast.Attribute):
        self.generic_visit(n)
        # m.__getitem__ (as a callable) -> lambda _k: m[_k]
        if n.attr == "__getitem__" and isinstance(n.ctx, ast.Load):
            return ast.Lambda(args=ast.arguments(posonlyargs=[], args=[ast.arg(arg="_k")], kwonlyargs=[], kw_defaults=[], defaults=[]),
                              body=ast.Subscript(value=n.value, slice=ast.Name(id="_k", ctx=ast.Load()), ctx=ast.Load()))
        return n

    def visit_Subscript(self, n: ast.Subscript):
        self.generic_visit(n)
        if isinstance(n.value, ast.Attribute) and n.value.attr == "shape" and isinstance(n.slice, ast.Constant) and n.slice.value == 0 and isinstance(n.ctx, ast.Load):
            return ast.Call(func=ast.Name(id="len", ctx=ast.Load()), args=[n.value.value], keywords=[])
        # a[k][s1, s2] -> a[k, s1, s2] for an integer constant k and an array-style (tuple containing a slice) outer index
        inner = n.value
        if isinstance(inner, ast.Subscript) and isinstance(inner.value, (ast.Name, ast.Attribute)) and isinstance(inner.slice, ast.Constant) \
                and isinstance(inner.slice.value, int) and not isinstance(inner.slice.value, bool) \
                and isinstance(n.slice, ast.Tuple) and any(isinstance(e, ast.Slice) for e in n.slice.elts):
            return ast.Subscript(value=inner.value, slice=ast.Tuple(elts=[inner.slice, *n.slice.elts], ctx=ast.Load()), ctx=n.ctx)
        return n

    def visit_UnaryOp(self, n: ast.UnaryOp):
        self.generic_visit(n)
        if isinstance(n.op, ast.Not) and isinstance(n.operand, ast.Compare) and len(n.operand.ops) == 1:
            flip = {ast.In: ast.NotIn, ast.NotIn: ast.In, ast.Is: ast.IsNot, ast.IsNot: ast.Is, ast.Eq: ast.NotEq, ast.NotEq: ast.Eq,
                    ast.Lt: ast.GtE, ast.GtE: ast.Lt, ast.Gt: ast.LtE, ast.LtE: ast.Gt}
            t = type(n.operand.ops[0])
            if t in flip:
                return ast.Compare(left=n.operand.left, ops=[flip[t]()], comparators=n.operand.comparators)
        if isinstance(n.op, ast.UAdd):
            return n.operand
        return n

    def visit_Compare(self, n: ast.Compare):
        self.generic_visit(n)
        # a > b  ->  b < a ;  a >= b -> b <= a   (one direction only)
        if len(n.ops) == 1 and isinstance(n.ops[0], (ast.Gt, ast.GtE)):
            return ast.Compare(left=n.comparators[0], ops=[ast.Lt() if isinstance(n.ops[0], ast.Gt) else ast.LtE()], comparators=[n.left])
        return n

    def visit_BinOp(self, n: ast.BinOp):
        self.generic_visit(n)
        # canonical order of commutative integer arithmetic: constant factor first (k * x), constants last in sums
        if isinstance(n.op, ast.Mult) and isinstance(n.right, ast.Constant) and not isinstance(n.left, ast.Constant) and isinstance(n.right.value, (int, float)):
            return ast.BinOp(left=n.right, op=ast.Mult(), right=n.left)
        if isinstance(n.op, ast.Add) and isinstance(n.left, ast.Constant) and not isinstance(n.right, ast.Constant) and isinstance(n.left.value, (int, float)):
            return ast.BinOp(left=n.right, op=ast.Add(), right=n.left)
        return n


def canon(node: ast.AST) -> ast.AST:
    "idiom-canonical deep copy of an AST"
    return ast.fix_missing_locations(_Idioms().visit(_copy.deepcopy(node)))


def _alpha(node: ast.AST) -> ast.AST:
    "rename variables bound by comprehensions / lambdas to positional names (structural equality modulo bound names)"
    node = _copy.deepcopy(node)
    counter = [0]

    def rename_in(sub: ast.AST, mapping: dict):
        for x in ast.walk(sub):
            if isinstance(x, ast.Name) and x.id in mapping:
                x.id = mapping[x.id]
            if isinstance(x, ast.arg) and x.arg in mapping:
                x.arg = mapping[x.arg]

    for x in list(ast.walk(node)):
        if isinstance(x, (ast.ListComp, ast.SetComp, ast.GeneratorExp, ast.DictComp)):
            mapping = {}
            for g in x.generators:
                for t in ast.walk(g.target):
                    if isinstance(t, ast.Name) and t.id not in mapping:
                        mapping[t.id] = f"_b{counter[0]}"
                        counter[0] += 1
            rename_in(x, mapping)
        elif isinstance(x, ast.Lambda):
            mapping = {}
            for a in [*x.args.posonlyargs, *x.args.args, *x.args.kwonlyargs]:
                mapping[a.arg] = f"_b{counter[0]}"
                counter[0] += 1
            rename_in(x, mapping)
    return node


def norm_dump(node: ast.AST) -> str:
    return ast.dump(_alpha(canon(node)))


def expand_locals(expr: ast.AST, fn: ast.AST, keep: Iterable[str] = (), depth: int = 0) -> ast.AST:
    """copy propagation: substitute every local that has exactly one definition in `fn` (and is not a parameter, loop variable
    or augmented) by its defining expression, recursively.  `keep` names are left alone."""
    if depth > 6:
        return expr
    keep = set(keep)
    params = set()
    if isinstance(fn, (ast.FunctionDef, ast.AsyncFunctionDef, ast.Lambda)):
        a = fn.args
        params = {x.arg for x in [*a.posonlyargs, *a.args, *a.kwonlyargs]} | ({a.vararg.arg} if a.vararg else set()) | ({a.kwarg.arg} if a.kwarg else set())
    bound_elsewhere = set()
    for n in N.walk_no_nested_defs(fn):
        if isinstance(n, (ast.For, ast.comprehension)):
            for t in ast.walk(n.target):
                if isinstance(t, ast.Name):
                    bound_elsewhere.add(t.id)
        if isinstance(n, ast.AugAssign) and isinstance(n.target, ast.Name):
            bound_elsewhere.add(n.target.id)
        if isinstance(n, (ast.With,)):
            for it in n.items:
                if it.optional_vars is not None:
                    for t in ast.walk(it.optional_vars):
                        if isinstance(t, ast.Name):
                            bound_elsewhere.add(t.id)

    class T(ast.NodeTransformer):
        def visit_Name(self, n: ast.Name):
            if isinstance(n.ctx, ast.Load) and n.id not in keep and n.id not in params and n.id not in bound_elsewhere:
                defs = assignments_to(fn, n.id)
                if len(defs) == 1 and not any(isinstance(x, ast.Name) and x.id == n.id for x in ast.walk(defs[0])):
                    return expand_locals(_copy.deepcopy(defs[0]), fn, keep, depth + 1)
            return n

    return ast.fix_missing_locations(T().visit(_copy.deepcopy(expr)))


def same_expr_x(node: ast.AST | None, fn: ast.AST | None, *accepted_srcs: str, keep: Iterable[str] = ()) -> bool:
    """robust structural equality: idiom-canonical, modulo comprehension/lambda variable names, and (when `fn` is given) after
    copy propagation of single-definition locals on the found side"""
    if node is None:
        return False
    cands = [node]
    if fn is not None:
        cands.append(expand_locals(node, fn, keep))
    dumps = {norm_dump(c) for c in cands}
    for src in accepted_srcs:
        if norm_dump(ast.parse(src, mode="eval").body) in dumps:
            return True
    return False


class _MatchToIf(ast.NodeTransformer):
    "match subj: case V: ... case _: ...  ->  if subj == V: ... elif ...: else: ...   (value / wildcard / or-patterns of values only)"

    def visit_Match(self, n: ast.Match):
        self.generic_visit(n)
        chain: list[tuple[ast.expr | None, list[ast.stmt]]] = []
        for c in n.cases:
            if c.guard is not None:
                return n
            p = c.pattern
            if isinstance(p, ast.MatchValue):
                test = ast.Compare(left=n.subject, ops=[ast.Eq()], comparators=[p.value])
            elif isinstance(p, ast.MatchSingleton):
                test = ast.Compare(left=n.subject, ops=[ast.Is()], comparators=[ast.Constant(p.value)])
            elif isinstance(p, ast.MatchOr) and all(isinstance(q, ast.MatchValue) for q in p.patterns):
                test = ast.Compare(left=n.subject, ops=[ast.In()], comparators=[ast.Tuple(elts=[q.value for q in p.patterns], ctx=ast.Load())])
            elif isinstance(p, ast.MatchAs) and p.pattern is None:
                test = None
            else:
                return n
            chain.append((test, c.body))
        out: list[ast.stmt] = []
        for test, body in reversed(chain):
            if test is None:
                out = list(body)
            else:
                out = [ast.If(test=test, body=list(body), orelse=out)]
        return out if out else n


def match_to_if(fn: ast.AST) -> ast.AST:
    return ast.fix_missing_locations(_MatchToIf().visit(_copy.deepcopy(fn)))


def mask_atoms(expr: ast.AST) -> tuple[set, set]:
    """elementwise bounds masks are written `(A).all(axis=k) & (B).all(axis=k)` or `(A & B).all(axis=k)` / `np.all(A & B, axis=k)`:
    returns (keys of the comparison atoms conjoined, the set of `axis` values of the enclosing .all() reductions)"""
    e = canon(expr)
    atoms: set = set()
    axes: set = set()

    def rec(n, ax):
        if isinstance(n, ast.BinOp) and isinstance(n.op, ast.BitAnd):
            rec(n.left, ax)
            rec(n.right, ax)
        elif isinstance(n, ast.BoolOp) and isinstance(n.op, ast.And):
            for v in n.values:
                rec(v, ax)
        elif isinstance(n, ast.Call) and isinstance(n.func, ast.Attribute) and n.func.attr == "all":
            a = N.kwarg(n, "axis") or (n.args[0] if n.args else None)
            rec(n.func.value, N.const_int(a))
        elif isinstance(n, ast.Compare):
            left = n.left
            for op, right in zip(n.ops, n.comparators):
                atoms.add(N.compare_atom(left, op, right).key())
                left = right
            axes.add(ax)
        else:
            atoms.add(("?", U(n)))
    rec(e, None)
    return atoms, axes


def split_ifexp(e: ast.AST, conds: list | None = None) -> list:
    "[(value, [(test, polarity), ...])] of a (nested) conditional expression"
    conds = conds or []
    if isinstance(e, ast.IfExp):
        return split_ifexp(e.body, conds + [(e.test, True)]) + split_ifexp(e.orelse, conds + [(e.test, False)])
    return [(e, conds)]


def guarded_values(fn: ast.FunctionDef, name: str) -> list:
    """every value a local can be given, with the branch literals under which it is given:
    [(expression, [(test, polarity), ...])]; the same for an if/elif chain of assignments and for one conditional expression"""
    from sa.cfg import build_cfg, path_conditions

    g = build_cfg(fn)
    first = g.entry.succ[0][0]
    out = []
    for d in g.nodes:
        if d.kind == "stmt" and isinstance(d.ast, (ast.Assign, ast.AnnAssign)) and getattr(d.ast, "value", None) is not None:
            tg = d.ast.targets if isinstance(d.ast, ast.Assign) else [d.ast.target]
            if not any(isinstance(t, ast.Name) and t.id == name for t in tg):
                continue
            ps = path_conditions(g, first, d) if d is not first else [[]]
            common = None
            for p in ps:
                keyed = {(ast.dump(t), lab): (t, lab) for t, lab in p}
                common = keyed if common is None else {k: v for k, v in common.items() if k in keyed}
            base = list((common or {}).values())
            out.extend(split_ifexp(d.ast.value, base))
    return out


def str_template(e: ast.AST | None) -> list | None:
    """a string-building expression as a template: [("lit", text) | ("expr", node, format_spec_source)], adjacent literals merged.
    Understands f-strings, string constants, `+` concatenation, `SEP.join([part, ...])` over a list/tuple display and str(x)."""
    def parts(n) -> list | None:
        if isinstance(n, ast.Constant) and isinstance(n.value, str):
            return [("lit", n.value)]
        if isinstance(n, ast.JoinedStr):
            out = []
            for v in n.values:
                if isinstance(v, ast.Constant):
                    out.append(("lit", str(v.value)))
                elif isinstance(v, ast.FormattedValue):
                    spec = U(v.format_spec) if v.format_spec is not None else ""
                    conv = {-1: "", 115: "!s", 114: "!r", 97: "!a"}.get(v.conversion, "")
                    if not spec and conv in ("", "!s"):
                        inner = parts(v.value) if isinstance(v.value, (ast.JoinedStr,)) else None
                        if inner is not None:
                            out.extend(inner)
                            continue
                    out.append(("expr", v.value, conv + spec))
                else:
                    return None
            return out
        if isinstance(n, ast.BinOp) and isinstance(n.op, ast.Add):
            l, r = parts(n.left), parts(n.right)
            return None if l is None or r is None else l + r
        if isinstance(n, ast.Call) and isinstance(n.func, ast.Attribute) and n.func.attr == "join" and isinstance(n.func.value, ast.Constant) \
                and isinstance(n.func.value.value, str) and len(n.args) == 1 and isinstance(n.args[0], (ast.List, ast.Tuple)):
            out = []
            for i, el in enumerate(n.args[0].elts):
                p = parts(el)
                if p is None:
                    return None
                if i:
                    out.append(("lit", n.func.value.value))
                out.extend(p)
            return out
        if isinstance(n, ast.Call) and U(n.func) == "str" and len(n.args) == 1 and not n.keywords:
            return [("expr", n.args[0], "")]
        return None
    p = parts(e) if e is not None else None
    if p is None:
        return None
    merged: list = []
    for x in p:
        if x[0] == "lit" and merged and merged[-1][0] == "lit":
            merged[-1] = ("lit", merged[-1][1] + x[1])
        elif x[0] == "lit" and x[1] == "":
            continue
        else:
            merged.append(x)
    return merged


def module_state_writes(fn: ast.AST, module_names: Iterable[str]) -> list[ast.AST]:
    """statements / calls of a function that write into module-level containers: `NAME[k] = v`, `NAME.attr = v`, `del NAME[k]`,
    `NAME.append/extend/update/setdefault/pop/clear/...(...)`, `global NAME` rebinding - for NAME assigned at module level and not
    shadowed by a local of the function"""
    MUT = {"append", "extend", "insert", "pop", "remove", "clear", "update", "setdefault", "sort", "reverse", "discard", "add", "popitem", "__setitem__"}
    mod = set(module_names)
    local = {n.id for n in N.walk_no_nested_defs(fn) if isinstance(n, ast.Name) and isinstance(n.ctx, ast.Store)}
    a = getattr(fn, "args", None)
    if a is not None:
        local |= {x.arg for x in [*a.posonlyargs, *a.args, *a.kwonlyargs]}
    declared_global = {nm for n in ast.walk(fn) if isinstance(n, ast.Global) for nm in n.names}
    local -= declared_global
    out = []

    def base(t):
        while isinstance(t, (ast.Attribute, ast.Subscript)):
            t = t.value
        return t.id if isinstance(t, ast.Name) else None
    for n in N.walk_no_nested_defs(fn):
        tg = []
        if isinstance(n, ast.Assign):
            tg = n.targets
        elif isinstance(n, (ast.AugAssign, ast.AnnAssign)):
            tg = [n.target]
        elif isinstance(n, ast.Delete):
            tg = n.targets
        for t in tg:
            for tt in (t.elts if isinstance(t, (ast.Tuple, ast.List)) else [t]):
                b = base(tt)
                if b in mod and b not in local and (isinstance(tt, (ast.Attribute, ast.Subscript)) or b in declared_global):
                    out.append(n)
        if isinstance(n, ast.Call) and isinstance(n.func, ast.Attribute) and n.func.attr in MUT:
            b = base(n.func.value)
            if b in mod and b not in local:
                out.append(n)
    return out


def self_state_uses(fn: ast.AST) -> tuple[dict[str, list[ast.AST]], dict[str, list[ast.AST]]]:
    """(writes, reads) of instance state in a method: attribute name -> nodes.
    writes: `self.X = v`, `self.X[k] = v`, `self.X.append(..)` ..., `self.__dict__['X'] = v`, `self.__dict__.setdefault('X', d)`,
            `setattr(self, 'X', v)` / `object.__setattr__(self, 'X', v)`, and the same through a local alias `a = self.__dict__.setdefault('X', {})` /
            `a = self.X` followed by `a[k] = v` / `a.append(..)`;
    reads:  any other mention (`self.X` loaded, `self.__dict__['X']`, `self.__dict__.get('X')`, `getattr(self, 'X', ..)`, `'X' in self.__dict__`,
            `hasattr(self, 'X')`)"""
    MUT = {"append", "extend", "insert", "pop", "remove", "clear", "update", "setdefault", "sort", "reverse", "discard", "add", "popitem", "__setitem__"}
    a = getattr(fn, "args", None)
    params = [x.arg for x in [*a.posonlyargs, *a.args]] if a is not None else []
    if not params:
        return {}, {}
    me = params[0]
    writes: dict[str, list[ast.AST]] = {}
    reads: dict[str, list[ast.AST]] = {}

    def is_me(e):
        return isinstance(e, ast.Name) and e.id == me

    def is_dict_of_me(e):
        return isinstance(e, ast.Attribute) and e.attr == "__dict__" and is_me(e.value)

    def attr_of(e) -> str | None:
        "the state slot an expression denotes: self.X / self.__dict__['X'] / self.__dict__.setdefault('X', ..) / self.__dict__.get('X', ..) / getattr(self, 'X', ..)"
        if isinstance(e, ast.Attribute) and is_me(e.value) and e.attr != "__dict__":
            return e.attr
        if isinstance(e, ast.Subscript) and is_dict_of_me(e.value):
            return e.slice.value if isinstance(e.slice, ast.Constant) and isinstance(e.slice.value, str) else "<computed name>"
        if isinstance(e, ast.Call) and isinstance(e.func, ast.Attribute) and e.func.attr in ("setdefault", "get") and is_dict_of_me(e.func.value) and e.args:
            return e.args[0].value if isinstance(e.args[0], ast.Constant) and isinstance(e.args[0].value, str) else "<computed name>"
        if isinstance(e, ast.Call) and isinstance(e.func, ast.Name) and e.func.id == "getattr" and len(e.args) >= 2 and is_me(e.args[0]) \
                and isinstance(e.args[1], ast.Constant) and isinstance(e.args[1].value, str):
            return e.args[1].value
        return None
    alias: dict[str, str] = {}
    for n in N.walk_no_nested_defs(fn):
        if isinstance(n, (ast.Assign, ast.AnnAssign)) and getattr(n, "value", None) is not None:
            tg = n.targets if isinstance(n, ast.Assign) else [n.target]
            x = attr_of(n.value)
            if x is not None and len(tg) == 1 and isinstance(tg[0], ast.Name):
                alias[tg[0].id] = x

    def slot(e) -> str | None:
        "state slot reached from a store target / mutated receiver (through subscripts, and through a local alias)"
        while True:
            x = attr_of(e)
            if x is not None:
                return x
            if isinstance(e, ast.Name) and e.id in alias:
                return alias[e.id]
            if isinstance(e, ast.Subscript):
                e = e.value
                continue
            return None
    written_nodes = set()
    for n in N.walk_no_nested_defs(fn):
        tg = []
        if isinstance(n, ast.Assign):
            tg = n.targets
        elif isinstance(n, (ast.AugAssign, ast.AnnAssign)):
            tg = [n.target]
        elif isinstance(n, ast.Delete):
            tg = n.targets
        for t in tg:
            for tt in (t.elts if isinstance(t, (ast.Tuple, ast.List)) else [t]):
                if isinstance(tt, ast.Name):
                    continue  # rebinding a local (also an alias) writes nothing
                x = slot(tt)
                if x is not None:
                    writes.setdefault(x, []).append(n)
                    written_nodes.update(id(z) for z in ast.walk(tt))
                    if isinstance(n, ast.AugAssign):
                        reads.setdefault(x, []).append(n)
        if isinstance(n, ast.Call):
            if isinstance(n.func, ast.Attribute) and n.func.attr in MUT:
                if is_dict_of_me(n.func.value) and n.func.attr == "setdefault" and n.args:
                    writes.setdefault(str(n.args[0].value) if isinstance(n.args[0], ast.Constant) else "<computed name>", []).append(n)
                    written_nodes.update(id(z) for z in ast.walk(n.func))
                else:
                    x = slot(n.func.value)
                    if x is not None:
                        writes.setdefault(x, []).append(n)
            d = None
            if isinstance(n.func, ast.Name) and n.func.id == "setattr":
                d = n.args
            elif isinstance(n.func, ast.Attribute) and n.func.attr == "__setattr__" and n.args and is_me(n.args[0]):
                d = n.args
            if d and len(d) >= 2 and is_me(d[0]) and isinstance(d[1], ast.Constant) and isinstance(d[1].value, str):
                writes.setdefault(d[1].value, []).append(n)
    for n in N.walk_no_nested_defs(fn):
        if id(n) in written_nodes:
            continue
        x = attr_of(n)
        if x is None and isinstance(n, ast.Compare) and len(n.ops) == 1 and isinstance(n.ops[0], (ast.In, ast.NotIn)) and is_dict_of_me(n.comparators[0]) \
                and isinstance(n.left, ast.Constant) and isinstance(n.left.value, str):
            x = n.left.value
        if x is None and isinstance(n, ast.Call) and isinstance(n.func, ast.Name) and n.func.id == "hasattr" and len(n.args) == 2 and is_me(n.args[0]) \
                and isinstance(n.args[1], ast.Constant) and isinstance(n.args[1].value, str):
            x = n.args[1].value
        if x is None and isinstance(n, ast.Name) and isinstance(n.ctx, ast.Load) and n.id in alias:
            x = alias[n.id]
        if x is not None and isinstance(getattr(n, "ctx", ast.Load()), ast.Load):
            reads.setdefault(x, []).append(n)
    return writes, reads


def value_candidates(fn: ast.FunctionDef, name_or_none: str | None = None):
    """what a function can return, each with the branch literals under which it is produced:
    [(expression, [(test, polarity), ...])] - for `return <expr>` the expression itself; for `return <name>` every definition of that
    name (with the path literals of the defining statement).  Robust against early-return vs if/else-assign restructuring."""
    from sa.cfg import build_cfg, path_conditions

    g = build_cfg(fn)
    out = []
    first = g.entry.succ[0][0]

    def conds_of(node):
        ps = path_conditions(g, first, node) if node is not first else [[]]
        # literals common to all paths
        if not ps:
            return []
        common = None
        for p in ps:
            keyed = {(ast.dump(t), lab): (t, lab) for t, lab in p}
            common = keyed if common is None else {k: v for k, v in common.items() if k in keyed}
        return list((common or {}).values())

    for n in g.nodes:
        if n.kind == "return" and n.ast.value is not None:
            v = n.ast.value
            if isinstance(v, ast.Name) and assignments_to(fn, v.id):
                for d in g.nodes:
                    if d.kind == "stmt" and isinstance(d.ast, (ast.Assign, ast.AnnAssign)) and getattr(d.ast, "value", None) is not None:
                        tg = d.ast.targets if isinstance(d.ast, ast.Assign) else [d.ast.target]
                        if any(isinstance(t, ast.Name) and t.id == v.id for t in tg) and g.can_reach(d, n):
                            out.append((d.ast.value, conds_of(d)))
            else:
                out.append((v, conds_of(n)))
    return out
