"""E6 -- effect classifier: sources of nondeterminism, split into reseeded-by-a-config and not

The *reseeded* class is derived (sa.deps.reseeded_rngs) from what muutils' `set_reproducibility(seed)`
seeds: module-level `random.*`, legacy global `numpy.random.*`, torch's global generator.
Everything else that yields run-dependent values is *unseeded*: Generator / RandomState / Random
objects (and every module-level name bound to one, e.g. `numpy_rng`), os.urandom, secrets, uuid,
time, builtin hash()/id().
"""

from __future__ import annotations

import ast

from sa.index import SourceIndex, dotted_of

DRAW_FUNCS_RANDOM = {
    "random", "randint", "randrange", "choice", "choices", "sample", "shuffle", "uniform", "gauss", "normalvariate",
    "betavariate", "expovariate", "triangular", "getrandbits", "randbytes", "lognormvariate", "vonmisesvariate",
    "gammavariate", "paretovariate", "weibullvariate", "binomialvariate",
}
DRAW_FUNCS_NP = {
    "rand", "randn", "randint", "random", "random_sample", "ranf", "sample", "choice", "shuffle", "permutation",
    "uniform", "normal", "standard_normal", "bytes", "beta", "binomial", "poisson", "exponential", "integers",
    "random_integers", "multinomial", "geometric", "gamma", "laplace", "logistic", "lognormal", "triangular",
}
RNG_OBJECT_CTORS = {
    "numpy.random.default_rng", "numpy.random.Generator", "numpy.random.RandomState", "numpy.random.PCG64",
    "numpy.random.SeedSequence", "random.Random", "random.SystemRandom", "torch.Generator",
}
SEEDING = {"random.seed", "numpy.random.seed", "torch.manual_seed", "torch.random.manual_seed", "torch.seed",
           "muutils.mlutils.set_reproducibility", "torch.use_deterministic_algorithms", "numpy.random.set_state", "random.setstate"}
OTHER_UNSEEDED = {
    "os.urandom", "os.getrandom", "os.getpid", "uuid.uuid1", "uuid.uuid4", "time.time", "time.time_ns", "time.monotonic",
    "time.perf_counter", "time.process_time", "datetime.datetime.now", "datetime.datetime.utcnow", "datetime.now",
    "torch.random.seed", "torch.initial_seed", "id", "numpy.random.get_state", "random.getstate",
}


class Effects:
    def __init__(self, index: SourceIndex, reseeded: set[str]) -> None:
        self.ix = index
        # seeding call -> namespace whose draws it covers
        self.reseeded_ns = set()
        if "random.seed" in reseeded:
            self.reseeded_ns.add("random")
        if "numpy.random.seed" in reseeded:
            self.reseeded_ns.add("numpy.random")
        if "torch.manual_seed" in reseeded:
            self.reseeded_ns.add("torch")
        # module-level names bound to RNG objects: qualified name -> constructor
        self.rng_objects: dict[str, str] = {}
        for m in index.modules.values():
            for name, v in m.assigns.items():
                if isinstance(v, ast.Call):
                    d = dotted_of(v.func)
                    if d:
                        h_, _, r_ = d.partition(".")
                        if h_ == name and h_ in m.imports:
                            # `random = random.Random(seed)`: the right-hand side still sees the imported module
                            q = index.canonical(m.imports[h_] + ("." + r_ if r_ else ""))
                        else:
                            q = index.resolve(m, d)
                        if q in RNG_OBJECT_CTORS:
                            self.rng_objects[f"{m.name}.{name}"] = q

    def classify(self, dotted: str) -> tuple[str, str]:
        """('RESEEDED'|'UNSEEDED'|'SEEDING'|'PURE', detail) for a resolved external dotted callee name"""
        if dotted in SEEDING:
            return "SEEDING", dotted
        if dotted in RNG_OBJECT_CTORS:
            return "UNSEEDED", f"creates an RNG object ({dotted}) that no config reseeds"
        if dotted in OTHER_UNSEEDED or dotted.startswith("secrets."):
            return "UNSEEDED", f"{dotted} is run-dependent"
        head, _, last = dotted.rpartition(".")
        # calls on module-level RNG objects (possibly re-exported)
        can = self.ix.canonical(head) if head else head
        for obj, ctor in self.rng_objects.items():
            if can == obj or head == obj:
                return "UNSEEDED", f"draws from `{obj}` (= {ctor}(...)), which set_reproducibility does not reseed"
        if head == "random" and last in DRAW_FUNCS_RANDOM:
            return ("RESEEDED" if "random" in self.reseeded_ns else "UNSEEDED"), "python global random"
        if head == "numpy.random" and last in DRAW_FUNCS_NP:
            return ("RESEEDED" if "numpy.random" in self.reseeded_ns else "UNSEEDED"), "numpy legacy global RNG"
        if head == "torch" and last in {"rand", "randn", "randint", "randperm", "bernoulli", "multinomial", "normal", "rand_like", "randn_like"}:
            return ("RESEEDED" if "torch" in self.reseeded_ns else "UNSEEDED"), "torch global generator"
        return "PURE", ""
