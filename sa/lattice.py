"""shared extractors for the connection-list convention
   "dim d <-> +1 along axis d, stored at the lesser endpoint"  (C01.B2, C13.V1, C10.X2, C20.Y2)
"""

from __future__ import annotations

import ast

from sa import astx as X
from sa import normal as N
from sa.index import AnalysisError, dotted_of


def _unwrap(e: ast.AST) -> ast.AST:
    "strip int(...)/bool(...) wrappers and parentheses"
    while isinstance(e, ast.Call) and dotted_of(e.func) in ("int", "bool", "np.int8", "tuple") and len(e.args) == 1:
        e = e.args[0]
    return e


def is_argmax_abs(e: ast.AST, delta: str) -> bool:
    e = _unwrap(e)
    if isinstance(e, ast.Call) and dotted_of(e.func) in ("np.argmax", "numpy.argmax") and len(e.args) == 1:
        a = e.args[0]
        return isinstance(a, ast.Call) and dotted_of(a.func) in ("np.abs", "numpy.abs", "abs", "np.absolute") and X.U(a.args[0]) == delta
    if isinstance(e, ast.Call) and isinstance(e.func, ast.Attribute) and e.func.attr == "argmax":
        a = e.func.value
        return isinstance(a, ast.Call) and dotted_of(a.func) in ("np.abs", "numpy.abs", "abs") and X.U(a.args[0]) == delta
    return False


def zip_delta_resolver(fn: ast.AST, delta: str):
    """delta bound by `<chosen>, delta = random.choice(L)` where L = [(n, d) for n, d in zip(cur + MASK, MASK) ...]:
    then n = cur + d, i.e. delta = chosen - cur.  returns (P, Q) = (chosen, cur) or None"""
    for n in N.walk_no_nested_defs(fn):
        if isinstance(n, ast.Assign) and isinstance(n.targets[0], ast.Tuple) and len(n.targets[0].elts) == 2 \
                and X.U(n.targets[0].elts[1]) == delta and isinstance(n.value, ast.Call) and n.value.args:
            chosen = X.U(n.targets[0].elts[0])
            lst = n.value.args[0]
            defs = X.assignments_to(fn, lst.id) if isinstance(lst, ast.Name) else [lst]
            if len(defs) != 1 or not isinstance(defs[0], ast.ListComp):
                return None
            comp = defs[0]
            g = comp.generators[0]
            if not (isinstance(comp.elt, ast.Tuple) and isinstance(g.target, ast.Tuple) and [X.U(e) for e in comp.elt.elts] == [X.U(e) for e in g.target.elts]):
                return None
            it = g.iter
            if isinstance(it, ast.Call) and dotted_of(it.func) == "zip" and len(it.args) == 2 and isinstance(it.args[0], ast.BinOp) \
                    and isinstance(it.args[0].op, ast.Add) and X.U(it.args[0].right) == X.U(it.args[1]):
                return (chosen, X.U(it.args[0].left))
    return None


def lesser_endpoint_use(fn: ast.AST, array_suffix: str = "connection_list", delta_resolver=zip_delta_resolver) -> list[dict]:
    """every subscript `<array>[dim, n[0], n[1]]` (store or load) of the function whose index node is chosen by the
    lesser-endpoint idiom; returns one descriptor per use:
      {'use': text, 'store': bool, 'dim_ok': bool, 'node_ok': bool|None, 'detail': {...}}
    node_ok None = shape not understood"""
    out = []
    for n in N.walk_no_nested_defs(fn):
        if not isinstance(n, ast.Subscript):
            continue
        if not X.U(n.value).endswith(array_suffix):
            continue
        parts = N.subscript_parts(n)
        if len(parts) != 3:
            continue
        d_e, r_e, c_e = parts
        if not (isinstance(r_e, ast.Subscript) and isinstance(c_e, ast.Subscript)):
            continue
        if X.U(r_e.value) != X.U(c_e.value) or N.const_int(r_e.slice) != 0 or N.const_int(c_e.slice) != 1:
            out.append({"use": X.U(n), "store": isinstance(n.ctx, ast.Store), "dim_ok": None, "node_ok": False,
                        "detail": {"why": "row/column indices are not node[0], node[1] of one node"}})
            continue
        node_name = X.U(r_e.value)
        desc = {"use": X.U(n), "store": isinstance(n.ctx, ast.Store), "detail": {}}
        # node := A if (delta.sum() > 0) else B
        nd = X.assignments_to(fn, node_name) if node_name.isidentifier() else []
        if len(nd) != 1 or not isinstance(nd[0], ast.IfExp):
            desc.update({"dim_ok": None, "node_ok": None})
            desc["detail"]["why"] = f"`{node_name}` is not defined by a single conditional expression"
            out.append(desc)
            continue
        ife = nd[0]
        cond = N.boolean_nf(ife.test)
        # find delta name from the condition `delta.sum() OP 0`
        delta = None
        if isinstance(cond, N.Atom) and cond.diff is not None:
            syms = [k for k in cond.diff if k != 1]
            if len(syms) == 1 and (syms[0].endswith(".sum()") or syms[0].startswith(("np.sum(", "sum("))):
                delta = syms[0][: -len(".sum()")] if syms[0].endswith(".sum()") else syms[0][syms[0].index("(") + 1: -1]
        if delta is None:
            desc.update({"dim_ok": None, "node_ok": None})
            desc["detail"]["why"] = f"condition `{X.U(ife.test)}` is not `<delta>.sum() OP 0`"
            out.append(desc)
            continue
        dd = X.assignments_to(fn, delta) if delta.isidentifier() else []
        if len(dd) == 1 and isinstance(dd[0], ast.BinOp) and isinstance(dd[0].op, ast.Sub):
            P, Q = X.U(dd[0].left), X.U(dd[0].right)  # delta = P - Q ; positive sum <=> P is the greater endpoint
        else:
            pq = delta_resolver(fn, delta) if delta_resolver else None
            if pq is None:
                desc.update({"dim_ok": None, "node_ok": None})
                desc["detail"]["why"] = f"`{delta}` is not a single difference P - Q"
                out.append(desc)
                continue
            P, Q = pq
        coef = cond.diff[[k for k in cond.diff if k != 1][0]]
        const = cond.diff.get(1, 0)
        # cond normalised as  coef*S + const  OP 0  with OP in {<, <=}
        # S in {-1, +1}.  Evaluate the condition for S=+1 and S=-1.
        def holds(S):
            v = coef * S + const
            return v < 0 if cond.op == "<" else v <= 0 if cond.op == "<=" else (v == 0 if cond.op == "==" else v != 0)
        t_pos, t_neg = holds(1), holds(-1)
        then_, else_ = X.U(ife.body), X.U(ife.orelse)
        if t_pos == t_neg:
            node_ok = False
            desc["detail"]["why"] = "the condition does not separate positive from negative steps"
        else:
            chosen_when_positive = then_ if t_pos else else_
            chosen_when_negative = else_ if t_pos else then_
            # positive sum: P greater => lesser endpoint is Q
            node_ok = (chosen_when_positive == Q and chosen_when_negative == P)
        dim_name = X.U(d_e)
        dim_def = X.assignments_to(fn, dim_name) if dim_name.isidentifier() else [d_e]
        dim_ok = len(dim_def) == 1 and is_argmax_abs(dim_def[0], delta)
        desc.update({"dim_ok": dim_ok, "node_ok": node_ok})
        desc["detail"].update({"delta": f"{P} - {Q}", "condition": X.U(ife.test), "then": then_, "else": else_,
                               "dim": X.U(dim_def[0]) if dim_def else None})
        out.append(desc)
    return out


def bounds_atoms(var: str, shape: str) -> set:
    "the four atoms 0 <= var[k] < shape[k], k in {0, 1}, as keys"
    want = set()
    for k in (0, 1):
        p = X.expr_of(f"{var}[{k}]")
        want.add(N.compare_atom(ast.Constant(0), ast.LtE(), p).key())
        want.add(N.compare_atom(p, ast.Lt(), X.expr_of(f"{shape}[{k}]")).key())
    return want


def conj_atom_keys(test: ast.AST) -> set | None:
    "keys of the atoms of a pure conjunction (None if the condition contains a disjunction)"
    nf = N.boolean_nf(test)

    def rec(x):
        if isinstance(x, N.Atom):
            return {x.key()}
        if x[0] != "and":
            return None
        out = set()
        for k in x[1]:
            r = rec(k)
            if r is None:
                return None
            out |= r
        return out

    return rec(nf)
