"""static analysis of maze-dataset against the given properties (see /verif/DESIGN.md)

Nothing in this package imports `maze_dataset`; every fact is read from source with `ast`.
"""
