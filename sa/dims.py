"""E13 -- axis-extent agreement: a small dimension typing of coordinate expressions

A lattice coordinate has two components (row = axis 0, column = axis 1); the extents of the two axes differ on oblong
grids.  Every ordering comparison between a coordinate expression and a *single-axis extent* (`grid_shape[k]`,
`connection_list.shape[k+1]`) is classified:

  component c  vs extent of axis a, c == a   -> HOLDS
  component c  vs extent of axis a, c != a   -> VIOLATION  (row index bounded by the column count, or vice versa)
  whole vector vs extent of one axis         -> VIOLATION  (both components bounded by one axis: wrong on oblong grids)
  anything the typing cannot classify        -> not judged (counted in the evidence)

The typing is syntactic and local to one function: constant last subscripts select a component, a full slice / ellipsis in the
last position keeps the vector, tuple unpacking `r, c = coord` names the components, `Coord`-annotated parameters, loop
variables over `coord + NEIGHBORS_MASK`-like expressions and names that are subscripted with both 0 and 1 elsewhere in the
function are vectors.  Comparisons against the whole shape (`path < self.grid_shape`) are elementwise per axis and are fine.
"""

from __future__ import annotations

import ast

from sa import astx as X

COORD_ANN = ("Coord", "CoordTup")
COORDS_ANN = ("CoordArray", "CoordList")


def extent_axis(e: ast.AST) -> int | None:
    "axis (0 = rows, 1 = columns) if `e` is the extent of one lattice axis (or that extent plus / minus a constant: the last index)"
    if isinstance(e, ast.BinOp) and isinstance(e.op, (ast.Add, ast.Sub)) and isinstance(e.right, ast.Constant) and isinstance(e.right.value, int):
        return extent_axis(e.left)
    if not isinstance(e, ast.Subscript):
        return None
    k = e.slice
    if isinstance(k, ast.UnaryOp) and isinstance(k.op, ast.USub) and isinstance(k.operand, ast.Constant):
        kv = -k.operand.value
    elif isinstance(k, ast.Constant) and isinstance(k.value, int):
        kv = k.value
    else:
        return None
    base = X.U(e.value)
    last = base.rsplit(".", 1)[-1]
    if last in ("grid_shape", "grid_shape_np"):
        return {0: 0, 1: 1, -1: 1, -2: 0}.get(kv)
    if last == "shape" and base.rsplit(".", 2)[-2:-1] == ["connection_list"] or base == "connection_list.shape":
        return {1: 0, 2: 1, -1: 1, -2: 0}.get(kv)
    return None


def _const_index(k: ast.AST) -> int | None:
    if isinstance(k, ast.Constant) and isinstance(k.value, int) and not isinstance(k.value, bool):
        return k.value
    if isinstance(k, ast.UnaryOp) and isinstance(k.op, ast.USub) and isinstance(k.operand, ast.Constant) and isinstance(k.operand.value, int):
        return -k.operand.value
    return None


class _Typing:
    def __init__(self, fn: ast.AST) -> None:
        self.fn = fn
        self.vec: set[str] = set()
        self.vecs: set[str] = set()
        self.comp: dict[str, int] = {}
        a = getattr(fn, "args", None)
        if a is not None:
            for p in [*a.posonlyargs, *a.args, *a.kwonlyargs]:
                ann = X.U(p.annotation) if p.annotation is not None else ""
                if any(ann == t or ann.startswith(t + " ") or ann.startswith(t + "|") for t in COORD_ANN):
                    self.vec.add(p.arg)
                elif any(ann.startswith(t) for t in COORDS_ANN):
                    self.vecs.add(p.arg)
        sub_idx: dict[str, set[int]] = {}
        for n in ast.walk(fn):
            if isinstance(n, ast.Subscript) and isinstance(n.value, ast.Name):
                c = _const_index(n.slice)
                if c is not None:
                    sub_idx.setdefault(n.value.id, set()).add(c)
        for nm, idx in sub_idx.items():
            if {0, 1} <= idx and not (idx - {0, 1, -1, -2}):
                self.vec.add(nm)
        for _ in range(3):
            for n in ast.walk(fn):
                if isinstance(n, (ast.Assign, ast.AnnAssign)) and getattr(n, "value", None) is not None:
                    tg = n.targets[0] if isinstance(n, ast.Assign) else n.target
                    if isinstance(tg, ast.Tuple) and len(tg.elts) == 2 and all(isinstance(t, ast.Name) for t in tg.elts) and self.kind(n.value) == "vec":
                        self.comp[tg.elts[0].id] = 0
                        self.comp[tg.elts[1].id] = 1
                    elif isinstance(tg, ast.Name):
                        k = self.kind(n.value)
                        if k == "vec":
                            self.vec.add(tg.id)
                        elif k == "vecs":
                            self.vecs.add(tg.id)
                        ann_node = n.annotation if isinstance(n, ast.AnnAssign) else getattr(n, "_ann", None)
                        ann = X.U(ann_node) if ann_node is not None else ""
                        if any(ann == t for t in COORD_ANN):
                            self.vec.add(tg.id)
                        elif any(ann.startswith(t) for t in COORDS_ANN):
                            self.vecs.add(tg.id)
                gens = []
                if isinstance(n, ast.For):
                    gens.append((n.target, n.iter))
                if isinstance(n, (ast.ListComp, ast.SetComp, ast.GeneratorExp, ast.DictComp)):
                    gens.extend((g.target, g.iter) for g in n.generators)
                for t, it in gens:
                    if isinstance(t, ast.Name) and self.kind(it) == "vecs":
                        self.vec.add(t.id)
                    if isinstance(t, ast.Tuple) and len(t.elts) == 2 and all(isinstance(x, ast.Name) for x in t.elts) and self.kind(it) == "vecs":
                        self.comp[t.elts[0].id] = 0
                        self.comp[t.elts[1].id] = 1

    def kind(self, e: ast.AST) -> str | None:
        "'vec' (one coordinate), 'vecs' (array / list of coordinates), ('comp', c), or None"
        if isinstance(e, ast.Name):
            if e.id in self.comp:
                return ("comp", self.comp[e.id])  # type: ignore[return-value]
            if e.id in self.vec:
                return "vec"
            if e.id in self.vecs:
                return "vecs"
            if e.id == "NEIGHBORS_MASK":
                return "vecs"
            return None
        if isinstance(e, ast.Call):
            d = X.U(e.func)
            if d in ("int", "abs", "float", "np.abs", "np.int64", "np.int8") and len(e.args) == 1:
                return self.kind(e.args[0])
            if d in ("np.array", "np.asarray", "tuple", "list") and len(e.args) >= 1:
                return self.kind(e.args[0])
            if d in ("np.indices", "numpy.indices", "np.mgrid", "np.meshgrid") and e.args:
                a0 = X.U(e.args[0])
                if "grid_shape" in a0 or "connection_list.shape[1:]" in a0 or "connection_list.shape[-2:]" in a0:
                    return "vecs"  # one index grid per lattice axis, stacked: both coordinate components at once
            return None
        if isinstance(e, ast.UnaryOp):
            return self.kind(e.operand)
        if isinstance(e, ast.BinOp):
            l, r = self.kind(e.left), self.kind(e.right)
            if isinstance(e.left, ast.Constant):
                return r
            if isinstance(e.right, ast.Constant):
                return l
            if "vecs" in (l, r) and (l in ("vec", "vecs") or r in ("vec", "vecs")):
                return "vecs"
            if l == "vec" and r == "vec":
                return "vec"
            if isinstance(l, tuple) and (r is None or r == l):
                return l
            if isinstance(r, tuple) and l is None:
                return r
            return None
        if isinstance(e, ast.Subscript):
            idx = e.slice.elts if isinstance(e.slice, ast.Tuple) else [e.slice]
            last = idx[-1]
            c = _const_index(last)
            base = self.kind(e.value)
            if c is not None:
                if base == "vec" and len(idx) == 1:
                    return ("comp", {0: 0, 1: 1, -1: 1, -2: 0}.get(c, c))  # type: ignore[return-value]
                if base == "vecs" and len(idx) == 1:
                    return "vec"
                if base is None and len(idx) == 1 and c in (0, 1, -1, -2) and isinstance(e.value, (ast.Name, ast.Attribute)):
                    # `pos[0]` / `self.start_pos[1]`: a constant component of something compared with a grid extent is a coordinate component
                    return ("comp", {0: 0, 1: 1, -1: 1, -2: 0}[c])  # type: ignore[return-value]
                if len(idx) >= 2 and c in (0, 1, -1, -2):
                    # x[..., c] on an array whose last axis is the coordinate axis (edges: [n, 2, 2]; coords: [n, 2])
                    return ("comp", {0: 0, 1: 1, -1: 1, -2: 0}[c])  # type: ignore[return-value]
                return None
            if isinstance(last, (ast.Slice,)) and last.lower is None and last.upper is None and last.step is None and len(idx) >= 2:
                return "vec"
            if isinstance(last, ast.Constant) and last.value is Ellipsis and len(idx) >= 2:
                return "vec"
            if base == "vecs" and len(idx) == 1 and not isinstance(last, ast.Slice):
                return "vec"
            return None
        return None


def axis_extent_obligations(ctx, fn_info, rule: str | None = None) -> int:
    "judge every comparison against a single-axis extent in one function; returns the number of comparisons judged"
    fn = fn_info.node
    ty = _Typing(fn)
    n_judged = 0
    for cmp_ in [n for n in ast.walk(fn) if isinstance(n, ast.Compare)]:
        operands = [cmp_.left, *cmp_.comparators]
        for i, op in enumerate(cmp_.ops):
            if not isinstance(op, (ast.Lt, ast.LtE, ast.Gt, ast.GtE, ast.Eq, ast.NotEq)):
                continue
            a, b = operands[i], operands[i + 1]
            for ext, other in ((a, b), (b, a)):
                ax = extent_axis(ext)
                if ax is None:
                    continue
                if isinstance(other, ast.Constant) or extent_axis(other) is not None:
                    continue
                k = ty.kind(other)
                slot = {"comparison": X.U(cmp_), "extent": X.U(ext), "axis": ax, "operand": X.U(other), "operand_kind": list(k) if isinstance(k, tuple) else k}
                exp = "a coordinate component is bounded by the extent of its own axis (row by the row count, column by the column count)"
                if isinstance(k, tuple):
                    n_judged += 1
                    ctx.judge(fn_info, k[1] == ax, slot, exp, "row/column extents are confused: cells of an oblong grid are wrongly accepted or rejected", node=cmp_, rule=rule)
                elif k in ("vec", "vecs"):
                    n_judged += 1
                    ctx.violation(fn_info, slot, exp, "both components of a coordinate are bounded by the extent of one axis: correct only on square grids", node=cmp_, rule=rule)
                else:
                    ctx.stat("axis_extent_comparisons_not_classified")
    # flat cell indices: `major * stride + minor` - the stride must be the extent of the minor component's axis
    for b in [n for n in ast.walk(fn) if isinstance(n, ast.BinOp) and isinstance(n.op, ast.Add)]:
        for mul, minor in ((b.left, b.right), (b.right, b.left)):
            if not (isinstance(mul, ast.BinOp) and isinstance(mul.op, ast.Mult)):
                continue
            for major, stride in ((mul.left, mul.right), (mul.right, mul.left)):
                ax = extent_axis(stride)
                km, kn = ty.kind(major), ty.kind(minor)
                if ax is None or not (isinstance(km, tuple) and isinstance(kn, tuple)) or km[1] == kn[1]:
                    continue
                n_judged += 1
                slot = {"flat_index": X.U(b), "major_component": km[1], "minor_component": kn[1], "stride": X.U(stride), "stride_axis": ax}
                ctx.judge(fn_info, ax == kn[1], slot,
                          "a flat cell index `major * stride + minor` uses the extent of the minor component's axis as stride (row * n_cols + col)",
                          "distinct cells of an oblong grid collide in the flat index (or indices run out of range): membership tests confuse cells", node=b, rule=rule)
    return n_judged


# ------------------------------------------------------------------------------------------------ rule builder
LM = "maze_dataset.maze.lattice_maze"
SCOPES: dict[str, list[str]] = {
    # property -> qualified-name prefixes of the functions whose comparisons are judged under that property
    "C01": ["maze_dataset.generation.generators.", f"{LM}._fill_edges_with_walls"],
    "C02": [f"{LM}.LatticeMaze.find_shortest_path", f"{LM}.LatticeMaze.heuristic", f"{LM}.LatticeMaze.get_coord_neighbors", f"{LM}.LatticeMaze.nodes_connected"],
    "C03": [f"{LM}.LatticeMaze.generate_random_path", f"{LM}.LatticeMaze.get_connected_component", f"{LM}.LatticeMaze.get_coord_neighbors",
            f"{LM}.SolvedMaze.__init__", "maze_dataset.dataset.maze_dataset._generate_maze_helper"],
    "C06": ["maze_dataset.token_utils.", "maze_dataset.tokenization.maze_tokenizer."],
    "C09": [f"{LM}.TargetedLatticeMaze.", f"{LM}.SolvedMaze.__init__", f"{LM}.LatticeMaze.__eq__", f"{LM}.LatticeMaze.__hash__"],
    "C10": [f"{LM}.LatticeMaze._as_pixels_bw", f"{LM}.LatticeMaze.as_pixels", f"{LM}.LatticeMaze._from_pixel_grid", f"{LM}.LatticeMaze.from_pixels",
            f"{LM}.LatticeMaze.as_ascii", f"{LM}.LatticeMaze.from_ascii", f"{LM}.TargetedLatticeMaze._as_pixels", f"{LM}.SolvedMaze._as_pixels",
            f"{LM}.TargetedLatticeMaze.as_pixels", f"{LM}.SolvedMaze.as_pixels", f"{LM}.detect_pixels_type"],
    "C12": ["maze_dataset.generation.generators.", f"{LM}.LatticeMaze.gen_connected_component_from", f"{LM}.LatticeMaze.get_connected_component"],
    "C13": [f"{LM}.LatticeMaze.nodes_connected", f"{LM}.LatticeMaze.is_valid_path", f"{LM}.LatticeMaze.coord_degrees", f"{LM}.LatticeMaze.get_coord_neighbors",
            f"{LM}.LatticeMaze.gen_connected_component_from", f"{LM}.LatticeMaze.get_nodes", f"{LM}.LatticeMaze.as_adj_list", f"{LM}.LatticeMaze.from_adj_list",
            f"{LM}.SolvedMaze.get_solution_forking_points", f"{LM}.SolvedMaze.get_solution_path_following_points",
            "maze_dataset.token_utils.connection_list_to_adj_list", "maze_dataset.token_utils.is_connection", "maze_dataset.utils."],
    "C17": ["maze_dataset.dataset.rasterized.", f"{LM}._remove_isolated_cells"],
    "C20": ["maze_dataset.plotting.plot_maze."],
}


def _fixture_selfcheck(ctx) -> None:
    "expected-zero rule: a committed positive example must be flagged (and its good twin accepted) on every run"
    import os

    from sa.index import AnalysisError, SourceIndex
    from sa.report import VIOLATION, Ctx, VERIF_DIR

    fx = SourceIndex(os.path.join(VERIF_DIR, "fixtures", "dims_pkg"), package="fixture_dims", normalize=False)
    fctx = Ctx(fx, "quick")
    for f in fx.functions.values():
        axis_extent_obligations(fctx, f, rule="fixture")
    bad = {o.construct.rsplit(".", 1)[-1] for o in fctx.obligations if o.verdict == VIOLATION}
    want = {"bad_vector_vs_one_axis", "bad_swapped_component", "bad_edges", "bad_flat_index"}
    if bad != want:
        raise AnalysisError(f"positive fixture fixtures/dims_pkg not classified as expected: flagged {sorted(bad)}, wanted {sorted(want)}")
    ctx.note(f"positive fixture fixtures/dims_pkg: {len(want)} seeded row/column confusions flagged, good twins accepted")


def make_rule(prop: str, rule_id: str):
    "rule function judging every single-axis-extent comparison in the functions anchored under `prop`"
    def run(ctx) -> None:
        _fixture_selfcheck(ctx)
        prefixes = SCOPES[prop]
        n_fn = n = 0
        seen: set = set()
        for q, f in sorted(ctx.index.functions.items()):
            if not any(q == p or q.startswith(p) for p in prefixes):
                continue
            n_fn += 1
            before = len(ctx.obligations)
            n += axis_extent_obligations(ctx, f, rule=rule_id)
            # normalisation may duplicate an expression (copy propagation): one obligation per distinct comparison
            keep = []
            for o in ctx.obligations[before:]:
                k = (o.construct, o.slot.get("comparison", o.slot.get("flat_index")), o.slot.get("operand", ""), o.verdict)
                if k not in seen:
                    seen.add(k)
                    keep.append(o)
            ctx.obligations[before:] = keep
        where = ("-", f"{rule_id} scope", 0)
        ctx.holds(where, {"functions_in_scope": n_fn, "comparisons_judged": len(seen)},
                  "every ordering comparison against a single-axis extent in the anchored functions was classified (component / whole vector / not a coordinate)")
    return run
