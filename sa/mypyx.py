"""E12 -- type-resolved cross-check of the call graph (thorough tier only)

`mypy` (a dev dependency of the repository, present in /venv) is used *as a library* on the package
with follow_imports=skip: it type-checks the sources and exports, for every call expression it can
resolve, the full name of the callee.  Nothing of the repository is executed.  The edges are
compared with E3: every mypy-resolved package-internal call edge out of a function that an effect /
reachability rule consulted must be contained in E3's edge set for that function (E3 is meant to be
a sound over-approximation).  A missing edge is an ANALYSIS-ERROR (the reachability rules would be
unsound), never a violation.

Run as a subprocess (`python -m sa.mypyx --repo R`) that prints JSON and leaves through os._exit
(mypy's teardown takes seconds).
"""

from __future__ import annotations

import json
import os
import subprocess
import sys


def _collect(repo: str, package: str) -> dict:
    from mypy import build
    from mypy.find_sources import create_source_list
    from mypy.nodes import CallExpr, FuncDef, MemberExpr, Node, RefExpr
    from mypy.options import Options
    from mypy.types import Instance, get_proper_type

    os.chdir(repo)
    o = Options()
    o.preserve_asts = True
    o.export_types = True
    o.incremental = False
    o.cache_dir = os.devnull
    o.follow_imports = "skip"
    o.ignore_missing_imports = True
    o.check_untyped_defs = True
    r = build.build(create_source_list([package], o), o)
    ATTRS: dict = {}
    # syntactic children only: attributes that point from a use to its *definition* (RefExpr.node, .info, TypeInfo.defn ...)
    # would drag the callee's body into the caller
    skip = ("line", "column", "end_line", "end_column", "fullname", "name", "kind", "is_property", "node", "info", "defn", "type",
            "unanalyzed_type", "type_annotation", "original_def", "definition", "analyzed", "special_sig", "mro", "metaclass_type")

    def attrs(tp):
        a = ATTRS.get(tp)
        if a is None:
            a = [n for n in dir(tp) if not n.startswith("_") and not callable(getattr(tp, n, None)) and n not in skip]
            ATTRS[tp] = a
        return a

    edges: dict[str, set] = {}
    n_calls = n_res = 0
    for mod, f in r.files.items():
        if not mod.startswith(package):
            continue
        stack = [(f, mod)]
        seen = set()
        while stack:
            node, cur = stack.pop()
            if id(node) in seen:
                continue
            seen.add(id(node))
            if isinstance(node, FuncDef):
                cur = node.fullname
            if isinstance(node, CallExpr):
                n_calls += 1
                c = node.callee
                fn = None
                if isinstance(c, RefExpr) and c.fullname:
                    fn = c.fullname
                elif isinstance(c, MemberExpr):
                    t = r.types.get(c.expr)
                    pt = get_proper_type(t) if t is not None else None
                    if isinstance(pt, Instance):
                        m = pt.type.get(c.name)
                        if m is not None and m.node is not None and hasattr(m.node, "fullname"):
                            fn = m.node.fullname
                if fn and fn.startswith(package + "."):
                    n_res += 1
                    edges.setdefault(cur, set()).add(fn)
            for name in attrs(type(node)):
                try:
                    v = getattr(node, name)
                except Exception:
                    continue
                if isinstance(v, Node):
                    stack.append((v, cur))
                elif type(v) in (list, tuple):
                    for x in v:
                        if isinstance(x, Node):
                            stack.append((x, cur))
                        elif type(x) in (list, tuple):
                            for y in x:
                                if isinstance(y, Node):
                                    stack.append((y, cur))
    return {"edges": {k: sorted(v) for k, v in edges.items()}, "calls": n_calls, "resolved_package_calls": n_res, "diagnostics": len(r.errors)}


def mypy_edges(repo: str, package: str = "maze_dataset") -> dict:
    "run the collector in a subprocess of the same interpreter; raises RuntimeError if mypy is unavailable"
    p = subprocess.run([sys.executable, "-m", "sa.mypyx", "--repo", repo, "--package", package], capture_output=True, text=True,
                       cwd=os.path.dirname(os.path.dirname(os.path.abspath(__file__))), timeout=600)
    if p.returncode != 0 or not p.stdout.strip():
        raise RuntimeError(f"mypy cross-check failed: exit {p.returncode}: {p.stderr[-400:]}")
    return json.loads(p.stdout.strip().splitlines()[-1])


def cross_check(ctx, entries: list[str], rule_id: str) -> None:
    """obligations: for every function in E3's closure of `entries`, mypy's resolved package-internal callees are
    contained in E3's targets for that function"""
    from sa.callgraph import CallGraph
    from sa.index import AnalysisError

    try:
        data = mypy_edges(ctx.index.repo_root, ctx.index.package)
    except Exception as e:  # mypy missing / crashed: the cross-check is not available
        raise AnalysisError(f"E12 unavailable: {e}")
    cg = CallGraph(ctx.index)
    closure = cg.closure(entries)
    ctx.stat("mypy_calls_seen", data["calls"])
    ctx.stat("mypy_resolved_package_calls", data["resolved_package_calls"])
    checked = missing_total = 0
    for q in closure:
        f = ctx.index.functions[q]
        mine: set[str] = set()
        for s in cg.sites(q):
            mine |= set(s.targets)
        theirs = set(data["edges"].get(q, []))
        missing = []
        for t in sorted(theirs):
            tq = ctx.index.canonical(t)
            if tq in ctx.index.functions:
                if tq not in mine:
                    missing.append(tq)
            elif tq in ctx.index.classes:
                want = set(cg._construct(ctx.index.classes[tq]))
                if want and not (want <= mine):
                    missing.append(tq + " (constructor)")
        checked += 1
        missing_total += len(missing)
        if missing:
            ctx.unknown(f, {"mypy_resolved_callees_missing_from_E3": missing}, "E3's call edges contain every type-resolved package-internal call edge",
                        "the call graph misses an edge: reachability / effect rules over this closure would be unsound", rule=rule_id)
    where = ctx.index.functions[entries[0]]
    ctx.judge(where, True if (missing_total == 0 and checked > 0) else None, {"entries": entries, "functions_cross_checked": checked, "functions_with_mypy_edges": len(data["edges"]),
                                                         "missing_edges": missing_total, "mypy_diagnostics_ignored": data["diagnostics"]},
              "thorough tier: the hand-built call graph over-approximates mypy's type-resolved call edges on the consulted closure", rule=rule_id)


if __name__ == "__main__":
    import argparse

    ap = argparse.ArgumentParser()
    ap.add_argument("--repo", required=True)
    ap.add_argument("--package", default="maze_dataset")
    a = ap.parse_args()
    out = _collect(os.path.abspath(a.repo), a.package)
    sys.stdout.write(json.dumps(out) + "\n")
    sys.stdout.flush()
    os._exit(0)
