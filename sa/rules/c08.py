"""C08 -- dataset filters select exactly what they document and never disturb their input

Clauses: G1 registry discipline; G2 copy discipline (results never share cfg / mutated mazes with
the input); G3 provenance record appended on the new object, count updated; G4 provenance record
schema (writer keys vs reader keys); G5 filter predicates in relational normal form; G6 metadata
collection counts once per maze per key.
"""

from __future__ import annotations

import ast

from sa import astx as X
from sa import normal as N
from sa.index import AnalysisError, FuncInfo, dotted_of
from sa.report import Ctx, Rule

MD = "maze_dataset.dataset.maze_dataset"
DS = "maze_dataset.dataset.dataset"
NS = f"{MD}.MazeDatasetFilters"

EXPLANATION = (
    "Per-filter structural rules over maze_dataset/dataset/{maze_dataset,dataset}.py: decorator stacks of the "
    "filter namespace, freshness (deepcopy) of every returned dataset, position and schema of every "
    "`applied_filters.append`, and each filter's predicate compared in relational normal form with the documented rule."
)
ASSUMPTIONS = [
    "copy.deepcopy of a MazeDataset yields an object sharing no mutable state with its argument (MazeDataset.__deepcopy__ goes through serialize/load)",
    "list comprehensions and slices preserve order",
]
TRUSTED = ["ast (CPython 3.12 parser)"]

IN_PLACE_EXCEPTION = {"collect_generation_meta": "documented in-place metadata collection (inplace=True default)"}


def _filters(ctx: Ctx) -> dict[str, FuncInfo]:
    c = ctx.index.cls(NS)
    return dict(c.methods)


def rule_G1(ctx: Ctx) -> None:
    c = ctx.index.cls(NS)
    deco = c.decorator("register_filter_namespace_for_dataset")
    ok = deco is not None and deco.call is not None and len(deco.call.args) == 1 and \
        ctx.index.resolve(c.module, dotted_of(deco.call.args[0]) or "?") == f"{MD}.MazeDataset"
    ctx.judge(c, ok, {"decorators": [d.name for d in c.decorators]},
              "namespace class registered with register_filter_namespace_for_dataset(MazeDataset)")
    for name, f in c.methods.items():
        names = [d.name.rsplit(".", 1)[-1] for d in f.decorators]
        ok = len(names) == 2 and names[0] in ("register_maze_filter", "register_dataset_filter") and names[1] == "staticmethod"
        ctx.judge(f, ok, {"decorators": names},
                  "exactly one of register_maze_filter/register_dataset_filter applied over staticmethod",
                  "an unregistered function in the namespace is reachable through filter_by without copy/provenance handling")


def _wrapper(ctx: Ctx, qual: str) -> tuple[FuncInfo, ast.FunctionDef]:
    f = ctx.index.func(qual)
    for st in f.node.body:
        if isinstance(st, ast.FunctionDef) and st.name == "wrapper":
            return f, st
    raise AnalysisError(f"{qual}: inner `wrapper` not found")


def rule_G2(ctx: Ctx) -> None:
    exp = "every returned dataset is fresh: copy.deepcopy(...) / K(cfg=copy.deepcopy(...)) / a name bound only to such values"
    for name, f in _filters(ctx).items():
        kind = f.decorators[0].name.rsplit(".", 1)[-1] if f.decorators else "?"
        if kind != "register_dataset_filter":
            continue
        ds_param = f.params()[0]
        rets = X.returns_of(f.node)
        if not rets:
            ctx.unknown(f, {}, exp, "no return statement")
        for r in rets:
            fresh = r.value is not None and X.is_fresh(r.value, f.node)
            slot = {"return": X.U(r.value), "fresh": fresh}
            if fresh:
                ctx.holds(f, slot, exp, node=r)
            elif name in IN_PLACE_EXCEPTION:
                # tabulated exception: may return the input itself, but must offer the copying branch
                has_copy_branch = any(dotted_of(c.func) in X.DEEPCOPY for c in X.calls(f.node))
                ctx.judge(f, has_copy_branch, {**slot, "exception": IN_PLACE_EXCEPTION[name], "has_deepcopy_branch": has_copy_branch},
                          exp + " (tabulated exception: in-place collection, deepcopy branch under inplace=False)", node=r)
            else:
                ctx.violation(f, slot, exp,
                              "the returned dataset shares its cfg (or is) the input: the registration wrapper then appends "
                              "to and re-counts the *input's* configuration", node=r)
        # stores through a loop variable require a fresh iterated dataset
        for loop in [n for n in N.walk_no_nested_defs(f.node) if isinstance(n, ast.For) and isinstance(n.target, ast.Name)]:
            st = X.stores_through(loop, loop.target.id)
            if not st:
                continue
            it = loop.iter
            base = it
            while isinstance(base, (ast.Attribute, ast.Subscript)):
                base = base.value
            fresh = isinstance(base, ast.Name) and base.id != ds_param and X.is_fresh(base, f.node)
            slot = {"loop_over": X.U(it), "stores": [X.U(s)[:60] for s in st], "iterated_fresh": fresh}
            if fresh:
                ctx.holds(f, slot, "mazes are mutated only in a fresh copy of the dataset", node=loop)
            elif name in IN_PLACE_EXCEPTION:
                # in-place by default, but under inplace=False the loop must run over the copy: the iterated name must be
                # the result variable whose definitions are {the input (in-place branch), copy.deepcopy(input)}
                defs = [a for d in (X.assignments_to(f.node, base.id) if isinstance(base, ast.Name) else []) for a in X.alternatives(d)]
                via_copy = isinstance(base, ast.Name) and base.id != ds_param and any(X.is_fresh(d, f.node) for d in defs)
                ctx.judge(f, via_copy, {**slot, "exception": IN_PLACE_EXCEPTION[name], "iterates_result_variable_with_copy_branch": via_copy},
                          "mazes are mutated only in the dataset that is returned (the input itself only under inplace=True)",
                          "with inplace=False the *input's* mazes are mutated and the returned copy keeps its per-maze metadata", node=loop)
            else:
                ctx.violation(f, slot, "mazes are mutated only in a fresh copy of the dataset",
                              "the filter mutates maze objects that still belong to its input", node=loop)
    exp_m = ("the returned dataset owns its maze objects: the whole dataset is deep-copied, or its maze list is built from deep copies "
             "(a result that shares maze objects with the input lets the documented in-place metadata collection on the *result* "
             "strip generation_meta from the *input's* mazes)")

    def mazes_fresh(e: ast.AST, fn: ast.AST, depth: int = 0) -> bool:
        if depth > 6 or e is None:
            return False
        if isinstance(e, ast.Name):
            defs = X.assignments_to(fn, e.id)
            return bool(defs) and all(mazes_fresh(d, fn, depth + 1) for d in defs)
        if isinstance(e, ast.Call):
            if dotted_of(e.func) in X.DEEPCOPY:
                return True
            mz = N.kwarg(e, "mazes")
            if mz is None:
                return False
            if isinstance(mz, ast.Call) and dotted_of(mz.func) in X.DEEPCOPY:
                return True
            if isinstance(mz, ast.Name):
                return mazes_fresh_list(mz, fn, depth + 1)
            return mazes_fresh_list(mz, fn, depth + 1)
        return False

    def mazes_fresh_list(e: ast.AST, fn: ast.AST, depth: int) -> bool:
        if isinstance(e, ast.Name):
            defs = X.assignments_to(fn, e.id)
            return bool(defs) and all(mazes_fresh_list(d, fn, depth + 1) for d in defs) and depth < 6
        if isinstance(e, ast.Call) and dotted_of(e.func) in X.DEEPCOPY:
            return True
        ew = X.elementwise(e)
        return ew is not None and isinstance(ew[0], ast.Call) and dotted_of(ew[0].func) in X.DEEPCOPY

    # maze-filter wrapper
    f, w = _wrapper(ctx, f"{MD}.register_maze_filter")
    rets = X.returns_of(w)
    for r in rets:
        fresh = r.value is not None and X.is_fresh(r.value, w)
        ctx.judge(f, fresh, {"return": X.U(r.value), "fresh": fresh}, exp,
                  "maze-filter results share their cfg with the input dataset", node=r)
        mf = r.value is not None and mazes_fresh(r.value, w)
        ctx.judge(f, mf, {"return": X.U(r.value), "owns_its_mazes": mf}, exp_m,
                  "maze-filter results share maze objects with the input dataset: collecting metadata on the result disturbs the input", node=r)
    # custom_maze_filter
    f = ctx.index.func(f"{MD}.MazeDataset.custom_maze_filter")
    for r in X.returns_of(f.node):
        fresh = r.value is not None and X.is_fresh(r.value, f.node)
        ctx.judge(f, fresh, {"return": X.U(r.value), "fresh": fresh}, exp, "custom filter result shares cfg with the input", node=r)
        mf = r.value is not None and mazes_fresh(r.value, f.node)
        ctx.judge(f, mf, {"return": X.U(r.value), "owns_its_mazes": mf}, exp_m,
                  "custom filter results share maze objects with the input dataset: collecting metadata on the result disturbs the input", node=r)


def _append_sites(fn_node: ast.AST) -> list[ast.Call]:
    return [c for c in X.method_calls(fn_node, "append")
            if isinstance(c.func.value, ast.Attribute) and c.func.value.attr == "applied_filters"]


def rule_G3(ctx: Ctx) -> None:
    sites = []
    f1, w1 = _wrapper(ctx, f"{MD}.register_maze_filter")
    f2, w2 = _wrapper(ctx, f"{DS}.register_dataset_filter")
    f3 = ctx.index.func(f"{MD}.MazeDataset.custom_maze_filter")
    sites = [(f1, w1, "maze"), (f2, w2, "dataset"), (f3, f3.node, "custom")]
    for f, node, kind in sites:
        body = X.body_wo_doc(node)
        apps = _append_sites(node)
        exp = ("exactly one applied_filters.append on the new dataset's cfg, then update_self_config() on it, then it is "
               "returned; the record names the filter and carries args/kwargs unchanged")
        if len(apps) != 1:
            ctx.violation(f, {"append_sites": len(apps)}, exp,
                          "no provenance is recorded" if not apps else "provenance recorded more than once")
            continue
        app = apps[0]
        tgt = app.func.value  # X.cfg.applied_filters
        obj = tgt.value.value if isinstance(tgt.value, ast.Attribute) and tgt.value.attr == "cfg" else None
        objname = obj.id if isinstance(obj, ast.Name) else None
        rets = X.returns_of(node)
        ret_ok = len(rets) == 1 and isinstance(rets[0].value, ast.Name) and rets[0].value.id == objname
        # order: append < update_self_config < return, all at top level of the body
        def pos(pred):
            for i, st in enumerate(body):
                if any(pred(n) for n in ast.walk(st)):
                    return i
            return None
        p_app = pos(lambda n: n is app)
        p_upd = pos(lambda n: isinstance(n, ast.Call) and isinstance(n.func, ast.Attribute) and n.func.attr == "update_self_config"
                    and isinstance(n.func.value, ast.Name) and n.func.value.id == objname)
        p_ret = pos(lambda n: n is rets[0]) if rets else None
        p_def = pos(lambda n: isinstance(n, (ast.Assign, ast.AnnAssign)) and any(
            isinstance(t, ast.Name) and t.id == objname for t in (n.targets if isinstance(n, ast.Assign) else [n.target])))
        order_ok = None not in (p_app, p_upd, p_ret, p_def) and p_def < p_app < p_upd < p_ret
        rec = app.args[0] if app.args else None
        xp = lambda e: X.expand_locals(e, node, keep=("args", "kwargs", "method")) if e is not None else None  # through single-definition locals
        nm = xp(X.record_value(rec, "name")) if rec is not None else None
        a = xp(X.record_value(rec, "args")) if rec is not None else None
        k = xp(X.record_value(rec, "kwargs")) if rec is not None else None
        if kind == "custom":
            name_ok = isinstance(nm, ast.JoinedStr) and X.U(nm).startswith("f'__custom__:") and "method.__name__" in X.U(nm)
            args_ok = a is not None and X.U(a) in ("tuple()", "()")
        else:
            name_ok = nm is not None and X.U(nm) == "method.__name__"
            args_ok = a is not None and X.U(a) == "args"
        kw_ok = k is not None and X.U(k) == "kwargs"
        slot = {"target": X.U(tgt), "returned": X.U(rets[0].value) if rets else None, "order(def,append,update,return)": [p_def, p_app, p_upd, p_ret],
                "name": X.U(nm), "args": X.U(a), "kwargs": X.U(k)}
        ok = objname is not None and ret_ok and order_ok and name_ok and kw_ok and (args_ok or a is None)
        ctx.judge(f, ok, slot, exp, "provenance/count update missing, on the wrong object, or out of order", node=app)
    # the count update itself
    u = ctx.index.func(f"{MD}.MazeDataset.update_self_config")
    stores = [n for n in ast.walk(u.node) if isinstance(n, ast.Assign) and X.U(n.targets[0]) == "self.cfg.n_mazes"]
    ok = len(stores) == 1 and X.U(stores[0].value) in ("len(self.mazes)", "len(self)")
    ctx.judge(u, ok, {"stores": [X.U(s) for s in stores]}, "update_self_config sets cfg.n_mazes = len(self.mazes)")


def rule_G4(ctx: Ctx) -> None:
    # reader key sets
    rd = ctx.index.func(f"{DS}._load_applied_filters")
    reader_keys = X.keys_read(rd.node, "filter_info")
    ce = ctx.index.func(f"{DS}._check_filter_equality")
    for n in ast.walk(ce.node):
        if isinstance(n, ast.List) and n.elts and all(isinstance(e, ast.Constant) and isinstance(e.value, str) for e in n.elts):
            reader_keys |= {e.value for e in n.elts}
    if not {"name", "args", "kwargs"} <= reader_keys:
        ctx.note(f"reader keys extracted: {sorted(reader_keys)}")
    # every append site in the package (nested wrapper functions included)
    n_sites = 0
    for m in ctx.index.modules.values():
        for qual, fnode in X.all_function_nodes(m.tree, m.name):
            for app in _append_sites(fnode):
                n_sites += 1
                ctx.index.consulted.add(m.relpath)
                where = (m.relpath, qual, app.lineno)
                rec = app.args[0] if app.args else None
                ks = X.keys_written(rec) if rec is not None else None
                slot = {"record_keys": sorted(ks) if ks is not None else None, "reader_keys": sorted(reader_keys), "record": X.U(rec)[:120]}
                exp = "keys of every record appended to applied_filters include every key the readers subscript (name, args, kwargs)"
                if ks is None:
                    ctx.unknown(where, slot, exp, "record is not a closed dict literal / dict(...) call", node=app)
                else:
                    ctx.judge(where, reader_keys <= ks, slot, exp,
                              f"record lacks {sorted(reader_keys - ks)}: _load_applied_filters raises on reload, so the config "
                              "cannot be serialized and loaded back (and any later filter's deepcopy fails)", node=app)
    ctx.stat("applied_filters_append_sites", n_sites)


def rule_G5(ctx: Ctx) -> None:
    fl = _filters(ctx)

    def single_return(f: FuncInfo) -> ast.expr:
        r = X.returns_of(f.node)
        if len(r) != 1 or r[0].value is None:
            raise AnalysisError(f"{f.qualname}: expected a single return")
        return r[0].value

    # path_length: len(solution) >= min_length
    f = fl.get("path_length") or ctx.index.func(f"{NS}.path_length")
    mz, mn = f.params()[:2]
    ok, slot = X.relation_in(single_return(f), [f"len({mz}.solution) >= {mn}"])
    ctx.judge(f, ok, slot, "keep iff len(solution) >= min_length", "predicate differs from the documented rule")

    # start_end_distance: L1(start,end) >= min_distance
    f = fl.get("start_end_distance") or ctx.index.func(f"{NS}.start_end_distance")
    mz, mn = f.params()[:2]
    e = single_return(f)
    ok = None
    slot = {"found": X.U(e)}
    if isinstance(e, ast.Compare) and len(e.ops) == 1:
        l, r = e.left, e.comparators[0]
        op = type(e.ops[0])
        if X.U(r) == mn and N.is_l1_distance(l, f"{mz}.start_pos", f"{mz}.end_pos"):
            ok = op is ast.GtE
        elif X.U(l) == mn and N.is_l1_distance(r, f"{mz}.start_pos", f"{mz}.end_pos"):
            ok = op is ast.LtE
        elif X.U(r) == mn or X.U(l) == mn:
            dist = l if X.U(r) == mn else r
            if isinstance(dist, ast.Call) and dotted_of(dist.func) in ("np.linalg.norm", "numpy.linalg.norm"):
                ok = False  # a norm, but not the L1 norm of start-end
                slot["why"] = "norm is not the Manhattan (ord=1) distance of start_pos - end_pos"
    ctx.judge(f, bool(ok), slot, "keep iff L1(start_pos, end_pos) >= min_distance", "distance or comparison differs from the documented rule")

    # cut_percentile_shortest
    f = fl.get("cut_percentile_shortest") or ctx.index.func(f"{NS}.cut_percentile_shortest")
    dsn, pct = f.params()[:2]
    comps = [n for n in ast.walk(f.node) if isinstance(n, ast.ListComp) and n.generators[0].ifs]
    if len(comps) != 1:
        ctx.unknown(f, {"filtering_comprehensions": len(comps)}, "one filtering comprehension")
    else:
        c = X.fuse_zip(comps[0], f.node)
        g = c.generators[0]
        if not isinstance(g.target, ast.Name):
            raise AnalysisError(f"{f.qualname}: filtering comprehension with an unfamiliar target `{X.U(g.target)}`")
        v = g.target.id
        cut = "?"
        if isinstance(g.ifs[0], ast.Compare) and len(g.ifs[0].ops) == 1:
            sides = [g.ifs[0].left, g.ifs[0].comparators[0]]
            plain = [x for x in sides if isinstance(x, ast.Name)]
            cut = plain[0].id if len(plain) == 1 else "?"
        ok, slot = X.relation_in(g.ifs[0], [f"len({v}.solution) > {cut}"])
        it_ok = X.U(g.iter) in (dsn, f"{dsn}.mazes") and X.U(c.elt) == v
        cutdef = X.assignments_to(f.node, cut)
        cut_ok = len(cutdef) == 1 and isinstance(cutdef[0], ast.Call) and dotted_of(cutdef[0].func) == "int" and \
            isinstance(cutdef[0].args[0], ast.Call) and dotted_of(cutdef[0].args[0].func) in ("np.percentile", "numpy.percentile") and \
            X.U(cutdef[0].args[0].args[1]) == pct
        slot.update({"iterates": X.U(g.iter), "cutoff": X.U(cutdef[0]) if cutdef else None})
        lens_ok = None
        if cut_ok:
            src = cutdef[0].args[0].args[0]
            defs = [X.expand_locals(src, f.node)]
            img = defs[0]
            while isinstance(img, ast.Call) and dotted_of(img.func) in ("np.array", "numpy.array", "list", "np.asarray") and len(img.args) == 1:
                img = img.args[0]
            ew = X.elementwise(img)
            lens_ok = ew is not None and X.same_expr(ew[0], "len(_x.solution)") and X.U(ew[1]) in (dsn, f"{dsn}.mazes")
            slot["lengths"] = X.U(defs[0])[:100] if defs else None
        full = ok if ok is not True else (True if (it_ok and cut_ok and lens_ok) else (False if it_ok and cut_ok and lens_ok is False else None))
        ctx.judge(f, full, slot, "keep iff len(solution) > int(np.percentile(lengths, percentile)), over all mazes in order",
                  "strictness or cutoff differs from the documented rule")

    # truncate_count: mazes[:max_count]
    f = fl.get("truncate_count") or ctx.index.func(f"{NS}.truncate_count")
    dsn, mc = f.params()[:2]
    subs = [n for n in ast.walk(f.node) if isinstance(n, ast.Subscript) and isinstance(n.slice, ast.Slice) and X.U(n.value) in (f"{dsn}.mazes", dsn)]
    if len(subs) != 1:
        ctx.unknown(f, {"slices": [X.U(s) for s in subs]}, "one slice of dataset.mazes")
    else:
        sf = N.slice_form(subs[0].slice)
        want = N.slice_form(X.expr_of(f"x[:{mc}]").slice)
        ctx.judge(f, sf == want, {"slice": X.U(subs[0]), "form": sf, "expected": want}, "first max_count items: mazes[:max_count]",
                  "truncation keeps a different range")

    # remove_duplicates (canonical form: `kept = [a for i, a in enumerate(S) if not any(<too similar> for b in S[i + 1:])]`; a search loop
    # with a flag and `break`, an `any(...)` over a closure, and the nested comprehension all normalise to it)
    f = fl.get("remove_duplicates") or ctx.index.func(f"{NS}.remove_duplicates")
    dsn = f.params()[0]
    cand = []
    for n in N.walk_no_nested_defs(f.node):
        if isinstance(n, ast.ListComp) and len(n.generators) == 1 and n.generators[0].ifs:
            for t_ in n.generators[0].ifs:
                neg = isinstance(t_, ast.UnaryOp) and isinstance(t_.op, ast.Not)
                inner_ = t_.operand if neg else t_
                if isinstance(inner_, ast.Call) and dotted_of(inner_.func) in ("any", "all") and inner_.args and isinstance(inner_.args[0], (ast.GeneratorExp, ast.ListComp)):
                    cand.append((n, neg, inner_))
    exp_later = "each maze is compared with the *later* mazes of the input only: mazes[i + 1:]; it is kept iff none of them is too similar"
    if len(cand) != 1:
        # located by role: the search `any(<criteria mentioning the thresholds> for b in <domain>)`, or a loop nest comparing pairs
        searches = [c_ for c_ in X.calls(f.node) if dotted_of(c_.func) == "any" and c_.args and isinstance(c_.args[0], (ast.GeneratorExp, ast.ListComp))
                    and "minimum_difference" in X.U(c_.args[0].elt)]
        nests = [n for n in N.walk_no_nested_defs(f.node) if isinstance(n, ast.For) and any(isinstance(b_, ast.For) for b_ in n.body)]
        if len(searches) == 1:
            dom = searches[0].args[0].generators[0].iter
            later = isinstance(dom, ast.Subscript) and isinstance(dom.slice, ast.Slice) and X.U(dom.value) == f"{dsn}.mazes"
            ctx.judge(f, False if not later else None, {"search_domain": X.U(dom)}, exp_later,
                      "a maze is compared with another set (e.g. only the mazes kept so far): near-duplicate chains A~B~C keep A although a later maze is within the thresholds", node=searches[0])
        elif len(nests) == 1:
            inner_ = [b_ for b_ in nests[0].body if isinstance(b_, ast.For)][0]
            seq = nests[0].iter
            while isinstance(seq, ast.Call) and seq.args and dotted_of(seq.func) in ("reversed", "enumerate", "list", "tuple"):
                seq = seq.args[0]
            later = isinstance(inner_.iter, ast.Subscript) and isinstance(inner_.iter.slice, ast.Slice) and X.U(inner_.iter.value) == X.U(seq)
            if not later:
                ctx.violation(f, {"outer": X.U(nests[0].iter), "inner_range": X.U(inner_.iter)}, exp_later,
                              "a maze is compared with another set (e.g. only the mazes kept so far): near-duplicate chains A~B~C keep A although a later maze is within the thresholds", node=inner_)
            else:
                ctx.unknown(f, {"outer": X.U(nests[0].iter), "inner_range": X.U(inner_.iter)}, exp_later)
        else:
            ctx.unknown(f, {"filtering_comprehensions_with_any": len(cand)}, exp_later)
    else:
        comp, neg, anyc = cand[0]
        g0 = comp.generators[0]
        gi = anyc.args[0].generators[0]
        enum_ok = isinstance(g0.iter, ast.Call) and dotted_of(g0.iter.func) == "enumerate" and len(g0.iter.args) == 1 and isinstance(g0.target, ast.Tuple) and len(g0.target.elts) == 2
        slot = {"kept": X.U(comp.elt), "outer": X.U(g0.iter), "inner_range": X.U(gi.iter), "keeps_if": ("not " if neg else "") + dotted_of(anyc.func)}
        ok_inner = None
        if enum_ok:
            i_name, a_name = g0.target.elts[0].id, g0.target.elts[1].id
            seq = g0.iter.args[0]
            if isinstance(gi.iter, ast.Subscript) and isinstance(gi.iter.slice, ast.Slice):
                sf = N.slice_form(gi.iter.slice)
                want = N.slice_form(X.expr_of(f"x[{i_name} + 1:]").slice)
                ok_inner = sf == want and X.U(gi.iter.value) == X.U(seq) and X.U(seq) == f"{dsn}.mazes" and X.U(comp.elt) == a_name \
                    and neg and dotted_of(anyc.func) == "any" and len(anyc.args[0].generators) == 1 and not gi.ifs and len(g0.ifs) == 1
            else:
                ok_inner = False
        ctx.judge(f, ok_inner, slot, exp_later,
                  "comparing with itself, with earlier mazes or with the mazes kept so far removes every duplicate pair entirely / keeps the wrong copy", node=comp)
        if enum_ok and isinstance(gi.target, ast.Name):
            b_name = gi.target.id
            crit_e = anyc.args[0].elt
            while isinstance(crit_e, ast.Call) and dotted_of(crit_e.func) == "bool" and len(crit_e.args) == 1:
                crit_e = crit_e.args[0]
            nf_ = N.boolean_nf(X.substitute_len(crit_e))
            disj = list(nf_[1]) if isinstance(nf_, tuple) and nf_[0] == "or" else [nf_]
            for thr, fieldn in (("minimum_difference_connection_list", "connection_list"), ("minimum_difference_solution", "solution")):
                hit_c = [d_ for d_ in disj if thr in N.nf_str(d_)]
                if len(hit_c) != 1:
                    ctx.judge(f, False if not hit_c else None, {"threshold": thr, "disjuncts_mentioning_it": len(hit_c)}, "one threshold test per criterion",
                              "a criterion is missing: mazes that differ only in the other component are never / always considered duplicates")
                    continue
                d_ = hit_c[0]
                atoms = {a.key() for a in N.nf_atoms(d_)} if not (isinstance(d_, tuple) and d_[0] == "or") else None
                a_, b_ = f"{a_name}.{fieldn}", f"{b_name}.{fieldn}"
                dist_keys = {N.boolean_nf(X.expr_of(t.format(a=x, b=y, thr=thr))).key() for x, y in ((a_, b_), (b_, a_)) for t in (
                    "np.sum({a} != {b}) <= {thr}", "({a} != {b}).sum() <= {thr}", "np.count_nonzero({a} != {b}) <= {thr}")}
                guard_keys = {N.boolean_nf(X.expr_of(f"{thr} is not None")).key()}
                shape_keys = {N.boolean_nf(X.expr_of(f"{x}.shape == {y}.shape")).key() for x, y in ((a_, b_), (b_, a_))}
                ok = atoms is not None and bool(atoms & dist_keys) and guard_keys <= atoms and bool(atoms & shape_keys) and len(atoms) == 3
                ctx.judge(f, ok, {"found": N.nf_str(d_), "expected": f"{thr} is not None and equal shapes and count of differing entries <= {thr}"},
                          f"near-duplicate iff number of differing {fieldn} entries <= threshold", node=comp)
        rets = X.returns_of(f.node)
        used = any(isinstance(r_.value, ast.AST) and any(x is comp for x in ast.walk(X.expand_locals(r_.value, f.node))) or
                   any(isinstance(x, ast.ListComp) and X.norm_dump(x) == X.norm_dump(comp) for x in ast.walk(X.expand_locals(r_.value, f.node))) for r_ in rets if r_.value is not None)
        ctx.judge(f, used, {"returned": [X.U(r_.value)[:80] for r_ in rets]}, "the kept mazes (in input order) are what the result is built from")

    # remove_duplicates_fast: list(dict.fromkeys(mazes))
    f = fl.get("remove_duplicates_fast") or ctx.index.func(f"{NS}.remove_duplicates_fast")
    dsn = f.params()[0]
    cs = [c for c in X.calls(f.node) if dotted_of(c.func) == "dict.fromkeys"]
    ok = None
    slot = {"dict.fromkeys_calls": [X.U(c) for c in cs]}
    if cs:
        ok = len(cs) == 1 and X.U(cs[0].args[0]) in (f"{dsn}.mazes", dsn)
    else:
        sets = [c for c in X.calls(f.node) if dotted_of(c.func) in ("set", "frozenset")]
        if sets:
            ok = False
            slot["set_calls"] = [X.U(c) for c in sets]
    ctx.judge(f, ok, slot, "exact duplicates removed keeping first occurrences in order: list(dict.fromkeys(mazes))",
              "set() loses the original order / first-occurrence guarantee")


def rule_G6(ctx: Ctx) -> None:
    f = ctx.index.func(f"{NS}.collect_generation_meta")
    incs = [n for n in ast.walk(f.node) if isinstance(n, ast.AugAssign) and "gen_meta_lists" in X.U(n.target)]
    exp = "scalar values are counted with `+= 1` once per maze per key; coordinate collections with Counter.update"
    for n in incs:
        ok = isinstance(n.op, ast.Add) and N.const_int(n.value) == 1
        ctx.judge(f, ok, {"increment": X.U(n)}, exp, "a value count is not incremented by exactly one per maze", node=n)
    ups = [c for c in X.method_calls(f.node, "update") if "gen_meta_lists" in X.U(c.func.value)]
    ctx.judge(f, len(ups) >= 2, {"update_calls": [X.U(u) for u in ups]}, exp)
    # the result dict is built from every key
    fin = [n for n in ast.walk(f.node) if isinstance(n, ast.Assign) and X.U(n.targets[0]).endswith(".generation_metadata_collected")]
    ok = len(fin) == 1 and isinstance(fin[0].value, ast.DictComp) and "gen_meta_lists.items()" in X.U(fin[0].value)
    ctx.judge(f, ok, {"store": X.U(fin[0])[:120] if fin else None}, "collected metadata = {key: dict(counter)} over all keys")


def rule_G7(ctx: Ctx) -> None:
    "config-driven application = application by hand: every saved filter applied, in order, none skipped (C04.E5 re-judged)"
    from sa.rules.c04 import rule_E5, rule_E6
    rule_E6(ctx)
    rule_E5(ctx)


RULES = [
    Rule("C08.G1", rule_G1, floor=9, doc="registry discipline"),
    Rule("C08.G2", rule_G2, floor=9, doc="copy discipline"),
    Rule("C08.G3", rule_G3, floor=4, doc="provenance on the new object, in order"),
    Rule("C08.G4", rule_G4, floor=3, doc="provenance record schema: writer keys >= reader keys"),
    Rule("C08.G5", rule_G5, floor=9, doc="filter predicates"),
    Rule("C08.G6", rule_G6, floor=4, doc="metadata counts"),
    Rule("C08.G10", lambda ctx: __import__("sa.rules.c03", fromlist=["x"]).rule_P6(ctx), floor=5,
         doc="the config-driven entry point applies the recorded filters exactly once: generate hands back the raw dataset built from its results (C03.P6 re-judged)"),
    Rule("C08.G8", lambda ctx: __import__("sa.rules.c18", fromlist=["x"]).rule_H2(ctx), floor=5,
         doc="the recorded filter history survives the copies filters make (deepcopy / load of the configuration): C18.H2 loaders re-judged"),
    Rule("C08.G7", rule_G7, floor=3, doc="filters of a configuration are all applied, in order (re-judged C04.E5)"),
]

from sa import exits as _exits  # noqa: E402

RULES.append(Rule("C08.RX", _exits.make_rule("C08", "C08.RX", _exits.SCOPES["C08"]), floor=1,
                  doc="rejection conditions: the anchored functions refuse inputs only under the conditions confirmed on the pinned tree (E16)"))

from sa import exits as _exits_ms  # noqa: E402

RULES.append(Rule("C08.MS", _exits_ms.make_state_rule("C08", "C08.MS", _exits_ms.SCOPES.get("C08", [])), floor=1,
                  doc="no hidden module-level state on the anchored path: results do not depend on the history of the process (E17)"))

from sa import exits as _exits_nw  # noqa: E402

RULES.append(Rule("C08.NW", _exits_nw.make_narrowing_rule("C08", "C08.NW", _exits_nw.SCOPES.get("C08", [])), floor=1,
                  doc="no new narrowing cast (8/16-bit element types) on the anchored path: coordinates, lengths and indices do not wrap (E18)"))
