"""C02 -- shortest-path solver is sound, optimal and complete

Optimality of A* is an algorithmic fact; visible in the code are the *slots* of the A* schema.
The extractor recognises the schema (open set, g/f maps, `while open:` loop, pop-by-key,
neighbour loop) and judges each slot against an accepted / rejected set:
S1 exits; S2 expansion source; S3 unit step cost; S4 admissible heuristic towards the goal;
S5 selection by minimum f; S6 relaxation direction; S7 goal test on pop; S8 bookkeeping stores.
Each rejected value has a small counter-example maze described in the rule text.
"""

from __future__ import annotations

import ast

from sa import astx as X
from sa import lattice as L
from sa import normal as N
from sa.cfg import build_cfg
from sa.index import AnalysisError, dotted_of
from sa.report import Ctx, Rule

LM = "maze_dataset.maze.lattice_maze"
FSP = f"{LM}.LatticeMaze.find_shortest_path"

EXPLANATION = (
    "Schema recognition of A* in LatticeMaze.find_shortest_path: the loop over the open set, the pop `min(open, key=f)`, the goal "
    "test on the popped node, the neighbour loop over get_coord_neighbors (whose filter is checked as relational atoms), the "
    "affine form of the tentative cost, the heuristic's L1 form and argument order, the relaxation comparison in relational "
    "normal form, the bookkeeping stores and the single return / trailing raise."
)
ASSUMPTIONS = [
    "A* with a consistent heuristic, unit edge costs, pop-by-minimum-f, and relaxation that keeps strictly better costs is optimal "
    "and complete on finite graphs (textbook lemma; the slots are its premises)",
    "np.abs / tuple / set semantics; termination",
]
TRUSTED = ["ast"]


def _schema(ctx: Ctx) -> dict:
    f = ctx.index.func(FSP)
    loops = [n for n in f.node.body if isinstance(n, ast.While)]
    if len(loops) != 1:
        raise AnalysisError("find_shortest_path: expected one top-level while loop (an alternative algorithm is outside this schema)")
    lp = loops[0]
    open_name = X.U(lp.test)
    if not open_name.isidentifier():
        raise AnalysisError(f"loop condition `{open_name}` is not a plain open-set name")
    pops = [s for s in lp.body if isinstance(s, (ast.Assign, ast.AnnAssign)) and isinstance(s.value, ast.Call)
            and dotted_of(s.value.func) in ("min", "max", "heapq.heappop") and s.value.args and X.U(s.value.args[0]) == open_name]
    if len(pops) != 1:
        raise AnalysisError("pop-by-key statement not found")
    cur = X.U(pops[0].targets[0] if isinstance(pops[0], ast.Assign) else pops[0].target)
    nloops = [s for s in lp.body if isinstance(s, ast.For)]
    if len(nloops) != 1:
        raise AnalysisError("neighbour loop not found")
    start, goal = f.params()[1], f.params()[2]
    return {"f": f, "loop": lp, "open": open_name, "pop": pops[0], "cur": cur, "nloop": nloops[0], "start": start, "goal": goal}


def rule_S1(ctx: Ctx) -> None:
    S = _schema(ctx)
    f, lp = S["f"], S["loop"]
    rets = X.returns_of(f.node)
    exp = "the only return is inside the goal test and returns the reversed predecessor chain; after the loop the function raises ValueError"
    par = X.parents_map(f.node)
    ok_ret = False
    slot = {"returns": [X.U(r.value)[:60] for r in rets]}
    if len(rets) == 1 and rets[0].value is not None:
        n = rets[0]
        goal_if = None
        while n in par:
            n = par[n]
            if isinstance(n, ast.If):
                goal_if = n
                break
        pathv = None
        v = X.expand_locals(rets[0].value, f.node)
        for sub in ast.walk(v):
            if isinstance(sub, ast.Subscript) and isinstance(sub.slice, ast.Slice) and N.const_int(sub.slice.step) == -1:
                pathv = X.U(sub.value)
        rev_call = [c for c in ast.walk(v) if isinstance(c, ast.Call) and dotted_of(c.func) in ("reversed",) and c.args]
        if pathv is None and rev_call:
            pathv = X.U(rev_call[0].args[0])
        if pathv is None and goal_if is not None:
            # in-place reversal directly before the return: `L.reverse()` ... `return np.array(L)`
            blk = goal_if.body
            if rets[0] in blk:
                for st in blk[: blk.index(rets[0])]:
                    if isinstance(st, ast.Expr) and isinstance(st.value, ast.Call) and isinstance(st.value.func, ast.Attribute) and st.value.func.attr == "reverse" \
                            and not st.value.args and any(isinstance(x, ast.Name) and x.id == X.U(st.value.func.value) for x in ast.walk(rets[0].value)):
                        pathv = X.U(st.value.func.value)
        ok_ret = goal_if is not None and pathv is not None
        slot["reversed_chain"] = pathv
    elif any(r.value is None or (isinstance(r.value, ast.Constant) and r.value.value is None) for r in rets):
        ok_ret = False
    after = f.node.body[f.node.body.index(lp) + 1:]
    raises = [s for s in after if isinstance(s, ast.Raise)]
    exc = X.U(raises[0].exc.func) if raises and isinstance(raises[0].exc, ast.Call) else None
    slot["after_loop"] = exc
    ctx.judge(f, ok_ret and exc == "ValueError" and len(rets) == 1, slot, exp,
              "an unreachable goal yields a (None / partial) path instead of ValueError, or a path is returned before the goal is popped")
    # reconstruction: follow `source` from the goal back to the start
    src_reads = [n for n in ast.walk(f.node) if isinstance(n, ast.While) and isinstance(n.test, ast.Compare) and len(n.test.ops) == 1 and isinstance(n.test.ops[0], ast.In) and n is not lp]
    ok = None
    if src_reads:
        w = src_reads[0]
        srcname = X.U(w.test.comparators[0])
        p = X.U(w.test.left)
        if isinstance(w.test.left, ast.Name):
            # cursor form: `p = source[p]` then `L.append(p)`
            step = any(isinstance(s, ast.Assign) and X.U(s.targets[0]) == p and X.U(s.value) == f"{srcname}[{p}]" for s in w.body)
            app = any(isinstance(s, ast.Expr) and isinstance(s.value, ast.Call) and X.U(s.value.func).endswith(".append") and X.U(s.value.args[0]) == p for s in w.body)
            ia = [i for i, s in enumerate(w.body) if isinstance(s, ast.Assign)]
            ie = [i for i, s in enumerate(w.body) if isinstance(s, ast.Expr)]
            ok = bool(step and app and ia and ie and ia[0] < ie[0])
        else:
            # tail form: `while L[-1] in source: L.append(source[L[-1]])`
            lst = X.U(w.test.left.value) if isinstance(w.test.left, ast.Subscript) and N.const_int(w.test.left.slice) == -1 else None
            ok = lst is not None and len(w.body) == 1 and X.same_expr(w.body[0].value if isinstance(w.body[0], ast.Expr) else None, f"{lst}.append({srcname}[{lst}[-1]])")
    ctx.judge(f, ok, {"chain_loop": X.U(src_reads[0].test) if src_reads else None},
              "the path is rebuilt by following the predecessor map from the goal until a node without predecessor (the start)")


def rule_S2(ctx: Ctx) -> None:
    S = _schema(ctx)
    f, nl = S["f"], S["nloop"]
    ok = X.U(nl.iter) == f"self.get_coord_neighbors({S['cur']})"
    ctx.judge(f, ok, {"expands": X.U(nl.iter)}, "the neighbours expanded are exactly self.get_coord_neighbors(current)",
              "moves that are not along connections (or not from the popped node) enter the search", node=nl)
    g = ctx.index.func(f"{LM}.LatticeMaze.get_coord_neighbors")
    comps = [n for n in ast.walk(g.node) if isinstance(n, ast.ListComp)]
    exp = "get_coord_neighbors keeps c + NEIGHBORS_MASK entries that are in bounds on both axes and nodes_connected(c, neighbor)"
    if len(comps) != 1:
        ctx.unknown(g, {"comprehensions": len(comps)}, exp)
        return
    gen = comps[0].generators[0]
    nb = X.U(gen.target)
    c = g.params()[1]
    keys = L.conj_atom_keys(ast.BoolOp(op=ast.And(), values=list(gen.ifs))) if gen.ifs else set()
    want = L.bounds_atoms(nb, "self.grid_shape")
    conn = {N.boolean_nf(X.expr_of(f"self.nodes_connected({c}, {nb})")).key(), N.boolean_nf(X.expr_of(f"self.nodes_connected({nb}, {c})")).key()}
    it_ok = isinstance(gen.iter, ast.BinOp) and isinstance(gen.iter.op, ast.Add) and {X.U(gen.iter.left), X.U(gen.iter.right)} == {c, "NEIGHBORS_MASK"} \
        and X.U(comps[0].elt) == nb
    ok = None if keys is None else (want <= keys and bool(conn & keys) and it_ok)
    ctx.judge(g, ok, {"filter": [X.U(i)[:100] for i in gen.ifs], "iter": X.U(gen.iter), "missing_bounds": len(want - (keys or set())),
                      "connected_test": bool(conn & (keys or set()))}, exp,
              "a neighbour across a wall or outside the grid is returned", node=comps[0])


def rule_S3(ctx: Ctx) -> None:
    S = _schema(ctx)
    f, nl, cur = S["f"], S["nloop"], S["cur"]
    # tentative cost: the value stored into g[neighbor]
    nb = None
    for s in ast.walk(nl):
        if isinstance(s, (ast.Assign, ast.AnnAssign)) and isinstance(getattr(s, "value", None), ast.Call) and dotted_of(s.value.func) == "tuple":
            nb = X.U(s.targets[0] if isinstance(s, ast.Assign) else s.target)
    nb = nb or X.U(nl.target)
    gstores = [s for s in ast.walk(nl) if isinstance(s, ast.Assign) and isinstance(s.targets[0], ast.Subscript) and X.U(s.targets[0].slice) == nb]
    gmap = None
    tentative = None
    for s in gstores:
        v = s.value
        defs = X.assignments_to(f.node, v.id) if isinstance(v, ast.Name) else [v]
        for d in defs:
            a = N.affine(d)
            syms = [k for k in a if k != 1]
            if len(syms) == 1 and syms[0].endswith(f"[{cur}]"):
                gmap = syms[0][: -len(f"[{cur}]")]
                tentative = (X.U(s.value), a)
    exp = "tentative cost = g[current] + 1 (unit step cost)"
    if tentative is None:
        ctx.unknown(f, {"stores_into_maps_at_neighbor": [X.U(s)[:60] for s in gstores]}, exp)
        return
    a = tentative[1]
    sym = [k for k in a if k != 1][0]
    ok = a[sym] == 1 and a.get(1, 0) == 1
    ctx.judge(f, ok, {"tentative_cost": N.aff_str(a), "g_map": gmap}, exp,
              "a non-unit or zero step cost makes path length differ from the number of steps: longer paths can win", node=nl)
    S["gmap"], S["nb"], S["tentative"] = gmap, nb, tentative[0]


def _heuristic_term(S: dict) -> tuple[ast.Call | None, str | None]:
    nl = S["nloop"]
    for s in ast.walk(nl):
        if isinstance(s, ast.Assign) and isinstance(s.targets[0], ast.Subscript):
            for c in ast.walk(s.value):
                if isinstance(c, ast.Call) and X.U(c.func) in ("self.heuristic", "LatticeMaze.heuristic", "heuristic"):
                    return c, X.U(s.targets[0].value)
    return None, None


def rule_S4(ctx: Ctx) -> None:
    S = _schema(ctx)
    f = S["f"]
    rule_S3_quiet(S)
    hc, fmap = _heuristic_term(S)
    exp = ("f[neighbor] = g[neighbor] + heuristic(neighbor, goal) where heuristic is an admissible, consistent estimate on the unit lattice "
           "(L1 / L-infinity / L2 distance or 0)")
    if hc is None:
        # no heuristic = Dijkstra/BFS: admissible (h = 0)
        ctx.holds(f, {"heuristic": None}, exp, "no heuristic term: h = 0 is admissible")
        return
    args = [X.U(a) for a in hc.args]
    ok_args = len(args) == 2 and args[1] == S["goal"] and args[0] == S.get("nb")
    ctx.judge(f, ok_args, {"heuristic_call": X.U(hc), "goal": S["goal"], "neighbor": S.get("nb")},
              "the heuristic estimates the distance from the *neighbour* to the *goal*",
              "a heuristic towards the start (or from the current node) is not an admissible estimate of the remaining cost", node=hc)
    # f = g + h with unit coefficients
    st = None
    for s in ast.walk(S["nloop"]):
        if isinstance(s, ast.Assign) and any(c is hc for c in ast.walk(s.value)):
            st = s
    a = N.affine(st.value)
    hsym = [k for k in a if k != 1 and "heuristic" in str(k)]
    gsym = [k for k in a if k != 1 and "heuristic" not in str(k)]
    ok = len(hsym) == 1 and a[hsym[0]] == 1 and len(gsym) == 1 and a[gsym[0]] == 1 and a.get(1, 0) == 0
    ctx.judge(f, ok, {"f_store": X.U(st)[:100], "form": N.aff_str(a)}, "f = 1*g + 1*h exactly (a weight > 1 on h is weighted A*: not optimal)",
              "an inflated heuristic returns suboptimal paths on mazes with cycles", node=st)
    h = ctx.index.func(f"{LM}.LatticeMaze.heuristic")
    pa, pb = h.params()[-2:]
    r = X.returns_of(h.node)
    ok = None
    slot = {"heuristic_body": X.U(r[0].value) if r else None}
    if len(r) == 1:
        v = r[0].value
        if N.is_l1_distance(v, pa, pb):
            ok = True
        elif isinstance(v, ast.Constant) and v.value == 0:
            ok = True
        elif isinstance(v, ast.Call) and dotted_of(v.func) in ("max",) and len(v.args) == 2:
            ok = True  # L-infinity
        else:
            ok = False
    ctx.judge(h, ok, slot, "heuristic(a, b) = |a0 - b0| + |a1 - b1| (Manhattan; also accepted: L-infinity, L2, 0)",
              "a heuristic that can exceed the true remaining distance (coefficient > 1, squared terms, a single axis doubled) makes A* return "
              "longer-than-shortest paths: e.g. a 2x3 maze with two routes of length 3 and 5")


def rule_S3_quiet(S: dict) -> None:
    "fill S['nb'] etc. without emitting obligations (used by later rules)"
    nl, cur = S["nloop"], S["cur"]
    nb = None
    for s in ast.walk(nl):
        if isinstance(s, (ast.Assign, ast.AnnAssign)) and isinstance(getattr(s, "value", None), ast.Call) and dotted_of(s.value.func) == "tuple":
            nb = X.U(s.targets[0] if isinstance(s, ast.Assign) else s.target)
    S["nb"] = nb or X.U(nl.target)
    for s in ast.walk(nl):
        if isinstance(s, ast.Assign) and isinstance(s.targets[0], ast.Subscript) and X.U(s.targets[0].slice) == S["nb"]:
            v = s.value
            defs = X.assignments_to(S["f"].node, v.id) if isinstance(v, ast.Name) else [v]
            for d in defs:
                a = N.affine(d)
                syms = [k for k in a if k != 1]
                if len(syms) == 1 and syms[0].endswith(f"[{cur}]"):
                    S["gmap"] = syms[0][: -len(f"[{cur}]")]
                    S["tentative"] = X.U(s.value)


def rule_S5(ctx: Ctx) -> None:
    S = _schema(ctx)
    f, pop = S["f"], S["pop"]
    c = pop.value
    hc, fmap = _heuristic_term(S)
    fn = dotted_of(c.func)
    key = N.kwarg(c, "key")
    ok = None
    slot = {"pop": X.U(c)}
    if fn == "min" and isinstance(key, ast.Lambda):
        arg = key.args.args[0].arg
        ok = X.U(key.body) == f"{fmap}[{arg}]" if fmap else None
        if fmap and X.U(key.body) != f"{fmap}[{arg}]":
            ok = False
    elif fn == "min" and key is not None and fmap and X.U(key) in (f"{fmap}.get",):
        ok = True
    elif fn == "max":
        ok = False
    elif fn == "min" and key is None:
        ok = False
    ctx.judge(f, ok, slot, "the node expanded next is the open node with the minimum f (= g + h)",
              "expanding by maximum f / by g only with an early goal return / in arbitrary order returns the first path found, not the shortest", node=pop)


def rule_S6(ctx: Ctx) -> None:
    from sa.cfg import path_conditions

    S = _schema(ctx)
    rule_S3_quiet(S)
    f, nl = S["f"], S["nloop"]
    gmap, nb, tent, opn = S.get("gmap"), S.get("nb"), S.get("tentative"), S["open"]
    if not gmap or not tent:
        ctx.unknown(f, {}, "g map and tentative cost recognised")
        return
    g = build_cfg(f.node)
    loop_node = g.node_for(nl)
    gstores = [n for n in g.nodes if n.ast is not None and n.kind == "stmt" and isinstance(n.ast, ast.Assign) and isinstance(n.ast.targets[0], ast.Subscript)
               and X.U(n.ast.targets[0].value) == gmap and X.U(n.ast.targets[0].slice) == nb and g.can_reach(loop_node, n)]
    exp = ("the cost/predecessor of a neighbour that is already in the open set is overwritten only when the new cost is better "
           "(the store is reached only under `not (g_temp >= g[n])` / `not (g_temp > g[n])`); never when it is worse")
    if len(gstores) != 1:
        ctx.unknown(f, {"g_stores_at_neighbor": len(gstores)}, exp)
        return
    first = [s_ for s_, lab in loop_node.succ if lab == "next"][0]
    paths = path_conditions(g, first, gstores[0])
    known_atom = N.boolean_nf(X.expr_of(f"{nb} in {opn}"))
    better = {N.boolean_nf(X.expr_of(f"{tent} < {gmap}[{nb}]")).key(), N.boolean_nf(X.expr_of(f"{tent} <= {gmap}[{nb}]")).key()}
    worse = {N.boolean_nf(X.expr_of(f"{tent} >= {gmap}[{nb}]")).key(), N.boolean_nf(X.expr_of(f"{tent} > {gmap}[{nb}]")).key()}
    n_known = 0
    verdicts = []
    for conds in paths:
        atoms = set()
        for test, lab in conds:
            nf = N.boolean_nf(test, neg=(lab is False))
            for a in (N.nf_atoms(nf) if (isinstance(nf, N.Atom) or nf[0] == "and") else []):
                atoms.add(a.key())
        if known_atom.key() in atoms:
            n_known += 1
            if atoms & worse:
                verdicts.append("stores when the new cost is NOT better")
            elif not (atoms & better):
                verdicts.append("overwrites a known neighbour without comparing costs")
    slot = {"paths_to_cost_store": len(paths), "paths_for_known_neighbour": n_known, "problems": sorted(set(verdicts)), "tentative": tent}
    if n_known == 0:
        # no path distinguishes known neighbours: every store is unconditional
        ctx.violation(f, slot, exp, "known neighbours are overwritten unconditionally: a worse route can replace a better one", node=gstores[0].ast)
    else:
        ctx.judge(f, not verdicts, slot, exp,
                  "better routes to an open node are discarded (or worse ones kept): on a maze with two routes of different length to a junction "
                  "the longer one can survive", node=gstores[0].ast)
    # all three stores (predecessor, g, f) happen together: same path conditions
    others = [n for n in g.nodes if n.ast is not None and n.kind == "stmt" and isinstance(n.ast, ast.Assign) and isinstance(n.ast.targets[0], ast.Subscript)
              and X.U(n.ast.targets[0].slice) == nb and g.can_reach(loop_node, n) and n is not gstores[0]]
    same = all(g.dominates(gstores[0], o) or g.dominates(o, gstores[0]) for o in others)
    ctx.judge(f, same and len(others) >= 1, {"other_stores_at_neighbor": [X.U(o.ast)[:60] for o in others], "move_together": same},
              "predecessor and cost stores for a neighbour are executed together (one dominates the other)")


def rule_S7(ctx: Ctx) -> None:
    S = _schema(ctx)
    f, lp, cur = S["f"], S["loop"], S["cur"]
    goal = S["goal"]
    tests = [n for n in lp.body if isinstance(n, ast.If) and any(isinstance(s, ast.Return) for s in ast.walk(n))]
    exp = "the goal test compares the *popped* node with the goal, directly after the pop and before the expansion"
    if len(tests) != 1:
        ctx.unknown(f, {"goal_tests_in_loop_body": len(tests)}, exp)
        return
    t = tests[0]
    ok_t = isinstance(t.test, ast.Compare) and isinstance(t.test.ops[0], ast.Eq) and {X.U(t.test.left), X.U(t.test.comparators[0])} == {cur, goal}
    i_pop, i_t, i_nl = lp.body.index(S["pop"]), lp.body.index(t), lp.body.index(S["nloop"])
    pushes_goal_test = [n for n in ast.walk(S["nloop"]) if isinstance(n, ast.If) and any(isinstance(s, ast.Return) for s in ast.walk(n))]
    ctx.judge(f, ok_t and i_pop < i_t < i_nl and not pushes_goal_test,
              {"goal_test": X.U(t.test), "order(pop,test,expand)": [i_pop, i_t, i_nl], "returns_inside_expansion": len(pushes_goal_test)}, exp,
              "returning when the goal is first *seen* (pushed) instead of popped yields a non-shortest path when a shorter route is found later", node=t)
    # goal and start are normalised to tuples so that equality and dict keys agree
    pre = f.node.body[: f.node.body.index(lp)]
    norm = {X.U(s.targets[0]): X.U(s.value) for s in pre if isinstance(s, ast.Assign)}
    ok = norm.get(S["start"]) == f"tuple({S['start']})" and norm.get(goal) == f"tuple({goal})"
    ctx.judge(f, ok, {"start": norm.get(S["start"]), "goal": norm.get(goal)}, "start and goal are converted to tuples before the search (array == tuple comparisons would be ambiguous)")


def rule_S8(ctx: Ctx) -> None:
    S = _schema(ctx)
    rule_S3_quiet(S)
    f, lp, nl, cur, nb = S["f"], S["loop"], S["nloop"], S["cur"], S["nb"]
    opn = S["open"]
    gmap, tent = S.get("gmap"), S.get("tentative")
    # open set initialised with the start; removal of the popped node
    pre = f.node.body[: f.node.body.index(lp)]
    init = [s for s in pre if isinstance(s, (ast.Assign, ast.AnnAssign)) and X.U(s.targets[0] if isinstance(s, ast.Assign) else s.target) == opn]
    ok_init = len(init) == 1 and S["start"] in X.U(init[0].value) and S["goal"] not in X.U(init[0].value)
    rm = [s for s in lp.body if isinstance(s, ast.Expr) and X.U(s.value) in (f"{opn}.remove({cur})", f"{opn}.discard({cur})")]
    ctx.judge(f, ok_init and len(rm) == 1, {"open_init": X.U(init[0].value) if init else None, "removes_popped": len(rm)},
              "the open set starts as {start} and the popped node is removed from it", "the search never terminates / never starts at the start")
    # inside the expansion: predecessor and cost stores
    stores = {X.U(s.targets[0].value): X.U(s.value) for s in ast.walk(nl) if isinstance(s, ast.Assign) and isinstance(s.targets[0], ast.Subscript) and X.U(s.targets[0].slice) == nb}
    srcs = [k for k, v in stores.items() if v == cur]
    ok = len(srcs) == 1 and gmap in stores and stores[gmap] == tent
    ctx.judge(f, ok, {"stores_at_neighbor": stores}, "per accepted neighbour: predecessor[n] = current, g[n] = tentative cost (and f[n])",
              "the predecessor chain or the cost map does not describe the route that was just found")
    # the open-set insertion, read off the path conditions (independent of how the guards are nested)
    from sa.cfg import path_conditions
    g = build_cfg(f.node)
    loop_node = g.node_for(nl)
    first = [s_ for s_, lab in loop_node.succ if lab == "next"][0]
    add_nodes = [n for n in g.nodes if n.ast is not None and n.kind == "stmt" and isinstance(n.ast, ast.Expr) and X.U(n.ast.value) == f"{opn}.add({nb})" and g.can_reach(loop_node, n)]
    gst = [n for n in g.nodes if n.ast is not None and n.kind == "stmt" and isinstance(n.ast, ast.Assign) and isinstance(n.ast.targets[0], ast.Subscript)
           and X.U(n.ast.targets[0].value) == gmap and X.U(n.ast.targets[0].slice) == nb and g.can_reach(loop_node, n)]
    new_atom = N.boolean_nf(X.expr_of(f"{nb} not in {opn}")).key()
    known_atom = N.boolean_nf(X.expr_of(f"{nb} in {opn}")).key()

    def atoms_of(conds):
        out = set()
        for test, lab in conds:
            nf = N.boolean_nf(test, neg=(lab is False))
            for a in (N.nf_atoms(nf) if (isinstance(nf, N.Atom) or nf[0] == "and") else []):
                out.add(a.key())
        return out

    ok = None
    slot = {"open_add_statements": len(add_nodes)}
    if len(add_nodes) == 1 and len(gst) == 1:
        only_new = all(new_atom in atoms_of(c) for c in path_conditions(g, first, add_nodes[0]))
        store_paths = path_conditions(g, first, gst[0], with_nodes=True)
        unadded = [c for c, seen in store_paths if add_nodes[0].id not in seen and known_atom not in atoms_of(c)]
        ok = only_new and not unadded and bool(store_paths)
        slot.update({"added_only_when_not_in_open": only_new, "store_paths_for_new_neighbour_without_add": len(unadded)})
    elif not add_nodes:
        ok = False
    ctx.judge(f, ok, slot, "a neighbour not yet in the open set is added to it (every path to the cost store of a neighbour not known to be open passes the insertion)")
    # g of the start
    g0 = [s for s in pre if isinstance(s, ast.Assign) and X.U(s.targets[0]) == f"{gmap}[{S['start']}]"]
    for s in pre:
        if isinstance(s, (ast.Assign, ast.AnnAssign)) and getattr(s, "value", None) is not None and X.U(s.targets[0] if isinstance(s, ast.Assign) else s.target) == gmap \
                and isinstance(s.value, ast.Dict) and any(k is not None and X.U(k) == S["start"] for k in s.value.keys):
            g0.append(s)
    ctx.judge(f, len(g0) >= 1, {"g_start_stores": [X.U(s) for s in g0]},
              "the start has an initial cost entry (any constant offset shifts all costs uniformly and preserves their order)")
    # closed set (optional): if present, it is a skip on membership and the popped node is added
    if len(gst) == 1:
        cands = set()
        for c in path_conditions(g, first, gst[0]):
            for test, lab in c:
                for a in ast.walk(test):
                    if isinstance(a, ast.Compare) and len(a.ops) == 1 and isinstance(a.ops[0], (ast.In, ast.NotIn)) and X.U(a.left) == nb and X.U(a.comparators[0]) != opn:
                        cands.add(X.U(a.comparators[0]))
        for cname in sorted(cands):
            not_closed = N.boolean_nf(X.expr_of(f"{nb} not in {cname}")).key()
            every = all(not_closed in atoms_of(c) for c in path_conditions(g, first, gst[0]))
            add = [s_ for s_ in lp.body if isinstance(s_, ast.Expr) and X.U(s_.value) == f"{cname}.add({cur})"]
            ctx.judge(f, len(add) == 1 and every, {"closed_set": cname, "popped_added": len(add), "stores_only_for_unclosed_neighbours": every},
                      "the closed set (optional) holds exactly the popped nodes and only skips re-expansion (sound with the consistent Manhattan heuristic)")


def _abstract_graphs(thorough: bool):
    """abstract lattice graphs as edge sets: every graph on the 2x2 grid (16) and - quick tier - the cyclic witness graphs on 2x3 / 3x3
    (rings, rings with chords, detours); thorough tier: every graph on the 2x3 grid (128) as well"""
    import itertools

    def edges(r, c):
        return [((i, j), (i + 1, j)) for i in range(r - 1) for j in range(c)] + [((i, j), (i, j + 1)) for i in range(r) for j in range(c - 1)]
    out = []
    e22 = edges(2, 2)
    for bits in itertools.product((0, 1), repeat=len(e22)):
        out.append(((2, 2), {e for e, b in zip(e22, bits) if b}))
    e23 = edges(2, 3)
    if thorough:
        for bits in itertools.product((0, 1), repeat=len(e23)):
            out.append(((2, 3), {e for e, b in zip(e23, bits) if b}))
    else:
        out.append(((2, 3), set(e23)))
        out.append(((2, 3), set(e23) - {((0, 1), (1, 1))}))
        out.append(((3, 2), set(edges(3, 2))))
    e33 = edges(3, 3)
    ring = {e for e in e33 if (1, 1) not in e}
    out.append(((3, 3), set(e33)))
    out.append(((3, 3), ring))
    out.append(((3, 3), ring | {((1, 0), (1, 1))}))
    out.append(((3, 3), ring - {((0, 0), (0, 1))}))
    out.append(((3, 3), (ring | {((0, 1), (1, 1)), ((1, 1), (2, 1))}) - {((0, 2), (1, 2))}))
    out.append(((2, 4), set(edges(2, 4)) - {((0, 1), (1, 1)), ((0, 2), (1, 2))}))
    out.append(((2, 4), {e for e in edges(2, 4) if e not in {((0, 1), (1, 1)), ((0, 2), (1, 2)), ((0, 0), (1, 0))}}))
    return out


def _bfs(shape, es, a):
    adj = {}
    for u, v in es:
        adj.setdefault(u, []).append(v)
        adj.setdefault(v, []).append(u)
    dist = {a: 0}
    q = [a]
    while q:
        u = q.pop(0)
        for v in adj.get(u, []):
            if v not in dist:
                dist[v] = dist[u] + 1
                q.append(v)
    return dist


def rule_S9(ctx: Ctx) -> None:
    """bounded semantic check of the solver by abstract evaluation: on every abstract graph and every ordered pair of cells the
    interpreted find_shortest_path returns a path from start to end along edges with exactly the BFS distance, and raises ValueError
    exactly when the cells are not connected; the neighbour query is the graph oracle (its own code is judged by S2)"""
    from sa.absnp import MODELS, Arr
    from sa.absobj import AbstractClass
    from sa.fold import EvalRaised, Obj, Unknown

    graphs = _abstract_graphs(ctx.tier == "thorough")
    f = ctx.index.func(f"{LM}.LatticeMaze.find_shortest_path")
    bad, unk = [], []
    n_runs = 0
    for shape, es in graphs:
        adj = {}
        for u, v in es:
            adj.setdefault(u, []).append(v)
            adj.setdefault(v, []).append(u)
        cells = [(i, j) for i in range(shape[0]) for j in range(shape[1])]

        def neighbours(c, adj=adj):
            c = tuple(c.data) if isinstance(c, Arr) else tuple(c)
            return Arr([list(x) for x in sorted(adj.get(c, []))])
        ac = AbstractClass(ctx.index, f"{LM}.LatticeMaze", max_steps=300_000, extra_calls={**MODELS, "np.abs": lambda x: abs(x) if not isinstance(x, Arr) else Arr([abs(y) for y in x.data]),
                                                                       "np.array": MODELS["np.array"]})
        orig_hooks = ac._hooks

        def hooks(orig_hooks=orig_hooks, neighbours=neighbours):
            h = orig_hooks()
            inner = h["__call__"]

            def call(ev, node, env):
                d = dotted_of(node.func) or ""
                if d.endswith(".get_coord_neighbors") and len(node.args) == 1:
                    return neighbours(ev.ev(node.args[0], env))
                if d == "heapq.heappush" and len(node.args) == 2:
                    import heapq
                    heapq.heappush(ev.ev(node.args[0], env), ev.ev(node.args[1], env))
                    return None
                if d == "heapq.heappop" and len(node.args) == 1:
                    import heapq
                    return heapq.heappop(ev.ev(node.args[0], env))
                return inner(ev, node, env)
            h["__call__"] = call
            return h
        ac._hooks = hooks
        me = Obj("self", {"grid_shape": shape, "connection_list": "<CL>"})
        for a in cells:
            dist = _bfs(shape, es, a)
            for b in cells:
                n_runs += 1
                try:
                    got = ac.call(me, "find_shortest_path", [a, b])
                    path = [tuple(x) for x in (got.data if isinstance(got, Arr) else got)]
                    ok = b in dist and path and path[0] == a and path[-1] == b and len(path) - 1 == dist[b] \
                        and all((u, v) in es or (v, u) in es for u, v in zip(path, path[1:]))
                    res = path
                except EvalRaised as e:
                    ok = e.exc_name == "ValueError" and b not in dist
                    res = f"raises {e.exc_name}"
                except Unknown as e:
                    unk.append(str(e)[:160])
                    break
                if not ok and len(bad) < 3:
                    bad.append({"grid": shape, "edges": sorted(es), "start": a, "end": b, "found": res, "shortest": dist.get(b, "unreachable")})
            if unk:
                break
        if unk:
            break
    ctx.judge(f, False if bad else None if unk else True, {"abstract_graphs": len(graphs), "solver_runs": n_runs, "deviations": bad[:2], "undecided": unk[:1]},
              "on every abstract graph and ordered pair: a path from start to end along connections with exactly the minimum number of steps; ValueError iff not connected; [start] for start == end",
              "the solver returns a longer path than necessary, a path through a wall, or a path for unconnected cells")


RULES = [
    Rule("C02.S1", rule_S1, floor=2, doc="exits"),
    Rule("C02.S2", rule_S2, floor=2, doc="expansion source"),
    Rule("C02.S3", rule_S3, floor=1, doc="unit step cost"),
    Rule("C02.S4", rule_S4, floor=3, doc="admissible heuristic towards the goal"),
    Rule("C02.S5", rule_S5, floor=1, doc="selection by minimum f"),
    Rule("C02.S6", rule_S6, floor=2, doc="relaxation direction"),
    Rule("C02.S7", rule_S7, floor=2, doc="goal test on pop"),
    Rule("C02.S8", rule_S8, floor=4, doc="bookkeeping stores"),
    Rule("C02.S10", lambda ctx: __import__("sa.rules.c13", fromlist=["x"]).neighbour_queries_rule("C02.S10", ["C02.S2"], [])(ctx), floor=1,
         doc="bounded semantic check of the neighbour query the solver expands (supersedes S2's structural judgement of get_coord_neighbors on unrecognised forms)"),
    Rule("C02.S9", rule_S9, floor=1, doc="bounded semantic check: interpreted solver vs BFS on every abstract graph and pair"),
]

from sa import dims as _dims  # noqa: E402

RULES.append(Rule("C02.AX", _dims.make_rule("C02", "C02.AX"), floor=1,
                  doc="axis-extent agreement: coordinate components are bounded by the extent of their own axis (E13)"))

from sa import exits as _exits  # noqa: E402

RULES.append(Rule("C02.RX", _exits.make_rule("C02", "C02.RX", _exits.SCOPES["C02"]), floor=1,
                  doc="rejection conditions: the anchored functions refuse inputs only under the conditions confirmed on the pinned tree (E16)"))

from sa import exits as _exits_ms  # noqa: E402

RULES.append(Rule("C02.MS", _exits_ms.make_state_rule("C02", "C02.MS", _exits_ms.SCOPES.get("C02", [])), floor=1,
                  doc="no hidden state on the anchored path (module level, per object, memoising decorators): results do not depend on the history of the process (E17)"))

from sa import exits as _exits_nw  # noqa: E402

RULES.append(Rule("C02.NW", _exits_nw.make_narrowing_rule("C02", "C02.NW", _exits_nw.SCOPES.get("C02", [])), floor=1,
                  doc="no new narrowing cast (8/16-bit element types) on the anchored path: coordinates, lengths and indices do not wrap (E18)"))
