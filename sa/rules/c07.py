"""C07 -- legacy tokenization round-trips and agrees with its modular equivalent

Decided: structure of the legacy writer/reader and of the default-equivalence table; not the round
trip itself.  Clauses: L1 mode exhaustiveness; L2 legacy writer == modular writer on delimiters and
the reader extracts each region with the getter bound to the same delimiter pair; L3 default
equivalence (the declared defaults of the modular elements reproduce the legacy edge/path layout);
L4 dataset-level tokenization (sibling implementations); L5 parser / writer coordinate grammar;
L6 parsing pipeline of _from_tokens_AOTP.
"""

from __future__ import annotations

import ast

from sa import astx as X
from sa import normal as N
from sa.fold import Evaluator, Obj, Unknown
from sa.index import AnalysisError, dotted_of
from sa.report import Ctx, Rule
from sa.tokspace import MT, TokenizerSpace

LM = "maze_dataset.maze.lattice_maze"
TU = "maze_dataset.token_utils"
MD = "maze_dataset.dataset.maze_dataset"
CD = "maze_dataset.dataset.collected_dataset"

EXPLANATION = (
    "The legacy writer's literal token sequences are compared with the modular sequencer's (C06.T1) and with the delimiter pairs of the "
    "reader's region getters; every mode ladder is checked to cover the TokenizationMode members; the declared defaults of the modular "
    "elements are folded and compared with the layout the legacy writer emits; the coordinate-splitting regular expression is parsed "
    "(re._parser) and compared with the writer's template."
)
ASSUMPTIONS = ["from_adj_list's grid-size inference needs the largest row and column index to occur in some connection (stated in the property)",
               "the round trip itself (parse(write(maze)) == maze) is not decided"]
TRUSTED = ["ast", "re._parser (CPython) for the structure of the coordinate regular expression"]

MODES = {"AOTP_UT_rasterized", "AOTP_UT_uniform", "AOTP_CTT_indexed"}


def _members(ctx: Ctx) -> set[str]:
    return set(ctx.index.cls(f"{MT}.TokenizationMode").assigns)


def _modes_in(test: ast.AST) -> set[str]:
    return {n.attr for n in ast.walk(test) if isinstance(n, ast.Attribute) and dotted_of(n.value) == "TokenizationMode"}


def rule_L1(ctx: Ctx) -> None:
    mem = _members(ctx)
    e = ctx.index.cls(f"{MT}.TokenizationMode")
    ctx.judge(e, mem == MODES, {"members": sorted(mem)}, "the three legacy modes", "a legacy mode was added/removed: the modular mapping and the ladders below are re-judged against it")
    m = ctx.index.module(MT)
    nd = m.assigns.get("_NDINDEX_FUNC_MAP")
    keys = {X.U(k).split(".")[-1] for k in nd.keys} if isinstance(nd, ast.Dict) else set()
    ut = ctx.index.func(f"{MT}.is_UT")
    ut_modes = _modes_in(ut.node)
    where = (m.relpath, f"{MT}._NDINDEX_FUNC_MAP", m.assign_nodes["_NDINDEX_FUNC_MAP"].lineno)
    ctx.judge(where, keys == ut_modes == {"AOTP_UT_rasterized", "AOTP_UT_uniform"}, {"ndindex_map": sorted(keys), "is_UT": sorted(ut_modes)},
              "the coordinate-order table covers exactly the unique-token modes", "a UT mode has no coordinate order (KeyError when its vocabulary is built)")
    # every if/elif ladder over modes in MazeTokenizer covers all members, with a raising else
    c = ctx.index.cls(f"{MT}.MazeTokenizer")
    for name in ("_node_strings_map", "_token_arr", "coords_to_strings"):
        f = c.methods[name]
        ladders = [n for n in f.node.body if isinstance(n, ast.If) and _modes_in(n.test)]
        if not ladders:
            ctx.unknown(f, {"ladders": 0}, "a ladder over tokenization modes")
            continue
        seen = set()
        else_raises = False
        for n in ladders:
            while True:
                seen |= _modes_in(n.test)
                if len(n.orelse) == 1 and isinstance(n.orelse[0], ast.If):
                    n = n.orelse[0]
                else:
                    else_raises = else_raises or any(isinstance(s_, ast.Raise) for s_ in n.orelse)
                    break
        # (normalised form: every branch returns, the fall-through after the last test raises)
        last = ladders[-1]
        after = f.node.body[f.node.body.index(last) + 1:]
        else_raises = else_raises or (bool(after) and isinstance(after[0], ast.Raise))
        ctx.judge(f, seen == mem and else_raises, {"modes_handled": sorted(seen), "else_raises": else_raises},
                  "the mode ladder handles every TokenizationMode member and raises otherwise", "a mode falls through to the wrong branch / returns None")
    ao = c.methods["is_AOTP"]
    ctx.judge(ao, _modes_in(ao.node) == mem, {"modes": sorted(_modes_in(ao.node))}, "all legacy modes are AOTP")
    from sa.rules.c15 import rule_N7
    rule_N7(ctx)


def _token_list(node: ast.AST) -> list[str] | None:
    if not isinstance(node, ast.List):
        return None
    out = []
    for e in node.elts:
        d = dotted_of(e)
        if d and d.split(".")[0] in ("SPECIAL_TOKENS", "VOCAB"):
            out.append(d.split(".")[-1])
        elif isinstance(e, ast.Starred):
            out.append("*")
        else:
            out.append("_")
    return out


def rule_L2(ctx: Ctx) -> None:
    lm = ctx.index.cls(f"{LM}.LatticeMaze")
    f = lm.methods["_as_adj_list_tokens"]
    r = X.returns_of(f.node)
    seq = _token_list(r[0].value) if r else None
    ctx.judge(f, seq == ["ADJLIST_START", "*", "ADJLIST_END"], {"sequence": seq}, "legacy adjacency region: ADJLIST_START, edges..., ADJLIST_END")
    inner = [n for n in ast.walk(f.node) if isinstance(n, ast.ListComp) and isinstance(n.elt, ast.List)]
    edge = _token_list(inner[0].elt) if inner else None
    ok = edge == ["_", "CONNECTOR", "_", "ADJACENCY_ENDLINE"] and X.same_expr(inner[0].elt.elts[0], "tuple(c_s)") and X.same_expr(inner[0].elt.elts[2], "tuple(c_e)") \
        and X.same_expr(inner[0].generators[0].iter, "self.as_adj_list()")
    ctx.judge(f, ok, {"edge_layout": edge}, "legacy edge layout: [coord, CONNECTOR, coord, ENDLINE] for every row of as_adj_list()", "the legacy edge layout changed: the modular defaults no longer reproduce it")
    t = ctx.index.cls(f"{LM}.TargetedLatticeMaze")
    for meth, want, attr in (("_get_start_pos_tokens", ["ORIGIN_START", "_", "ORIGIN_END"], "self.start_pos"), ("_get_end_pos_tokens", ["TARGET_START", "_", "TARGET_END"], "self.end_pos")):
        g = t.methods[meth]
        r = X.returns_of(g.node)
        seq = _token_list(r[0].value) if r else None
        ok = seq == want and X.same_expr(r[0].value.elts[1], f"tuple({attr})")
        ctx.judge(g, ok, {"sequence": seq}, f"{want[0]}, tuple({attr}), {want[2]}", "start and end are written into each other's region")
    s = ctx.index.cls(f"{LM}.SolvedMaze").methods["_get_solution_tokens"]
    r = X.returns_of(s.node)
    seq = _token_list(r[0].value) if r else None
    ok = seq == ["PATH_START", "*", "PATH_END"] and X.same_expr(r[0].value.elts[1].value, "[tuple(c) for c in self.solution]")
    ctx.judge(s, ok, {"sequence": seq}, "PATH_START, every solution cell in order, PATH_END")
    w = lm.methods["_as_coords_and_special_AOTP"]
    order = []
    for st in w.node.body:
        txt = X.U(st)
        for key in ("_as_adj_list_tokens", "_get_start_pos_tokens", "_get_end_pos_tokens", "_get_solution_tokens"):
            if key in txt:
                guard = X.U(st.test) if isinstance(st, ast.If) else None
                order.append((key, guard))
    want = [("_as_adj_list_tokens", None), ("_get_start_pos_tokens", "isinstance(self, TargetedLatticeMaze)"), ("_get_end_pos_tokens", "isinstance(self, TargetedLatticeMaze)"),
            ("_get_solution_tokens", "isinstance(self, SolvedMaze)")]
    ctx.judge(w, order == want, {"order": order}, "the legacy writer concatenates adjacency, origin, target, path - in that order, each only for the maze kinds that have it (same order as the modular AOTP sequencer, C06.T1)",
              "legacy and modular writers disagree on the region order / a region is written for a kind that lacks it")
    # reader getters bound to the same delimiter pairs
    pairs = {"get_adj_list_tokens": ("ADJLIST_START", "ADJLIST_END"), "get_origin_tokens": ("ORIGIN_START", "ORIGIN_END"), "get_target_tokens": ("TARGET_START", "TARGET_END")}
    for gname, (a, b) in pairs.items():
        g = ctx.index.func(f"{TU}.{gname}")
        c = [x for x in X.calls(g.node) if dotted_of(x.func) == "tokens_between"]
        ok = len(c) == 1 and [X.U(x).split(".")[-1] for x in c[0].args[1:3]] == [a, b] and X.U(N.kwarg(c[0], "include_start") or ast.Constant(False)) == "False" \
            and X.U(N.kwarg(c[0], "include_end") or ast.Constant(False)) == "False"
        ctx.judge(g, ok, {"call": X.U(c[0]) if c else None}, f"{gname} returns the tokens strictly between {a} and {b}", "a region is read with another region's delimiters / including a delimiter")
    gp = ctx.index.func(f"{TU}.get_path_tokens")
    sd = X.assignments_to(gp.node, "start_idx")
    ed = [d for d in X.assignments_to(gp.node, "end_idx") if not (isinstance(d, ast.Constant) and d.value is None)]
    # normalised shape: `end_idx = tokens.index(PATH_END) if trim_end and PATH_END in tokens else None`
    ed_ok = False
    if len(ed) == 1 and isinstance(ed[0], ast.IfExp):
        rel, _ = X.same_relation(ed[0].test, "trim_end and SPECIAL_TOKENS.PATH_END in tokens")
        ed_ok = bool(rel) and X.same_expr(ed[0].body, "tokens.index(SPECIAL_TOKENS.PATH_END)") and isinstance(ed[0].orelse, ast.Constant) and ed[0].orelse.value is None
    ok = len(sd) == 1 and X.same_expr(sd[0], "tokens.index(SPECIAL_TOKENS.PATH_START) + int(trim_end)") and ed_ok
    ctx.judge(gp, ok, {"start_idx": X.U(sd[0]) if sd else None, "end_idx": X.U(ed[0]) if ed else None},
              "get_path_tokens(trim_end=True) returns the tokens strictly between PATH_START and PATH_END")


def rule_L3(ctx: Ctx) -> None:
    sp = TokenizerSpace(ctx.index)

    def default_of(qual: str) -> Obj:
        return sp.construct(ctx.index.cls(f"{MT}.{qual}"), {})

    def short(o):
        if isinstance(o, Obj):
            return {"cls": o.cls.replace(MT + ".", ""), **{k: short(v) for k, v in o.attrs.items()}}
        if isinstance(o, tuple):
            return [short(x) for x in o]
        return o
    top = default_of("MazeTokenizerModular")
    got = short(top)
    want = {"cls": "MazeTokenizerModular", "prompt_sequencer": {
        "cls": "PromptSequencers.AOTP",
        "coord_tokenizer": {"cls": "CoordTokenizers.UT"},
        "adj_list_tokenizer": {"cls": "AdjListTokenizers.AdjListCoord", "pre": False, "post": True, "shuffle_d0": True,
                               "edge_grouping": {"cls": "EdgeGroupings.Ungrouped", "connection_token_ordinal": 1},
                               "edge_subset": {"cls": "EdgeSubsets.ConnectionEdges", "walls": False},
                               "edge_permuter": {"cls": "EdgePermuters.RandomCoords"}},
        "target_tokenizer": {"cls": "TargetTokenizers.Unlabeled", "post": False},
        "path_tokenizer": {"cls": "PathTokenizers.StepSequence", "step_size": {"cls": "StepSizes.Singles"},
                           "step_tokenizers": [{"cls": "StepTokenizers.Coord"}], "pre": False, "intra": False, "post": False}}}
    c = ctx.index.cls(f"{MT}.MazeTokenizerModular")
    diffs = []
    def cmp(a, b, path=""):
        if isinstance(a, dict) and isinstance(b, dict):
            for k in sorted(set(a) | set(b)):
                if k not in a or k not in b:
                    diffs.append(f"{path}.{k}: {a.get(k)!r} vs {b.get(k)!r}")
                else:
                    cmp(a[k], b[k], f"{path}.{k}")
        elif isinstance(a, list) and isinstance(b, list) and len(a) == len(b):
            for i, (x, y) in enumerate(zip(a, b)):
                cmp(x, y, f"{path}[{i}]")
        elif a != b:
            diffs.append(f"{path}: {a!r} vs {b!r}")
    cmp(got, want)
    ctx.judge(c, not diffs, {"default_tokenizer": got, "differences_from_legacy_layout": diffs},
              "the default MazeTokenizerModular is the legacy layout: UT coordinates; edges `coord <--> coord ;` (connector at ordinal 1, no pre, endline post, connections only, "
              "ungrouped); unlabeled target without post; path = every solution cell as a coordinate without delimiters",
              "the tokenizer declared equivalent to the legacy modes emits other tokens than the legacy writer")
    ctt = default_of("CoordTokenizers.CTT")
    ctx.judge(ctx.index.cls(f"{MT}.CoordTokenizers.CTT"), ctt.attrs == {"pre": True, "intra": True, "post": True}, {"defaults": ctt.attrs},
              "CTT defaults pre = intra = post = True reproduce the legacy indexed form ( i , j )")
    ind = ctx.index.func(f"{TU}._coord_to_strings_indexed")
    r = X.returns_of(ind.node)
    ok = len(r) == 1 and X.same_expr(r[0].value, "['(', *list_join([str(c) for c in coord], lambda: ','), ')']")
    ctx.judge(ind, ok, {"returns": X.U(r[0].value) if r else None}, "legacy indexed form: '(', i, ',', j, ')'")


def rule_L4(ctx: Ctx) -> None:
    for q in (f"{MD}.MazeDataset.as_tokens", f"{CD}.MazeDatasetCollection.as_tokens"):
        f = ctx.index.func(q)
        out = X.assignments_to(f.node, "output")
        ok = len(out) == 1 and X.same_expr(out[0], "[maze.as_tokens(maze_tokenizer) for maze in self.mazes[:limit]]")
        ifs = [n for n in f.node.body if isinstance(n, ast.If)]
        tail = (ifs[0].orelse or f.node.body[f.node.body.index(ifs[0]) + 1:]) if ifs else []
        ok2 = len(ifs) == 1 and X.U(ifs[0].test) == "join_tokens_individual_maze" and X.same_stmt(ifs[0].body[0], "return [' '.join(tokens) for tokens in output]") \
            and len(tail) == 1 and X.same_stmt(tail[0], "return output")
        ctx.judge(f, ok and ok2, {"per_maze": X.U(out[0]) if out else None},
                  "dataset tokenization = per-maze tokenization of self.mazes[:limit] in order; joined with single spaces iff join_tokens_individual_maze",
                  "the limit is ignored/off by one, mazes are reordered, or the join option is inverted")
        d = f.param_default("limit")
        ctx.judge(f, isinstance(d, ast.Constant) and d.value is None, {"limit_default": X.U(d)}, "limit defaults to None (all mazes)")
    a = ctx.index.func(f"{LM}.LatticeMaze.as_tokens")
    from sa import dtable as DT

    pa = a.params()
    rows = DT.table(a.node, {"modular": [f"isinstance_by_type_name({pa[1]}, 'MazeTokenizerModular')", f"isinstance({pa[1]}, MazeTokenizerModular)"]})
    okt, rep = DT.judge_table(rows, lambda asg: (lambda o: o[0] == "return" and X.same_expr(o[1], f"{pa[1]}.to_tokens({pa[0]})", f"{pa[1]}.to_tokens(maze={pa[0]})")) if asg["modular"]
                              else (lambda o: o[0] == "return" and X.same_expr(o[1], f"{pa[0]}._as_tokens({pa[1]})", f"{pa[0]}._as_tokens(maze_tokenizer={pa[1]})")))
    ctx.judge(a, okt, {"table": rep}, "as_tokens dispatches: modular tokenizer -> its to_tokens(self); otherwise the legacy writer")


def rule_L5(ctx: Ctx) -> None:
    import re._parser as sre

    f = ctx.index.func(f"{TU}.coords_string_split_UT")
    c = [x for x in X.calls(f.node) if dotted_of(x.func) == "re.findall"]
    ok = None
    slot = {}
    if len(c) == 1 and isinstance(c[0].args[0], ast.Constant):
        pat = c[0].args[0].value
        slot["pattern"] = pat
        try:
            got = repr(sre.parse(pat))
            want = repr(sre.parse(r"\([^)]*\)|\S+"))
            ok = got == want and X.U(c[0].args[1]) == f.params()[0]
        except Exception as e:  # a pattern that does not parse
            ok = False
            slot["error"] = str(e)
    ctx.judge(f, ok, slot, "tokens are split as: a parenthesised group without ')' inside (one UT coordinate, e.g. '(12,3)'), or a run of non-space characters",
              "multi-digit / comma-containing coordinate tokens are split in the wrong place")
    w = ctx.index.func(f"{TU}._coord_to_strings_UT")
    r = X.returns_of(w.node)
    ctx.judge(w, len(r) == 1 and X.same_expr(r[0].value, "[f\"({','.join(str(c) for c in coord)})\"]", "[f\"({','.join((str(c) for c in coord))})\"]"),
              {"returns": X.U(r[0].value) if r else None}, "the writer's coordinate template '(i,j)' (no spaces) is matched by the first alternative of the splitter")
    t = ctx.index.func(f"{TU}.coord_str_to_tuple")
    r = X.returns_of(t.node)
    ok = len(r) == 1 and X.same_expr(r[0].value, "tuple(int(strip_func(x)) for x in stripped.split(','))")
    st = X.assignments_to(t.node, "stripped")
    ok = ok and len(st) == 1 and X.same_expr(st[0], "strip_func(coord_str.lstrip('(').rstrip(')'))")
    ctx.judge(t, ok, {"returns": X.U(r[0].value) if r else None}, "a coordinate string is parsed as the comma-separated integers between the parentheses, in order")
    # strings_to_coords / coords_to_strings by abstract evaluation over a symbolic token sequence, for each when_noncoord policy and
    # for list and space-joined string input (models: the UT splitter splits at spaces; '(i,j)' strings are the coordinates)
    from sa.fold import EvalRaised, Evaluator, Unknown

    def hooks(ev, node, env):
        d = dotted_of(node.func) or ""
        if d == "warnings.warn":
            return None
        if d == "coords_string_split_UT" and node.args:
            return str(ev.ev(node.args[0], env)).split()
        if d == "coord_str_to_tuple_noneable" and node.args:
            t_ = ev.ev(node.args[0], env)
            return tuple(int(x) for x in t_[1:-1].split(",")) if isinstance(t_, str) and t_.startswith("(") and t_.endswith(")") else None
        if d == "str_is_coord" and node.args:
            t_ = ev.ev(node.args[0], env)
            return isinstance(t_, str) and t_.startswith("(") and t_.endswith(")")
        if d == "coord_str_to_tuple" and node.args:
            t_ = ev.ev(node.args[0], env)
            return tuple(int(x) for x in t_[1:-1].split(","))
        if d == "isinstance" and len(node.args) == 2 and X.U(node.args[1]) in ("str", "tuple", "list"):
            return isinstance(ev.ev(node.args[0], env), {"str": str, "tuple": tuple, "list": list}[X.U(node.args[1])])
        if d == "coord_to_strings_func" and node.args:
            c_ = ev.ev(node.args[0], env)
            return [f"({c_[0]},{c_[1]})"]
        return NotImplemented

    def run(fn, env):
        try:
            return Evaluator({"__call__": hooks}).run_body(X.body_wo_doc(fn.node), env)
        except EvalRaised as e:
            return f"raises {e.exc_name}"

    sc = ctx.index.func(f"{TU}.strings_to_coords")
    toks = ["(1,2)", "<-->", "(3,4)", ";", "(10,0)"]
    coords = [(1, 2), "<-->", (3, 4), ";", (10, 0)]
    want_s2c = {"skip": [(1, 2), (3, 4), (10, 0)], "error": "raises ValueError", "include": coords, "bogus": "raises ValueError"}
    bad, unk = [], []
    p_s = sc.params()
    for pol, want in want_s2c.items():
        for text in (list(toks), " ".join(toks)):
            try:
                got = run(sc, {p_s[0]: text, p_s[1]: pol})
            except Unknown as e:
                unk.append(str(e)[:120])
                continue
            if got != want:
                bad.append({"when_noncoord": pol, "input": "list" if isinstance(text, list) else "string", "found": repr(got)[:120], "expected": repr(want)[:120]})
    try:
        got = run(sc, {p_s[0]: ["(1,2)", "(3,4)"], p_s[1]: "error"})
        if got != [(1, 2), (3, 4)]:
            bad.append({"when_noncoord": "error", "input": "coordinates only", "found": repr(got)[:120]})
    except Unknown as e:
        unk.append(str(e)[:120])
    ctx.judge(sc, False if bad else None if unk else True, {"deviations": bad[:3], "undecided": unk[:2]},
              "strings_to_coords: list and string inputs parse alike; non-coordinates are skipped / rejected / kept as they are according to when_noncoord; coordinates are converted in order",
              "special tokens are dropped or duplicated while converting between coordinates and strings")
    cs_ = ctx.index.func(f"{TU}.coords_to_strings")
    p_c = cs_.params()
    want_c2s = {"skip": ["(1,2)", "(3,4)", "(10,0)"], "error": "raises ValueError", "include": toks, "bogus": "raises ValueError"}
    bad, unk = [], []
    for pol, want in want_c2s.items():
        try:
            got = run(cs_, {p_c[0]: list(coords), p_c[1]: "<coord_to_strings_func>", p_c[2]: pol})
        except Unknown as e:
            unk.append(str(e)[:120])
            continue
        if got != want:
            bad.append({"when_noncoord": pol, "found": repr(got)[:120], "expected": repr(want)[:120]})
    ctx.judge(cs_, False if bad else None if unk else True, {"deviations": bad[:3], "undecided": unk[:2]},
              "coords_to_strings: non-coordinates are skipped / rejected / kept as they are according to when_noncoord; coordinates are converted in order",
              "special tokens are dropped or duplicated while converting between coordinates and strings")
    ic = ctx.index.func(f"{TU}.str_is_coord")
    pi_ = ic.params()
    samples = [("(1,2)", True), ("(10,3)", True), ("(0,49)", True), ("(12,13)", True), (" (1, 2) ", True), ("(1,2,3)", True), ("<PATH_START>", False), ("(1)", False),
               ("1,2", False), ("(a,b)", False), ("(1,)", False), ("(,)", False), ("", False), ("<-->", False), (";", False)]
    bad, unk = [], []
    for txt_, want in samples:
        try:
            got = Evaluator({"__call__": hooks}).run_body(X.body_wo_doc(ic.node), {pi_[0]: txt_, pi_[1]: True})
        except EvalRaised as e:
            got = f"raises {e.exc_name}"
        except Unknown as e:
            unk.append(str(e)[:120])
            continue
        if bool(got) is not want or isinstance(got, str):
            bad.append({"token": txt_, "found": got, "expected": want})
    ctx.judge(ic, False if bad else None if unk else True, {"samples": len(samples), "deviations": bad[:3], "undecided": unk[:2]},
              "a token is a coordinate iff it is '(' digits ',' digits ... ')' - multi-digit indices included",
              "coordinates with multi-digit (or some) indices are not recognised: from_tokens drops or rejects them on larger grids")


def rule_L6(ctx: Ctx) -> None:
    f = ctx.index.func(f"{LM}.LatticeMaze._from_tokens_AOTP")
    t = X.U(f.node)
    ed = X.assignments_to(f.node, "edges")
    ok = len(ed) == 1 and X.same_expr(ed[0], "list_split(adj_list_tokens, SPECIAL_TOKENS.ADJACENCY_ENDLINE)")
    conv = "maze_tokenizer.strings_to_coords(e, when_noncoord='include')"
    tests = [X.expand_locals(a_.test, f.node) for a_ in ast.walk(f.node) if isinstance(a_, ast.Assert)]
    has_len = any(X.relation_in(t_, [f"len({conv}) == 3"])[0] for t_ in tests)
    has_conn = any(X.relation_in(t_, [f"{conv}[1] == SPECIAL_TOKENS.CONNECTOR"])[0] for t_ in tests)
    apps = [c_ for c_ in X.method_calls(f.node, "append") if c_.args]
    elts = [X.expand_locals(c_.args[0], f.node) for c_ in apps] + [X.expand_locals(n_.elt, f.node) for n_ in ast.walk(f.node) if isinstance(n_, ast.ListComp)]
    keeps = any(X.same_expr(e_, f"({conv}[0], {conv}[-1])", f"({conv}[0], {conv}[2])") for e_ in elts)
    ok = ok and has_len and has_conn and keeps
    ctx.judge(f, ok, {"edges": X.U(ed[0]) if ed else None}, "edges are the ENDLINE-separated pieces of the adjacency region: exactly [coord, CONNECTOR, coord]; the two coords are kept in order")
    om = X.assignments_to(f.node, "output_maze")
    ok = bool(om) and X.same_expr(om[0], "cls.from_adj_list(adj_list)")
    tl = [c for c in X.calls(f.node) if X.U(c.func) == "TargetedLatticeMaze.from_lattice_maze"]
    ok = ok and len(tl) == 1 and X.same_expr_x(N.kwarg(tl[0], "start_pos"), f.node, "start_pos_list[0]", keep=("start_pos_list",)) \
        and X.same_expr_x(N.kwarg(tl[0], "end_pos"), f.node, "end_pos_list[0]", keep=("end_pos_list",))
    sp = X.assignments_to(f.node, "start_pos_list")
    ep = X.assignments_to(f.node, "end_pos_list")
    ok = ok and len(sp) == 1 and "get_origin_tokens(tokens)" in X.U(sp[0]) and len(ep) == 1 and "get_target_tokens(tokens)" in X.U(ep[0])
    ctx.judge(f, ok, {"start_from": X.U(sp[0])[:80] if sp else None, "end_from": X.U(ep[0])[:80] if ep else None},
              "start comes from the ORIGIN region and end from the TARGET region", "a parsed maze has start and end exchanged")
    sol = X.assignments_to(f.node, "solution")
    ok = len(sol) == 1 and "get_path_tokens(tokens, trim_end=True)" in X.U(sol[0])
    sm = [c for c in X.calls(f.node) if X.U(c.func) == "SolvedMaze.from_targeted_lattice_maze"]
    ok = ok and len(sm) == 1 and X.U(N.kwarg(sm[0], "solution")) == "solution" and X.U(N.kwarg(sm[0], "targeted_lattice_maze")) == "output_maze"
    ctx.judge(f, ok, {"solution_from": X.U(sol[0])[:90] if sol else None}, "the solution is the PATH region's coordinates in order, attached to the parsed targeted maze")
    kinds = [(n, X.expand_locals(n.test, f.node)) for n in f.node.body if isinstance(n, ast.If)]
    kinds = [(n, t_) for n, t_ in kinds if isinstance(t_, ast.Call) and dotted_of(t_.func) == "all"]
    got = []
    for n, t_ in kinds:
        got.append(sorted(a.attr for a in ast.walk(t_) if isinstance(a, ast.Attribute) and dotted_of(a.value) == "SPECIAL_TOKENS"))
        ew = X.elementwise(t_.args[0]) if t_.args else None
        if ew is None or not X.same_expr(ew[0], "_x in tokens"):
            got[-1] = ["<not a membership test of every delimiter in tokens>"]
    ok = got == [["ORIGIN_END", "ORIGIN_START", "TARGET_END", "TARGET_START"], ["PATH_END", "PATH_START"]]
    ctx.judge(f, ok, {"kind_tests": got}, "kind of the parsed maze: targeted iff all four origin/target delimiters are present; solved iff additionally both path delimiters are")
    ft = ctx.index.func(f"{LM}.LatticeMaze.from_tokens")
    from sa import dtable as DT

    pf = ft.params()
    tk, mt = pf[1], pf[2]
    conv_mt = f"{mt}.to_legacy_tokenizer()"
    atoms = {"mode_given": [f"isinstance_by_type_name({mt}, 'TokenizationMode')"],
             "modular": [f"isinstance_by_type_name({mt}, 'MazeTokenizerModular')", f"isinstance_by_type_name({conv_mt}, 'MazeTokenizerModular')"],
             "legacy_equivalent": [f"{mt}.is_legacy_equivalent()", f"{conv_mt}.is_legacy_equivalent()"],
             "string_input": [f"isinstance({tk}, str)"],
             "aotp": [f"{mt}.is_AOTP()", f"{conv_mt}.is_AOTP()"]}
    rows = DT.table(ft.node, atoms)

    def expected(a):
        if a["mode_given"] and a["modular"]:
            return lambda o: True  # a TokenizationMode is converted to a legacy tokenizer: it is not a modular one (combination cannot occur)
        if a["modular"] and not a["legacy_equivalent"]:
            return lambda o: o == ("raise", "NotImplementedError")
        if not a["aotp"]:
            return lambda o: o == ("raise", "NotImplementedError")
        m_ = conv_mt if a["mode_given"] else mt
        t_ = f"{tk}.split()" if a["string_input"] else tk
        return lambda o: o[0] == "return" and X.same_expr(o[1], f"{pf[0]}._from_tokens_AOTP({t_}, {m_})")
    okt, rep = DT.judge_table(rows, expected)
    ctx.judge(ft, okt, {"rows": len(rep), "deviations": [r_ for r_ in rep if r_["ok"] is False][:3], "undecided": [r_ for r_ in rep if r_["ok"] is None][:2]},
              "from_tokens accepts a list or a space-joined string (split at whitespace); only legacy tokenizers and legacy-equivalent modular ones are supported",
              "a space-joined token string is not split (or split differently), or unsupported tokenizers are parsed as if legacy")
    at = ctx.index.func(f"{LM}.LatticeMaze._as_tokens")
    cs = [c for c in X.calls(at.node) if X.U(c.func) == "maze_tokenizer.coords_to_strings"]
    ok = len(cs) == 1 and X.same_expr_x(N.kwarg(cs[0], "coords") or (cs[0].args[0] if cs[0].args else None), at.node, "self._as_coords_and_special_AOTP()") \
        and X.same_expr(N.kwarg(cs[0], "when_noncoord"), "'include'")
    ctx.judge(at, ok, {}, "the legacy writer converts the coordinate tuples with the tokenizer's own coords_to_strings, keeping the special tokens")


RULES = [
    Rule("C07.L1", rule_L1, floor=9, doc="mode exhaustiveness"),
    Rule("C07.L2", rule_L2, floor=10, doc="legacy writer/reader delimiters"),
    Rule("C07.L3", rule_L3, floor=3, doc="default-equivalence table"),
    Rule("C07.L4", rule_L4, floor=5, doc="dataset-level tokenization (siblings)"),
    Rule("C07.L5", rule_L5, floor=6, doc="parser / writer coordinate grammar and conversion loops"),
    Rule("C07.L6", rule_L6, floor=6, doc="parsing pipeline"),
    Rule("C07.L8", lambda ctx: __import__("sa.rules.c13", fromlist=["x"]).neighbour_queries_rule("C07.L8", [], [], which={"as_adj_list", "from_adj_list"})(ctx), floor=1,
         doc="parsing rebuilds the maze from its adjacency list: as_adj_list / from_adj_list by bounded abstract evaluation on every small maze, cyclic ones included (as C13.V8)"),
    Rule("C07.L7", lambda ctx: (__import__("sa.rules.c13", fromlist=["x"]).judge_is_connection(
        ctx, "is_connection reads connection_list[direction, lesser endpoint] of each edge (C13.V1 re-judged: the modular adjacency list marks an edge as "
             "connection / wall through it, and must agree with the legacy list)"),
        __import__("sa.rules.c06", fromlist=["x"]).rule_T4(ctx)), floor=2,
         doc="'legacy and modular tokens agree' rests on the edge lookup and the connector maps of the modular adjacency tokenizers: C13.V1 (is_connection) and C06.T4 re-judged"),
]

from sa import exits as _exits  # noqa: E402

RULES.append(Rule("C07.RX", _exits.make_rule("C07", "C07.RX", _exits.SCOPES["C07"]), floor=1,
                  doc="rejection conditions: the anchored functions refuse inputs only under the conditions confirmed on the pinned tree (E16)"))

from sa import exits as _exits_ms  # noqa: E402

RULES.append(Rule("C07.MS", _exits_ms.make_state_rule("C07", "C07.MS", _exits_ms.SCOPES.get("C07", [])), floor=1,
                  doc="no hidden module-level state on the anchored path: results do not depend on the history of the process (E17)"))

from sa import exits as _exits_nw  # noqa: E402

RULES.append(Rule("C07.NW", _exits_nw.make_narrowing_rule("C07", "C07.NW", _exits_nw.SCOPES.get("C07", [])), floor=1,
                  doc="no new narrowing cast (8/16-bit element types) on the anchored path: coordinates, lengths and indices do not wrap (E18)"))
