"""C18 -- configurations round-trip exactly and have stable, discriminating identities

Clauses: H1 every identity field is serialised and enters a hashlib-based hash of the serialized
content; H2 field loaders read their own key and restore the documented shapes (generator by
registered name, coordinate lists as tuples, filter args as tuples); H3 file-name components;
H4 collection config.
"""

from __future__ import annotations

import ast

from sa import astx as X
from sa import normal as N
from sa.dcmodel import DataclassModel
from sa.index import AnalysisError, dotted_of
from sa.report import Ctx, Rule

MD = "maze_dataset.dataset.maze_dataset"
DS = "maze_dataset.dataset.dataset"
CD = "maze_dataset.dataset.collected_dataset"
CFG = f"{MD}.MazeDatasetConfig"
IDENTITY = ["name", "grid_n", "n_mazes", "maze_ctor", "maze_ctor_kwargs", "endpoint_kwargs", "seed", "applied_filters"]

EXPLANATION = (
    "Field table of MazeDatasetConfig (and bases) from the dataclass model: serialize flags, serialization/loading lambdas and the keys "
    "they read; the generated serialize/load of muutils (read from source) decide what is stored and how loaders are called; "
    "stable_hash_cfg and to_fname are compared structurally with their documented composition."
)
ASSUMPTIONS = ["json.dumps of the serialized dict is deterministic for equal dicts built in field order (dict order = field order)",
               "sha256 collisions are not considered"]
TRUSTED = ["ast", "muutils 0.6.21 source (read): generated serialize/load, stable_hash"]


def rule_H1(ctx: Ctx) -> None:
    model = DataclassModel(ctx.index, ctx.deps)
    if not ctx.deps.sdc_serialize_skips_nonserialized():
        raise AnalysisError("muutils generated serialize no longer honours field.serialize")
    for q in (CFG, "maze_dataset.dataset.rasterized.RasterizedMazeDatasetConfig"):
        c = ctx.index.cls(q)
        allf = ctx.index.all_fields(c)
        ser = {f.name for f in model.serialized_fields(c)}
        missing = [n for n in IDENTITY if n not in allf]
        not_ser = sorted(n for n in allf if n not in ser)
        ctx.judge(c, not missing and not [n for n in not_ser if n in IDENTITY or n in ("remove_isolated_cells", "extend_pixels", "endpoints_as_open")],
                  {"fields": list(allf), "not_serialized": not_ser, "missing_identity_fields": missing},
                  "every identifying field (name, grid_n, n_mazes, maze_ctor, maze_ctor_kwargs, endpoint_kwargs, seed, applied_filters) is serialised",
                  "two configurations differing in this field serialize, hash and name their cache file identically")
    h = ctx.index.func(f"{CFG}.stable_hash_cfg")
    r = X.returns_of(h.node)
    ok = len(r) == 1 and X.same_expr(r[0].value, "stable_hash(json.dumps(self.serialize()))")
    ctx.judge(h, ok and ctx.deps.stable_hash_is_hashlib(), {"returns": X.U(r[0].value) if r else None, "stable_hash_is_hashlib": ctx.deps.stable_hash_is_hashlib()},
              "the hash is a hashlib digest of the JSON text of the *whole* serialized config (no builtin hash(), nothing omitted)",
              "the identity depends on PYTHONHASHSEED or ignores part of the configuration")
    # option dictionaries are stored as they are (every key, whatever its value)
    for fname in ("maze_ctor_kwargs", "endpoint_kwargs"):
        fi = ctx.index.all_fields(ctx.index.cls(CFG))[fname]
        sfn = fi.kwarg("serialization_fn")
        ok = sfn is None or (isinstance(sfn, ast.Lambda) and (X.U(sfn.body) == sfn.args.args[0].arg or X.same_expr(sfn.body, f"dict({sfn.args.args[0].arg})", f"{sfn.args.args[0].arg}.copy()")))
        ctx.judge(fi.owner, ok, {"field": fname, "serialization_fn": X.U(sfn)[:120] if sfn is not None else None},
                  f"`{fname}` is serialised as the whole dict (identity / a copy): every option that was set is stored, including falsy values",
                  "options set to a falsy value (False, None, []) vanish on serialization: the reloaded config is unequal, and configs differing only in them share hash and file name")
    # the generator is serialised by name (and reloaded by that name)
    mc = ctx.index.all_fields(ctx.index.cls(CFG))["maze_ctor"]
    sf = mc.kwarg("serialization_fn")
    ok = isinstance(sf, ast.Lambda) and isinstance(sf.body, ast.Dict) and X.same_expr(X.record_value(sf.body, "__name__"), f"{sf.args.args[0].arg}.__name__")
    ctx.judge(mc.owner, ok, {"maze_ctor.serialization_fn": X.U(sf)[:160] if sf is not None else None},
              "the generator function is stored with its __name__ (the key GENERATORS_MAP is indexed by)")


def rule_H2(ctx: Ctx) -> None:
    if not ctx.deps.sdc_loading_fn_gets_whole_data() or ctx.deps.sdc_load_field_order() != ["deserialize_fn", "loading_fn"]:
        raise AnalysisError("muutils generated load no longer calls loading_fn(data) / deserialize_fn(value)")
    fields = ctx.index.all_fields(ctx.index.cls(CFG))
    for name in ("maze_ctor", "maze_ctor_kwargs", "endpoint_kwargs"):
        f = fields[name]
        lf = f.kwarg("loading_fn")
        exp = f"loading_fn of `{name}` reads data['{name}'] (its own key) and restores the documented value"
        if not isinstance(lf, ast.Lambda):
            ctx.unknown(f.owner, {"field": name, "loading_fn": X.U(lf)}, exp)
            continue
        arg = lf.args.args[0].arg
        keys = X.keys_read(lf.body, arg)
        own = keys == {name}
        extra = {}
        ok = own
        if name == "maze_ctor":
            ok = ok and X.same_expr(lf.body, f"_load_maze_ctor({arg}['maze_ctor'])")
        elif name == "maze_ctor_kwargs":
            ok = ok and isinstance(lf.body, ast.IfExp) and X.same_expr(lf.body.orelse, f"{arg}['maze_ctor_kwargs']") and X.same_expr(lf.body.body, "dict()", "{}")
        elif name == "endpoint_kwargs":
            # {k: v if (isinstance(v, bool) or v is None) else [tuple(x) for x in v] for k, v in data['endpoint_kwargs'].items()}
            dc = lf.body.orelse if isinstance(lf.body, ast.IfExp) else None
            tup = False
            if isinstance(dc, ast.DictComp) and isinstance(dc.value, ast.IfExp):
                conv = dc.value.orelse
                ew = X.elementwise(conv)
                tup = ew is not None and ew[2] == "list" and X.same_expr(ew[0], "tuple(_x)") and X.U(ew[1]) == X.U(dc.generators[0].target.elts[1])
                okt, _ = X.relation_in(dc.value.test, [f"isinstance({X.U(dc.generators[0].target.elts[1])}, bool) or {X.U(dc.generators[0].target.elts[1])} is None"])
                tup = tup and okt and X.same_expr(dc.generators[0].iter, f"{arg}['endpoint_kwargs'].items()") and X.U(dc.key) == X.U(dc.generators[0].target.elts[0])
            extra["coordinate_lists_restored_as_tuples"] = tup
            ok = ok and tup
        ctx.judge(f.owner, ok, {"field": name, "keys_read": sorted(keys), **extra, "loading_fn": X.U(lf)[:200]}, exp,
                  "the loaded configuration gets another field's value / coordinate lists come back as lists (config != original, endpoint sets never match)")
    lm = ctx.index.func(f"{MD}._load_maze_ctor")
    sub = [n for n in ast.walk(lm.node) if isinstance(n, ast.Subscript) and X.U(n.value) == "GENERATORS_MAP"]
    ok = len(sub) == 2 and any(X.same_expr(n.slice, f"{lm.params()[0]}['__name__']") for n in sub)
    ctx.judge(lm, ok, {"lookups": [X.U(n) for n in sub]}, "the generator is restored as GENERATORS_MAP[serialized['__name__']] (C01.B6: keys are the functions' own names)",
              "a reloaded config uses another generator than the one it was saved with")
    af = fields["applied_filters"]
    df = af.kwarg("deserialize_fn")
    ok = df is not None and X.U(df) == "_load_applied_filters"
    la = ctx.index.func(f"{DS}._load_applied_filters")
    lc = [n for n in ast.walk(la.node) if isinstance(n, ast.ListComp)]
    rec_ok = False
    if len(lc) == 1:
        fi = X.U(lc[0].generators[0].target)
        rec_ok = X.same_expr(X.record_value(lc[0].elt, "name"), f"{fi}['name']") and X.same_expr(X.record_value(lc[0].elt, "args"), f"tuple({fi}['args'])") \
            and X.same_expr(X.record_value(lc[0].elt, "kwargs"), f"dict({fi}['kwargs'])") and X.U(lc[0].generators[0].iter) == la.params()[0] and not lc[0].generators[0].ifs
    ctx.judge(la, ok and rec_ok, {"deserialize_fn": X.U(df), "record": X.U(lc[0].elt)[:160] if lc else None},
              "applied_filters are reloaded entry by entry, in order, with args restored as a tuple",
              "a reloaded config's filter list differs from the original (list vs tuple args, dropped entries)")


def rule_H3(ctx: Ctx) -> None:
    f = ctx.index.func(f"{CFG}.to_fname")
    r = X.returns_of(f.node)
    js = [n for n in ast.walk(r[0].value) if isinstance(n, ast.JoinedStr)] if r else []
    exp = "file name = sanitize_fname(f'{name}-g{grid_n}-n{short(n_mazes)}-a_{maze_ctor name without gen_}-h{stable_hash_cfg() % 10**5}')"
    if len(js) != 1:
        ctx.unknown(f, {"fstrings": len(js)}, exp)
        return
    parts = []
    for v in js[0].values:
        if isinstance(v, ast.Constant):
            parts.append(("lit", v.value))
        else:
            parts.append(("expr", v.value))
    want = [("expr", "self.name"), ("lit", "-g"), ("expr", "self.grid_n"), ("lit", "-n"), ("expr", "shorten_numerical_to_str(self.n_mazes)"),
            ("lit", "-a_"), ("expr", "self.maze_ctor.__name__.removeprefix('gen_')"), ("lit", "-h"), ("expr", "self.stable_hash_cfg() % 10 ** 5")]
    ok = len(parts) == len(want)
    if ok:
        for (k, v), (wk, wv) in zip(parts, want):
            if k != wk:
                ok = False
            elif k == "lit":
                ok = ok and v == wv
            else:
                if wv.endswith("% 10 ** 5"):
                    ok = ok and isinstance(v, ast.BinOp) and isinstance(v.op, ast.Mod) and X.U(v.left) == "self.stable_hash_cfg()" and N.const_int(v.right) == 100000
                else:
                    ok = ok and X.same_expr(v, wv)
    wrap = len(r) == 1 and isinstance(r[0].value, ast.Call) and dotted_of(r[0].value.func) == "sanitize_fname"
    ctx.judge(f, ok and wrap, {"fstring": X.U(js[0])[:220]}, exp,
              "the cache file name drops or alters a component: different configurations share a file / the documented name changes")


def rule_H4(ctx: Ctx) -> None:
    c = ctx.index.cls(f"{CD}.MazeDatasetCollectionConfig")
    f = c.fields.get("maze_dataset_configs")
    if f is None:
        raise AnalysisError("MazeDatasetCollectionConfig.maze_dataset_configs not found")
    sf, lf = f.kwarg("serialization_fn"), f.kwarg("loading_fn")
    es = X.elementwise(sf.body) if isinstance(sf, ast.Lambda) else None
    el = X.elementwise(lf.body) if isinstance(lf, ast.Lambda) else None
    ok_s = es is not None and es[2] == "list" and X.U(es[1]) == sf.args.args[0].arg and X.same_expr(es[0], "_x.serialize()")
    ok_l = el is not None and el[2] == "list" and X.same_expr(el[1], f"{lf.args.args[0].arg}['maze_dataset_configs']") and X.same_expr(el[0], "MazeDatasetConfig.load(_x)")
    ctx.judge(c, ok_s and ok_l, {"serialization_fn": X.U(sf)[:120], "loading_fn": X.U(lf)[:140]},
              "member configs are serialised and reloaded one by one, in order", "a reloaded collection config has other members")
    h = ctx.index.func(f"{CD}.MazeDatasetCollectionConfig.stable_hash_cfg")
    r = X.returns_of(h.node)
    ctx.judge(h, len(r) == 1 and X.same_expr(r[0].value, "stable_hash(json.dumps(self.serialize()))"), {"returns": X.U(r[0].value) if r else None},
              "collection hash = stable hash of the JSON of the whole serialized config")
    t = ctx.index.func(f"{CD}.MazeDatasetCollectionConfig.to_fname")
    txt = X.U(t.node)
    ok = all(k in txt for k in ("collected-{self.name}", "shorten_numerical_to_str(self.n_mazes)", "self.stable_hash_cfg() % 10 ** 5"))
    ctx.judge(t, ok, {}, "collection file name = collected-{name}-n{count}-h{hash % 10**5}")


RULES = [
    Rule("C18.H1", rule_H1, floor=6, doc="identity fields serialised (whole option dicts) and hashed"),
    Rule("C18.H2", rule_H2, floor=5, doc="loaders"),
    Rule("C18.H3", rule_H3, floor=1, doc="file-name components"),
    Rule("C18.H4", rule_H4, floor=3, doc="collection config"),
]
