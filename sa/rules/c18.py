"""C18 -- configurations round-trip exactly and have stable, discriminating identities

Clauses: H1 every identity field is serialised and enters a hashlib-based hash of the serialized
content; H2 field loaders read their own key and restore the documented shapes (generator by
registered name, coordinate lists as tuples, filter args as tuples); H3 file-name components;
H4 collection config.
"""

from __future__ import annotations

import ast

from sa import astx as X
from sa import normal as N
from sa.dcmodel import DataclassModel
from sa.index import AnalysisError, dotted_of
from sa.report import Ctx, Rule

MD = "maze_dataset.dataset.maze_dataset"
DS = "maze_dataset.dataset.dataset"
CD = "maze_dataset.dataset.collected_dataset"
CFG = f"{MD}.MazeDatasetConfig"
IDENTITY = ["name", "grid_n", "n_mazes", "maze_ctor", "maze_ctor_kwargs", "endpoint_kwargs", "seed", "applied_filters"]

EXPLANATION = (
    "Field table of MazeDatasetConfig (and bases) from the dataclass model: serialize flags, serialization/loading lambdas and the keys "
    "they read; the generated serialize/load of muutils (read from source) decide what is stored and how loaders are called; "
    "stable_hash_cfg and to_fname are compared structurally with their documented composition."
)
ASSUMPTIONS = ["json.dumps of the serialized dict is deterministic for equal dicts built in field order (dict order = field order)",
               "sha256 collisions are not considered"]
TRUSTED = ["ast", "muutils 0.6.21 source (read): generated serialize/load, stable_hash"]


def rule_H1(ctx: Ctx) -> None:
    model = DataclassModel(ctx.index, ctx.deps)
    if not ctx.deps.sdc_serialize_skips_nonserialized():
        raise AnalysisError("muutils generated serialize no longer honours field.serialize")
    for q in (CFG, "maze_dataset.dataset.rasterized.RasterizedMazeDatasetConfig"):
        c = ctx.index.cls(q)
        allf = ctx.index.all_fields(c)
        ser = {f.name for f in model.serialized_fields(c)}
        missing = [n for n in IDENTITY if n not in allf]
        not_ser = sorted(n for n in allf if n not in ser)
        ctx.judge(c, not missing and not [n for n in not_ser if n in IDENTITY or n in ("remove_isolated_cells", "extend_pixels", "endpoints_as_open")],
                  {"fields": list(allf), "not_serialized": not_ser, "missing_identity_fields": missing},
                  "every identifying field (name, grid_n, n_mazes, maze_ctor, maze_ctor_kwargs, endpoint_kwargs, seed, applied_filters) is serialised",
                  "two configurations differing in this field serialize, hash and name their cache file identically")
    # the order in which serialize() emits its keys is part of the hashed text (json.dumps without sort_keys): everything that contributes keys must be
    # ordered - the decorator's properties_to_serialize is a list / tuple literal, never a set (str hashing depends on PYTHONHASHSEED)
    for q in (CFG, "maze_dataset.dataset.rasterized.RasterizedMazeDatasetConfig", f"{DS}.GPTDatasetConfig", "maze_dataset.dataset.collected_dataset.MazeDatasetCollectionConfig"):
        c = ctx.index.classes.get(q)
        if c is None:
            continue
        for d in c.decorators:
            pv = d.kwarg("properties_to_serialize")
            if pv is None:
                continue
            ordered = isinstance(pv, (ast.List, ast.Tuple)) and all(isinstance(e_, ast.Constant) for e_ in pv.elts)
            unordered = isinstance(pv, (ast.Set, ast.SetComp)) or (isinstance(pv, ast.Call) and dotted_of(pv.func) in ("set", "frozenset"))
            ctx.judge(c, True if ordered else False if unordered else None, {"properties_to_serialize": X.U(pv)[:80]},
                      "properties_to_serialize is an ordered literal (list / tuple of names): the serialized key order, hence the hash and the file name, is the same in every process",
                      "the key order of the serialized configuration follows set iteration, which depends on PYTHONHASHSEED: hash and cache file name differ between runs")
    h = ctx.index.func(f"{CFG}.stable_hash_cfg")
    r = X.returns_of(h.node)
    ok = len(r) == 1 and X.same_expr(r[0].value, "stable_hash(json.dumps(self.serialize()))")
    ctx.judge(h, ok and ctx.deps.stable_hash_is_hashlib(), {"returns": X.U(r[0].value) if r else None, "stable_hash_is_hashlib": ctx.deps.stable_hash_is_hashlib()},
              "the hash is a hashlib digest of the JSON text of the *whole* serialized config (no builtin hash(), nothing omitted)",
              "the identity depends on PYTHONHASHSEED or ignores part of the configuration")
    # option dictionaries are stored as they are (every key, whatever its value)
    for fname in ("maze_ctor_kwargs", "endpoint_kwargs"):
        fi = ctx.index.all_fields(ctx.index.cls(CFG))[fname]
        sfn = fi.kwarg("serialization_fn")
        ok = sfn is None or (isinstance(sfn, ast.Lambda) and (X.U(sfn.body) == sfn.args.args[0].arg or X.same_expr(sfn.body, f"dict({sfn.args.args[0].arg})", f"{sfn.args.args[0].arg}.copy()")))
        ctx.judge(fi.owner, ok, {"field": fname, "serialization_fn": X.U(sfn)[:120] if sfn is not None else None},
                  f"`{fname}` is serialised as the whole dict (identity / a copy): every option that was set is stored, including falsy values",
                  "options set to a falsy value (False, None, []) vanish on serialization: the reloaded config is unequal, and configs differing only in them share hash and file name")
    # the generator is serialised by name (and reloaded by that name)
    mc = ctx.index.all_fields(ctx.index.cls(CFG))["maze_ctor"]
    sf = mc.kwarg("serialization_fn")
    ok = isinstance(sf, ast.Lambda) and isinstance(sf.body, ast.Dict) and X.same_expr(X.record_value(sf.body, "__name__"), f"{sf.args.args[0].arg}.__name__")
    ctx.judge(mc.owner, ok, {"maze_ctor.serialization_fn": X.U(sf)[:160] if sf is not None else None},
              "the generator function is stored with its __name__ (the key GENERATORS_MAP is indexed by)")


def rule_H2(ctx: Ctx) -> None:
    if not ctx.deps.sdc_loading_fn_gets_whole_data() or ctx.deps.sdc_load_field_order() != ["deserialize_fn", "loading_fn"]:
        raise AnalysisError("muutils generated load no longer calls loading_fn(data) / deserialize_fn(value)")
    fields = ctx.index.all_fields(ctx.index.cls(CFG))
    # the field loaders by abstract evaluation: loading_fn (a lambda or a module-level function) applied to abstract serialized configs in
    # which *every* field carries a distinguishable symbolic value, so that reading another field's key shows
    from sa.fold import Closure, EvalRaised, Evaluator, Unknown

    mod = ctx.index.module(MD)

    def hook(ev, node, env):
        d = dotted_of(node.func) or ""
        if d == "_load_maze_ctor" and len(node.args) == 1:
            return ("generator restored from", ev.ev(node.args[0], env))
        if d == "isinstance" and len(node.args) == 2 and X.U(node.args[1]) in ("bool", "list", "tuple", "dict", "str", "int"):
            return isinstance(ev.ev(node.args[0], env), {"bool": bool, "list": list, "tuple": tuple, "dict": dict, "str": str, "int": int}[X.U(node.args[1])])
        return NotImplemented

    _consts: dict = {}

    def name_hook(name, env):
        if name in mod.functions:
            return Closure(mod.functions[name].node, {})
        if name in mod.assigns:
            # a module-level constant: folded from its defining expression (literals, type expressions, other constants)
            if name not in _consts:
                _consts[name] = Evaluator({"__name__": name_hook}).ev(mod.assigns[name], {})
            return _consts[name]
        raise Unknown(f"free name `{name}`")
    ek = {"allowed_start": [[1, 2], [3, 4]], "allowed_end": None, "deadend_start": True, "deadend_end": False, "endpoints_not_equal": False, "except_on_no_valid_endpoint": True}
    full = {"name": "<name>", "grid_n": "<grid_n>", "n_mazes": "<n_mazes>", "seed": "<seed>", "applied_filters": "<applied_filters>",
            "maze_ctor": {"__name__": "gen_x", "code_hash": 1}, "maze_ctor_kwargs": {"p": 0.5, "do_forks": False}, "endpoint_kwargs": ek}
    want_full = {"maze_ctor": ("generator restored from", full["maze_ctor"]), "maze_ctor_kwargs": {"p": 0.5, "do_forks": False},
                 "endpoint_kwargs": {"allowed_start": [(1, 2), (3, 4)], "allowed_end": None, "deadend_start": True, "deadend_end": False, "endpoints_not_equal": False,
                                     "except_on_no_valid_endpoint": True}}
    legacy = {k: v for k, v in full.items() if k not in ("maze_ctor_kwargs", "endpoint_kwargs")}   # configs saved before the option dicts existed
    legacy_none = {**legacy, "endpoint_kwargs": None}
    import copy as _copy

    for name in ("maze_ctor", "maze_ctor_kwargs", "endpoint_kwargs"):
        f = fields[name]
        lf = f.kwarg("loading_fn")
        exp = f"loading_fn of `{name}` reads data['{name}'] (its own key) and restores the documented value"
        bad, unk = [], []
        cases = [("full", full, want_full[name])]
        if name != "maze_ctor":
            cases += [("saved without this option dict", legacy, {}), ]
        if name == "endpoint_kwargs":
            cases += [("endpoint_kwargs stored as None", legacy_none, {}), ("empty option dict", {**full, "endpoint_kwargs": {}}, {})]
        for label, data, want in cases:
            try:
                ev_ = Evaluator({"__call__": hook, "__name__": name_hook})
                fn_ = ev_.ev(lf, {}) if lf is not None else None
                got = ev_.call(fn_, [_copy.deepcopy(data)], {})
            except EvalRaised as e:
                got = f"raises {e.exc_name}"
            except Unknown as e:
                unk.append(f"{label}: {e}"[:140])
                continue
            except Exception as e:  # the evaluator's own call protocol on a non-callable
                unk.append(f"{label}: {type(e).__name__}"[:140])
                continue
            if got != want or (name == "endpoint_kwargs" and isinstance(got, dict) and any(isinstance(v, list) and any(not isinstance(c, tuple) for c in v) for v in got.values())):
                bad.append({"serialized": label, "loaded": repr(got)[:160], "expected": repr(want)[:160]})
        ctx.judge(f.owner, False if bad else None if unk else True, {"field": name, "loading_fn": X.U(lf)[:120] if lf is not None else None, "deviations": bad[:2], "undecided": unk[:2]}, exp,
                  "the loaded configuration gets another field's value / coordinate lists come back as lists (config != original, endpoint sets never match)")
    lm = ctx.index.func(f"{MD}._load_maze_ctor")
    from sa import dtable as DT

    p0 = lm.params()[0]
    rows = DT.table(lm.node, {"is_dict": [f"isinstance({p0}, dict)"], "is_str": [f"isinstance({p0}, str)"]})

    def expected(a):
        if a["is_dict"]:
            return lambda o: o[0] == "return" and X.same_expr(o[1], f"GENERATORS_MAP[{p0}['__name__']]")
        if a["is_str"]:
            return lambda o: o[0] == "return" and X.same_expr(o[1], f"GENERATORS_MAP[{p0}]")
        return lambda o: o[0] == "raise"
    okt, rep = DT.judge_table(rows, expected)
    ctx.judge(lm, okt, {"table": rep}, "the generator is restored as GENERATORS_MAP[serialized['__name__']] (C01.B6: keys are the functions' own names); a bare name (old format) is looked up directly; anything else raises",
              "a reloaded config uses another generator than the one it was saved with")
    af = fields["applied_filters"]
    df = af.kwarg("deserialize_fn")
    ok = df is not None and X.U(df) == "_load_applied_filters"
    la = ctx.index.func(f"{DS}._load_applied_filters")
    # abstract evaluation on a symbolic filter history (names deliberately not in alphabetical order, a repeated name, a record repeated verbatim, list-valued args):
    # the loader must return the same entries in the same order, args as tuples, kwargs as dicts
    from sa.fold import EvalRaised, Evaluator, Unknown

    hist = [{"name": "truncate_count", "args": [5], "kwargs": {}}, {"name": "path_length", "args": [[1, 2], 3], "kwargs": {"min_length": 4}},
            {"name": "__custom__:f", "args": [], "kwargs": {"k": [1]}}, {"name": "path_length", "args": [7], "kwargs": {}},
            # the very same record twice more (a filter applied repeatedly with equal arguments is recorded each time)
            {"name": "truncate_count", "args": [5], "kwargs": {}}, {"name": "truncate_count", "args": [5], "kwargs": {}}]
    want = [{"name": h_["name"], "args": tuple(h_["args"]), "kwargs": dict(h_["kwargs"])} for h_ in hist]
    import copy as _copy

    rec_ok: bool | None
    try:
        got = Evaluator().run_body(X.body_wo_doc(la.node), {la.params()[0]: _copy.deepcopy(hist)})
        rec_ok = isinstance(got, list) and got == want and all(isinstance(g["args"], tuple) and isinstance(g["kwargs"], dict) for g in got)
        shown = got
    except EvalRaised as e:
        rec_ok, shown = False, f"raises {e.exc_name}"
    except Unknown as e:
        rec_ok, shown = None, f"undecided: {e}"[:160]
    ctx.judge(la, (ok and rec_ok) if rec_ok is not None else None, {"deserialize_fn": X.U(df), "abstract_history": [h_["name"] for h_ in hist],
                                                                     "loaded": [g.get("name") if isinstance(g, dict) else g for g in shown] if isinstance(shown, list) else shown},
              "applied_filters are reloaded entry by entry, in their recorded order, with args restored as a tuple and kwargs as a dict",
              "a reloaded config's filter list differs from the original (reordered, list vs tuple args, dropped entries): config != original, its hash and file name change")


def _const(ctx: Ctx, fn, e: ast.AST):
    "constant value of an expression built from literals and module-level constants (None if it is not one)"
    from sa.fold import Evaluator, Unknown

    env = {}
    for k, v in fn.module.assigns.items():
        try:
            env[k] = Evaluator().ev(v, {})
        except Exception:
            pass
    try:
        return Evaluator().ev(e, env)
    except Exception:
        return None


def _fname_template(ctx: Ctx, f, want: list, exp: str, why: str) -> None:
    "the returned file name is sanitize_fname(<template>) with the wanted literal / expression parts, however the string is assembled"
    r = X.returns_of(f.node)
    val = X.expand_locals(r[0].value, f.node) if len(r) == 1 and r[0].value is not None else None
    wrap = isinstance(val, ast.Call) and dotted_of(val.func) == "sanitize_fname" and len(val.args) == 1
    tpl = X.str_template(val.args[0]) if wrap else None
    if tpl is None:
        ctx.judge(f, None if wrap else False, {"returns": X.U(val)[:200] if val is not None else None}, exp, why)
        return
    ok = len(tpl) == len(want)
    shown = []
    for got, w in zip(tpl, want):
        shown.append(got[1] if got[0] == "lit" else "{" + X.U(got[1]) + got[2] + "}")
        if got[0] != w[0]:
            ok = False
        elif got[0] == "lit":
            ok = ok and got[1] == w[1]
        elif got[2] not in ("", "!s"):
            ok = False
        elif w[1] == "<hash mod 10**5>":
            v = got[1]
            ok = ok and isinstance(v, ast.BinOp) and isinstance(v.op, ast.Mod) and X.U(v.left) == "self.stable_hash_cfg()" and _const(ctx, f, v.right) == 100000
        else:
            ok = ok and X.same_expr(got[1], w[1])
    ctx.judge(f, ok, {"template": "".join(shown)[:240]}, exp, why)


def rule_H3(ctx: Ctx) -> None:
    f = ctx.index.func(f"{CFG}.to_fname")
    want = [("expr", "self.name"), ("lit", "-g"), ("expr", "self.grid_n"), ("lit", "-n"), ("expr", "shorten_numerical_to_str(self.n_mazes)"),
            ("lit", "-a_"), ("expr", "self.maze_ctor.__name__.removeprefix('gen_')"), ("lit", "-h"), ("expr", "<hash mod 10**5>")]
    _fname_template(ctx, f, want, "file name = sanitize_fname(f'{name}-g{grid_n}-n{short(n_mazes)}-a_{maze_ctor name without gen_}-h{stable_hash_cfg() % 10**5}')",
                    "the cache file name drops or alters a component: different configurations share a file / the documented name changes")


def rule_H4(ctx: Ctx) -> None:
    c = ctx.index.cls(f"{CD}.MazeDatasetCollectionConfig")
    f = c.fields.get("maze_dataset_configs")
    if f is None:
        raise AnalysisError("MazeDatasetCollectionConfig.maze_dataset_configs not found")
    sf, lf = f.kwarg("serialization_fn"), f.kwarg("loading_fn")
    es = X.elementwise(sf.body) if isinstance(sf, ast.Lambda) else None
    el = X.elementwise(lf.body) if isinstance(lf, ast.Lambda) else None
    ok_s = es is not None and es[2] == "list" and X.U(es[1]) == sf.args.args[0].arg and X.same_expr(es[0], "_x.serialize()")
    ok_l = el is not None and el[2] == "list" and X.same_expr(el[1], f"{lf.args.args[0].arg}['maze_dataset_configs']") and X.same_expr(el[0], "MazeDatasetConfig.load(_x)")
    ctx.judge(c, ok_s and ok_l, {"serialization_fn": X.U(sf)[:120], "loading_fn": X.U(lf)[:140]},
              "member configs are serialised and reloaded one by one, in order", "a reloaded collection config has other members")
    h = ctx.index.func(f"{CD}.MazeDatasetCollectionConfig.stable_hash_cfg")
    r = X.returns_of(h.node)
    ctx.judge(h, len(r) == 1 and X.same_expr_x(r[0].value, h.node, "stable_hash(json.dumps(self.serialize()))"), {"returns": X.U(r[0].value) if r else None},
              "collection hash = stable hash of the JSON of the whole serialized config")
    t = ctx.index.func(f"{CD}.MazeDatasetCollectionConfig.to_fname")
    _fname_template(ctx, t, [("lit", "collected-"), ("expr", "self.name"), ("lit", "-n"), ("expr", "shorten_numerical_to_str(self.n_mazes)"), ("lit", "-h"), ("expr", "<hash mod 10**5>")],
                    "collection file name = collected-{name}-n{count}-h{hash % 10**5}", "the collection's cache file name drops or alters a component")


RULES = [
    Rule("C18.H1", rule_H1, floor=6, doc="identity fields serialised (whole option dicts) and hashed"),
    Rule("C18.H2", rule_H2, floor=5, doc="loaders"),
    Rule("C18.H6", lambda ctx: (__import__("sa.rules.c08", fromlist=["x"]).rule_G3(ctx), __import__("sa.rules.c08", fromlist=["x"]).rule_G4(ctx)), floor=6,
         doc="'the same recorded filters' after a reload rests on what the filters record: every record has name / args (tuple) / kwargs, the keys the loader reads (C08.G3 / G4 re-judged)"),
    Rule("C18.H5", lambda ctx: __import__("sa.rules.c01", fromlist=["x"]).rule_B6(ctx), floor=16,
         doc="'the same generator function' rests on the registry: keys are the generators' own names, and no decorator renames a generator (C01.B6 re-judged)"),
    Rule("C18.H3", rule_H3, floor=1, doc="file-name components"),
    Rule("C18.H4", rule_H4, floor=3, doc="collection config"),
]

from sa import exits as _exits  # noqa: E402

RULES.append(Rule("C18.RX", _exits.make_rule("C18", "C18.RX", _exits.SCOPES["C18"]), floor=1,
                  doc="rejection conditions: the anchored functions refuse inputs only under the conditions confirmed on the pinned tree (E16)"))

from sa import exits as _exits_ms  # noqa: E402

RULES.append(Rule("C18.MS", _exits_ms.make_state_rule("C18", "C18.MS", _exits_ms.SCOPES.get("C18", [])), floor=1,
                  doc="no hidden module-level state on the anchored path: results do not depend on the history of the process (E17)"))

from sa import exits as _exits_nw  # noqa: E402

RULES.append(Rule("C18.NW", _exits_nw.make_narrowing_rule("C18", "C18.NW", _exits_nw.SCOPES.get("C18", [])), floor=1,
                  doc="no new narrowing cast (8/16-bit element types) on the anchored path: coordinates, lengths and indices do not wrap (E18)"))
