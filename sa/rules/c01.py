"""C01 -- generators emit well-formed lattice graphs; DFS and Wilson emit spanning trees

Clauses: B1 boundary sanitisation (taint: random bulk arrays reach a maze only through
_fill_edges_with_walls); B2 single-edge writes use the lesser-endpoint idiom on in-bounds
neighbours; B3 edge/visit pairing (one new edge per newly visited cell); B4 allocation;
B5 percolation threshold form; B6 registry; B7 default completeness of DFS.
"""

from __future__ import annotations

import ast

from sa import astx as X
from sa import lattice as L
from sa import normal as N
from sa.cfg import build_cfg, forward_may
from sa.index import AnalysisError, FuncInfo, dotted_of
from sa.report import Ctx, Rule

GEN = "maze_dataset.generation.generators"
NS = f"{GEN}.LatticeMazeGenerators"
LM = "maze_dataset.maze.lattice_maze"
FILL = "_fill_edges_with_walls"

EXPLANATION = (
    "Per-generator structural rules on maze_dataset/generation/generators.py: a may-taint forward dataflow over the "
    "statement CFG (sources: comparisons of np.random.rand arrays; sanitiser: _fill_edges_with_walls; sinks: LatticeMaze("
    "connection_list=...) and stores to connection_list), the lesser-endpoint idiom in normal form, the in-bounds neighbour "
    "filters as relational atoms, block-level pairing of edge store / visited update / push, loop-exit structure of Wilson, "
    "allocation shape, threshold comparison form, and the GENERATORS_MAP registry."
)
ASSUMPTIONS = [
    "numpy indexing / np.zeros / np.random.rand semantics (rand draws from [0, 1))",
    "termination of the random walks is not decided",
    "the induction 'one edge per newly visited cell, edge to an already visited cell => tree' is a quoted lemma whose premises are the extracted slots",
]
TRUSTED = ["ast"]


def _gen(ctx: Ctx, name: str) -> FuncInfo:
    return ctx.index.func(f"{NS}.{name}")


def _is_random_bulk(e: ast.AST) -> bool:
    "a comparison / boolean array derived from a bulk random draw"
    for n in ast.walk(e):
        if isinstance(n, ast.Call) and dotted_of(n.func) in ("np.random.rand", "numpy.random.rand", "np.random.random", "np.random.uniform",
                                                             "np.random.random_sample", "np.random.randint", "np.random.choice"):
            return True
    return False


def _unsanitised_random(v: ast.AST) -> bool:
    "does the expression contain a bulk random comparison that is not (itself inside) an argument of the sanitiser?"
    par = X.parents_map(v)
    for c_ in ast.walk(v):
        if isinstance(c_, ast.Compare) and _is_random_bulk(c_):
            x = c_
            clean = False
            while x in par:
                x = par[x]
                if isinstance(x, ast.Call) and X.U(x.func).endswith(FILL):
                    clean = True
                    break
            if not clean:
                return True
    return False


def rule_B1(ctx: Ctx) -> None:
    exp = ("every array derived from a bulk random draw passes through _fill_edges_with_walls before it becomes (part of) a maze's "
           "connection_list")
    n_sources = 0
    for name, f in ctx.index.cls(NS).methods.items():
        if not name.startswith("gen_"):
            continue
        g = build_cfg(f.node)
        has_bulk_random = any(isinstance(c_, ast.Compare) and _is_random_bulk(c_) for c_ in ast.walk(f.node))

        def transfer(node, st):
            a = node.ast
            st = set(st)
            if node.kind == "stmt":
                if isinstance(a, (ast.Assign, ast.AnnAssign)) and getattr(a, "value", None) is not None:
                    tg = a.targets[0] if isinstance(a, ast.Assign) else a.target
                    v = a.value
                    if isinstance(tg, ast.Name):
                        if isinstance(v, ast.Call) and X.U(v.func).endswith(FILL) and v.args:
                            st.discard(tg.id)
                            if isinstance(v.args[0], ast.Name):
                                st.discard(v.args[0].id)  # sanitised in place
                        elif _unsanitised_random(v):
                            st.add(tg.id)
                        elif any(isinstance(x, ast.Name) and x.id in st for x in ast.walk(v)):
                            st.add(tg.id)
                        else:
                            st.discard(tg.id)
                    elif isinstance(tg, ast.Subscript) and isinstance(tg.value, ast.Name) and has_bulk_random \
                            and not (isinstance(v, ast.Constant) and v.value is False):
                        # a percolation-style generator writes an edge bit directly (after the boundary may have been cleared): the
                        # array must pass the sanitiser again before it becomes a maze (the single-edge idiom of B2 is not used here)
                        st.add(tg.value.id)
                elif isinstance(a, ast.Expr) and isinstance(a.value, ast.Call) and X.U(a.value.func).endswith(FILL) and a.value.args \
                        and isinstance(a.value.args[0], ast.Name):
                    st.discard(a.value.args[0].id)
            return frozenset(st)

        IN = forward_may(g, frozenset(), transfer)
        # sources (for the floor) and sinks
        for node in g.nodes:
            a = node.ast
            if a is None or node.kind != "stmt" and node.kind != "return":
                continue
            st = IN.get(node.id, frozenset())
            n_sources += sum(1 for c_ in ast.walk(a) if isinstance(c_, ast.Compare) and _is_random_bulk(c_)) if node.kind in ("stmt", "return") else 0
            sinks = []
            for c in ast.walk(a):
                if isinstance(c, ast.Call) and X.U(c.func).endswith("LatticeMaze"):
                    v = N.kwarg(c, "connection_list")
                    if v is not None:
                        sinks.append(("LatticeMaze(connection_list=...)", v))
            if isinstance(a, ast.Assign) and isinstance(a.targets[0], ast.Subscript) and "connection_list" in X.U(a.targets[0]) \
                    and X.U(a.targets[0].value).endswith("__dict__"):
                sinks.append(("store to maze.__dict__['connection_list']", a.value))
            for what, v in sinks:
                tainted = sorted({x.id for x in ast.walk(v) if isinstance(x, ast.Name) and x.id in st})
                direct = _unsanitised_random(v)
                ctx.judge(f, not tainted and not direct, {"sink": what, "value": X.U(v)[:80], "unsanitised_random_arrays": tainted, "random_inline": direct},
                          exp, "random connections on the last row (down) / last column (right) leave the grid", node=a)
    ctx.stat("bulk_random_sources", n_sources)
    if n_sources < 2:
        ctx.unknown(ctx.index.cls(NS), {"sources": n_sources}, "at least the two percolation draws are recognised as sources")
    # the sanitiser itself, by abstract evaluation (E15) on arrays of symbolic cells: for every layer count k in {1, 2} and grid h x w in
    # {1..3}^2 the result must be the *same* array object with exactly [0, -1, :] and [1, :, -1] replaced by False and every other cell still
    # holding its own symbol; for k >= 3 the call must raise (after the 2-d layers were handled or not - nothing is returned)
    fill = ctx.index.func(f"{LM}.{FILL}")
    arr = fill.params()[0]
    exp = ("_fill_edges_with_walls clears [0, -1, :] (last row of the 'down' layer) and [1, :, -1] (last column of the 'right' layer) and nothing "
           "else, in place, returns that array, and raises NotImplementedError for lattices with more than 2 layers")
    from sa.absnp import MODELS as _NP, Arr
    from sa.fold import EvalRaised, Evaluator, Unknown

    def _name_hook(name, env):
        if name in fill.module.assigns:
            return Evaluator({"__name__": _name_hook}).ev(fill.module.assigns[name], {})
        raise Unknown(f"free name `{name}`")

    def _call_hook(ev_, node, env):
        d = dotted_of(node.func) or ""
        if d in _NP:
            return _NP[d](*[ev_.ev(a_, env) for a_ in node.args], **{k_.arg: ev_.ev(k_.value, env) for k_ in node.keywords if k_.arg})
        return NotImplemented
    n_runs, bad, unk = 0, [], []
    for k in (1, 2, 3, 4):
        for h in (1, 2, 3):
            for w in (1, 2, 3):
                a0 = Arr([[[f"c{d}.{r}.{c}" for c in range(w)] for r in range(h)] for d in range(k)])
                want = [[[False if (d == 0 and r == h - 1) or (d == 1 and c == w - 1) else f"c{d}.{r}.{c}" for c in range(w)] for r in range(h)] for d in range(k)]
                n_runs += 1
                try:
                    got = Evaluator({"__call__": _call_hook, "__name__": _name_hook}).run_body(X.body_wo_doc(fill.node), {arr: a0})
                except EvalRaised as e:
                    if k <= 2 or e.exc_name != "NotImplementedError":
                        bad.append({"shape": [k, h, w], "found": f"raises {e.exc_name}", "expected": "returns the array" if k <= 2 else "raises NotImplementedError"})
                    continue
                except Unknown as e:
                    unk.append(f"shape {(k, h, w)}: {e}"[:140])
                    continue
                if k > 2:
                    bad.append({"shape": [k, h, w], "found": "returns", "expected": "raises NotImplementedError (only 2-d lattices are supported)"})
                elif got is not a0:
                    bad.append({"shape": [k, h, w], "found": "returns another object than its argument" if isinstance(got, Arr) else f"returns {got!r}"[:60],
                                "expected": "the argument itself, changed in place (gen_* callers rely on either)"} if not (isinstance(got, Arr) and got.data == want) else None)
                    bad = [b for b in bad if b is not None]
                    if isinstance(got, Arr) and got.data != want:
                        bad.append({"shape": [k, h, w], "found": repr(got.data)[:120], "expected": repr(want)[:120]})
                elif a0.data != want:
                    bad.append({"shape": [k, h, w], "found": repr(a0.data)[:120], "expected": repr(want)[:120]})
    ctx.judge(fill, False if bad else None if unk else True, {"abstract_arrays": n_runs, "deviations": bad[:3], "undecided": unk[:2]}, exp,
              "the wrong boundary is cleared: edges leaving the grid survive (and legitimate edges are deleted)")


def rule_B2(ctx: Ctx) -> None:
    exp = ("single-edge stores are `connection_list[argmax|delta|, n[0], n[1]] = True` with n the lesser endpoint "
           "(delta = b - a; n = a if delta.sum() > 0 else b)")
    for name in ("gen_dfs", "gen_wilson"):
        f = _gen(ctx, name)
        uses = [u for u in L.lesser_endpoint_use(f.node) if u["store"]]
        if not uses:
            ctx.unknown(f, {}, exp, "no single-edge store found")
        for u in uses:
            ok = None if u["node_ok"] is None or u["dim_ok"] is None else (u["node_ok"] and u["dim_ok"])
            ctx.judge(f, ok, u, exp, "the edge is recorded at the greater endpoint or in the wrong layer: it connects other cells "
                      "(possibly across the grid boundary) than the walk actually joined")
        # value stored is True
        for n in ast.walk(f.node):
            if isinstance(n, ast.Assign) and isinstance(n.targets[0], ast.Subscript) and X.U(n.targets[0].value) == "connection_list":
                ctx.judge(f, isinstance(n.value, ast.Constant) and n.value.value is True, {"store": X.U(n)}, "edge stores write True", node=n)
    # in-bounds neighbour sources
    f = _gen(ctx, "gen_dfs")
    comps = [n for n in ast.walk(f.node) if isinstance(n, ast.ListComp) and "NEIGHBORS_MASK" in X.U(n.generators[0].iter)]
    exp = "candidate neighbours are filtered by 0 <= n[k] < grid_shape[k] on both axes"
    if len(comps) != 1:
        ctx.unknown(f, {"neighbour_comprehensions": len(comps)}, exp)
    else:
        g = comps[0].generators[0]
        nb = g.target.elts[0].id if isinstance(g.target, ast.Tuple) else g.target.id
        keys = L.conj_atom_keys(ast.BoolOp(op=ast.And(), values=list(g.ifs))) if g.ifs else set()
        want = L.bounds_atoms(nb, "grid_shape")
        n_missing = len(want - (keys or set()))
        # some of the four bounds present: a located filter with one missing (VIOLATION); none of them matched: the filter is written in a form this
        # rule does not read (decided by B10)
        ctx.judge(f, None if keys is None or n_missing == len(want) else want <= keys, {"filter": [X.U(i)[:120] for i in g.ifs], "missing_bounds": n_missing},
                  exp, "a neighbour outside the grid can be chosen: negative indices wrap around / IndexError", node=comps[0])
        # iter is zip(current + NEIGHBORS_MASK, NEIGHBORS_MASK): delta belongs to its neighbour
        it = g.iter
        ok = isinstance(it, ast.Call) and dotted_of(it.func) == "zip" and len(it.args) == 2 and X.U(it.args[1]).endswith("NEIGHBORS_MASK") \
            and isinstance(it.args[0], ast.BinOp) and isinstance(it.args[0].op, ast.Add) and X.U(it.args[0].right).endswith("NEIGHBORS_MASK")
        is_zip = isinstance(it, ast.Call) and dotted_of(it.func) == "zip"
        ctx.judge(f, ok if is_zip else None, {"iter": X.U(it)}, "each candidate is paired with its own delta: zip(current + NEIGHBORS_MASK, NEIGHBORS_MASK)")
    h = ctx.index.func(f"{GEN}.get_neighbors_in_bounds")
    exp = "get_neighbors_in_bounds keeps the rows of coord + NEIGHBORS_MASK whose every component c satisfies 0 <= c < grid_shape (reduced with .all(axis=1))"
    rets = X.returns_of(h.node)
    ok = None
    slot = {}
    if len(rets) == 1:
        rv = X.expand_locals(rets[0].value, h.node, keep=tuple(h.params()))
        slot["returns"] = X.U(rv)[:200]
        if isinstance(rv, ast.Subscript):
            base = X.U(X.canon(rv.value))
            atoms, axes = X.mask_atoms(rv.slice)
            cand = X.expr_of(base)
            gs = h.params()[1]
            want = {N.compare_atom(cand, ast.GtE(), ast.Constant(0)).key(), N.compare_atom(cand, ast.Lt(), X.expr_of(gs)).key()}
            base_ok = X.same_expr_x(rv.value, None, f"{h.params()[0]} + NEIGHBORS_MASK", f"NEIGHBORS_MASK + {h.params()[0]}")
            ok = atoms == want and axes == {1} and base_ok
            slot.update({"reduction_axes": sorted(str(a) for a in axes), "candidates": base})
    ctx.judge(h, ok, slot, exp, "Wilson's walk can step outside the grid")
    nm = ctx.index.module_assign("maze_dataset.constants", "NEIGHBORS_MASK")
    from sa.fold import Evaluator, Unknown
    try:
        val = Evaluator().ev(nm.args[0], {}) if isinstance(nm, ast.Call) else None
    except Unknown:
        val = None
    ok = val is not None and sorted(map(tuple, val)) == [(-1, 0), (0, -1), (0, 1), (1, 0)]
    ctx.judge((ctx.index.module("maze_dataset.constants").relpath, "maze_dataset.constants.NEIGHBORS_MASK", nm.lineno), ok,
              {"NEIGHBORS_MASK": val}, "NEIGHBORS_MASK is the four unit vectors")


def _dfs_parts(f: FuncInfo) -> dict:
    loops = [n for n in f.node.body if isinstance(n, ast.While)]
    if len(loops) != 1:
        raise AnalysisError("gen_dfs: expected one top-level while loop")
    lp = loops[0]
    grow = None

    def stores_edge(block):
        return any(isinstance(s, ast.Assign) and isinstance(s.targets[0], ast.Subscript) and X.U(s.targets[0].value) == "connection_list" for s in block)
    for n in lp.body:
        if isinstance(n, ast.If) and stores_edge(n.body):
            grow = n
        elif isinstance(n, ast.If) and stores_edge(n.orelse):
            # the growing branch is the `else` arm: view it as `if not <test>: grow else: <body>` (branch orientation is not a property of the code)
            grow = ast.copy_location(ast.If(test=ast.UnaryOp(op=ast.Not(), operand=n.test), body=n.orelse, orelse=n.body), n)
            ast.fix_missing_locations(grow)
    if grow is None:
        raise AnalysisError("gen_dfs: no branch that stores an edge at the top level of the loop body")
    return {"loop": lp, "grow": grow}


def rule_B3(ctx: Ctx) -> None:
    f = _gen(ctx, "gen_dfs")
    P = _dfs_parts(f)
    lp, grow = P["loop"], P["grow"]
    edge = [s for s in grow.body if isinstance(s, ast.Assign) and isinstance(s.targets[0], ast.Subscript) and X.U(s.targets[0].value) == "connection_list"]
    all_edges = [s for s in ast.walk(lp) if isinstance(s, ast.Assign) and isinstance(s.targets[0], ast.Subscript) and X.U(s.targets[0].value) == "connection_list"]
    adds = [s for s in grow.body if isinstance(s, ast.Expr) and isinstance(s.value, ast.Call) and X.U(s.value.func) == "visited_cells.add"]
    all_adds = [c for c in X.method_calls(lp, "add") if X.U(c.func.value) == "visited_cells"]
    pushes = [s for s in grow.body if isinstance(s, ast.Expr) and isinstance(s.value, ast.Call) and X.U(s.value.func) == "stack.append"]
    chosen = None
    for s in grow.body:
        if isinstance(s, ast.Assign) and isinstance(s.value, ast.Call) and dotted_of(s.value.func) in ("random.choice",) and isinstance(s.targets[0], ast.Tuple):
            chosen = (s.targets[0].elts[0].id, s.targets[0].elts[1].id, X.U(s.value.args[0]))
    exp = ("in one block: exactly one edge store, visited_cells.add(tuple(chosen)), stack.append(chosen); chosen is drawn from the list "
           "filtered by `tuple(neighbor) not in visited_cells`; no other edge store or visited update in the loop")
    slot = {"edge_stores_in_block": len(edge), "edge_stores_in_loop": len(all_edges), "visited_adds_in_block": len(adds),
            "visited_adds_in_loop": len(all_adds), "pushes_in_block": [X.U(p.value) for p in pushes], "chosen": chosen}
    ok = None
    if chosen:
        cn = chosen[0]
        add_ok = len(adds) == 1 and X.U(adds[0].value.args[0]) == f"tuple({cn})"
        push_ok = any(X.U(p.value.args[0]) == cn for p in pushes)
        # delta used by the edge store belongs to the chosen pair
        uses = [u for u in L.lesser_endpoint_use(f.node) if u["store"]]
        delta_ok = bool(uses) and uses[0]["detail"].get("delta", "").startswith(chosen[1]) is False  # delta var is a name, not P - Q
        dname = chosen[1]
        d_defs = X.assignments_to(f.node, dname)
        # filter of the candidate list
        lst = X.assignments_to(f.node, chosen[2])
        filt_ok = False
        if len(lst) == 1 and isinstance(lst[0], ast.ListComp):
            g = lst[0].generators[0]
            nb = g.target.elts[0].id if isinstance(g.target, ast.Tuple) else None
            keys = L.conj_atom_keys(ast.BoolOp(op=ast.And(), values=list(g.ifs))) if g.ifs else set()
            want = N.boolean_nf(X.expr_of(f"tuple({nb}) not in visited_cells")).key()
            filt_ok = keys is not None and want in keys
            slot["candidate_filter_has_not_visited"] = filt_ok
        ok = len(edge) == 1 and len(all_edges) == 1 and add_ok and len(all_adds) == 1 and push_ok and filt_ok
    ctx.judge(f, ok, slot, exp, "an edge can be added to an already visited cell (cycle) or a cell visited without an edge (disconnected)", node=grow)
    # the edge joins current and chosen: delta is the chosen pair's delta, endpoints current/chosen
    uses = [u for u in L.lesser_endpoint_use(f.node) if u["store"]]
    if uses and chosen:
        d = uses[0]["detail"]
        ends = {d.get("then"), d.get("else")}
        cur = None
        for s in ast.walk(lp):
            if isinstance(s, ast.Assign) and all(isinstance(a, ast.Call) and X.U(a.func) == "stack.pop" for a in X.alternatives(s.value)):
                cur = X.U(s.targets[0])
        ctx.judge(f, ends == {cur, chosen[0]} and f"{chosen[1]}.sum()" in d.get("condition", ""),
                  {"endpoints": sorted(str(e) for e in ends), "current": cur, "chosen": chosen[0], "condition": d.get("condition")},
                  "the stored edge joins the popped cell and the chosen neighbour, oriented by the chosen neighbour's own delta")
    # start cell is visited before the loop
    pre = [s for s in f.node.body[: f.node.body.index(lp)] if isinstance(s, ast.Expr) and isinstance(s.value, ast.Call) and X.U(s.value.func) == "visited_cells.add"]
    init = [s for s in f.node.body[: f.node.body.index(lp)] if isinstance(s, (ast.Assign, ast.AnnAssign)) and X.U(s.targets[0] if isinstance(s, ast.Assign) else s.target) == "visited_cells"]
    by_add = len(pre) == 1 and X.U(pre[0].value.args[0]) == "tuple(start_coord)" and len(init) == 1 and X.same_expr_x(init[0].value, None, "set()")
    by_literal = not pre and len(init) == 1 and X.same_expr_x(init[0].value, None, "{tuple(start_coord)}", "set([tuple(start_coord)])", "set((tuple(start_coord),))")
    ctx.judge(f, by_add or by_literal, {"pre_loop_adds": [X.U(p.value) for p in pre], "initial": X.U(init[0].value) if init else None},
              "the start cell is marked visited before the loop (so |edges| = |visited| - 1)")

    # ---- Wilson
    w = _gen(ctx, "gen_wilson")
    outer = [n for n in w.node.body if isinstance(n, ast.While)]
    if len(outer) != 1:
        raise AnalysisError("gen_wilson: expected one top-level while loop")
    ow = outer[0]
    commit = [n for n in ow.body if isinstance(n, ast.For)]
    walk = [n for n in ow.body if isinstance(n, ast.While)]
    exp = ("commit loop: for i in range(len(path) - 1): exactly one edge store joining path[i] and path[i + 1], and visited[path[i]] = True")
    if len(commit) != 1 or len(walk) != 1:
        ctx.unknown(w, {"commit_loops": len(commit), "walk_loops": len(walk)}, exp)
        return
    cl = commit[0]
    # two idioms for "consecutive cells of the path": index loop with path[i] / path[i + 1], or zip(path[:-1], path[1:])
    defs = {}
    for s_ in cl.body:
        if isinstance(s_, (ast.Assign, ast.AnnAssign)) and isinstance(s_.targets[0] if isinstance(s_, ast.Assign) else s_.target, ast.Name) and s_.value is not None:
            defs[(s_.targets[0] if isinstance(s_, ast.Assign) else s_.target).id] = s_.value
    first_cell = second_cell = None
    rng_ok = False
    if isinstance(cl.iter, ast.Call) and dotted_of(cl.iter.func) == "range" and len(cl.iter.args) == 1 and isinstance(cl.target, ast.Name):
        i = cl.target.id
        rng_ok = N.aff_eq(X.substitute_len(cl.iter.args[0]), X.expr_of("len(path) - 1"))
        for nme, d in defs.items():
            if isinstance(d, ast.Subscript) and X.U(d.value) == "path":
                if N.aff_eq(d.slice, X.expr_of(i)):
                    first_cell = nme
                elif N.aff_eq(d.slice, X.expr_of(f"{i} + 1")):
                    second_cell = nme
    elif isinstance(cl.iter, ast.Call) and dotted_of(cl.iter.func) == "zip" and len(cl.iter.args) == 2 and isinstance(cl.target, ast.Tuple) and len(cl.target.elts) == 2:
        a0, a1 = cl.iter.args
        rng_ok = X.same_expr_x(a0, None, "path[:-1]", "path") and X.same_expr_x(a1, None, "path[1:]")   # zip stops at the shorter operand
        if rng_ok:
            first_cell, second_cell = (e.id for e in cl.target.elts)
    edges = [s_ for s_ in cl.body if isinstance(s_, ast.Assign) and isinstance(s_.targets[0], ast.Subscript) and X.U(s_.targets[0].value) == "connection_list"]
    marks = [s_ for s_ in cl.body if isinstance(s_, ast.Assign) and isinstance(s_.targets[0], ast.Subscript) and X.U(s_.targets[0].value) == "visited"]
    uses = [u for u in L.lesser_endpoint_use(w.node) if u["store"]]
    ends_ok = False
    mark_ok = False
    if uses and first_cell and second_cell:
        d = uses[0]["detail"]
        ends_ok = {d.get("then"), d.get("else")} == {first_cell, second_cell}
    if len(marks) == 1 and first_cell:
        parts = N.subscript_parts(marks[0].targets[0])
        base = X.U(parts[0].value) if isinstance(parts[0], ast.Subscript) else (X.U(parts[0].args[0]) if isinstance(parts[0], ast.Call) and parts[0].args else None)
        mark_ok = base == first_cell and isinstance(marks[0].value, ast.Constant) and marks[0].value.value is True
    # an iteration form this rule does not read (neither the index loop nor the pairwise zip) is unrecognised, not wrong: B10 decides it
    ctx.judge(w, (rng_ok and len(edges) == 1 and ends_ok and mark_ok) if (first_cell and second_cell) or len(edges) != 1 else None,
              {"range": X.U(cl.iter), "edge_stores": len(edges), "endpoints_are_path_i_and_i_plus_1": ends_ok, "marks_path_i_visited": mark_ok}, exp,
              "committed walks skip an edge, join non-consecutive cells or leave cells unmarked (cycles / duplicated walks)", node=cl)
    wl = walk[0]
    exp = "the walk loop continues exactly while the current cell is unvisited and erases loops with path = path[: k + 1], k the first index of the revisited cell"
    t_ok = X.U(wl.test) in ("not visited[current[0], current[1]]", "not visited[tuple(current)]")
    erase = [s for s in ast.walk(wl) if isinstance(s, ast.Assign) and X.U(s.targets[0]) == "path" and isinstance(s.value, ast.Subscript)]
    er_ok = None
    slot = {"walk_condition": X.U(wl.test)}
    if len(erase) == 1:
        sl = erase[0].value.slice
        kname = None
        if isinstance(sl, ast.Slice) and sl.lower is None and sl.step is None and sl.upper is not None:
            a = N.affine(sl.upper)
            syms = [k for k in a if k != 1]
            if len(syms) == 1 and a[syms[0]] == 1:
                kname = syms[0]
                er_ok = a.get(1, 0) == 1
        slot["erase"] = X.U(erase[0])
        # k is the index of the FIRST match: for/enumerate/break, or next((i for i, c in enumerate(path) if array_equal(next, c)), None)
        first_ok = False
        k_none_by_next = False
        for fl in [n for n in ast.walk(wl) if isinstance(n, ast.For)]:
            if isinstance(fl.iter, ast.Call) and dotted_of(fl.iter.func) == "enumerate" and X.U(fl.iter.args[0]) == "path":
                iv = fl.target.elts[0].id
                for n in ast.walk(fl):
                    if isinstance(n, ast.If) and any(isinstance(s_, ast.Assign) and X.U(s_.targets[0]) == kname and X.U(s_.value) == iv for s_ in n.body) \
                            and any(isinstance(s_, ast.Break) for s_ in n.body) and "array_equal" in X.U(n.test):
                        first_ok = True
        for d_ in (X.assignments_to(wl, kname) if kname else []):
            if isinstance(d_, ast.Call) and dotted_of(d_.func) == "next" and len(d_.args) == 2 and isinstance(d_.args[1], ast.Constant) and d_.args[1].value is None \
                    and isinstance(d_.args[0], ast.GeneratorExp):
                ge = d_.args[0]
                g0 = ge.generators[0]
                if isinstance(g0.iter, ast.Call) and dotted_of(g0.iter.func) == "enumerate" and X.U(g0.iter.args[0]) == "path" and isinstance(g0.target, ast.Tuple) \
                        and X.U(ge.elt) == X.U(g0.target.elts[0]) and len(g0.ifs) == 1 and "array_equal" in X.U(g0.ifs[0]) and X.U(g0.target.elts[1]) in X.U(g0.ifs[0]):
                    first_ok = True
                    k_none_by_next = True
        slot["k_is_first_match"] = first_ok
        if er_ok is not None:
            er_ok = er_ok and first_ok
        # the erase branch is taken iff a match was found: `k is not None` (k == 0 is a match: truthiness would skip it)
        par = X.parents_map(wl)
        g_if = par.get(erase[0])
        guard_ok = isinstance(g_if, ast.If) and kname is not None and X.U(g_if.test) in (f"{kname} is not None", f"not {kname} is None", f"{kname} != None") \
            and erase[0] in g_if.body
        guard_neg = isinstance(g_if, ast.If) and kname is not None and X.U(g_if.test) in (f"{kname} is None",) and erase[0] in g_if.orelse
        slot["erase_guard"] = X.U(g_if.test) if isinstance(g_if, ast.If) else None
        kinit = [d for d in X.assignments_to(wl, kname)] if kname else []
        slot["k_initial_none"] = k_none_by_next or any(isinstance(d, ast.Constant) and d.value is None for d in kinit)
        if er_ok is not None:
            er_ok = er_ok and (guard_ok or guard_neg) and slot["k_initial_none"]
        # after erasing, current = path[-1]
        cur_reset = any(isinstance(s, ast.Assign) and X.U(s.targets[0]) == "current" and X.U(s.value) == "path[-1]" for s in ast.walk(wl))
        slot["current_reset_to_path_end"] = cur_reset
        if er_ok:
            er_ok = cur_reset
    ctx.judge(w, (t_ok and er_ok) if er_ok is not None else None, slot, exp,
              "loop erasure keeps a repeated cell (cycle in the committed path) or drops the junction cell (gap)", node=wl)


def rule_B4(ctx: Ctx) -> None:
    exp = "connection_list = np.zeros((k, rows, cols), dtype=np.bool_) with (rows, cols) from grid_shape and k = lattice_dim / 2"
    for name in ("gen_dfs", "gen_wilson"):
        f = _gen(ctx, name)
        d = X.assignments_to(f.node, "connection_list")
        ok = None
        slot = {"allocation": [X.U(x)[:100] for x in d]}
        if len(d) == 1 and isinstance(d[0], ast.Call) and dotted_of(d[0].func) in ("np.zeros", "numpy.zeros"):
            shp = d[0].args[0]
            dt = N.kwarg(d[0], "dtype")
            shape_txt = X.U(shp).replace(" ", "")
            ok_shape = shape_txt in ("(lattice_dim,grid_shape[0],grid_shape[1])", "(2,*grid_shape)", "(2,grid_shape[0],grid_shape[1])", "(lattice_dim,*grid_shape)")
            ok = ok_shape and dt is not None and X.U(dt) in ("np.bool_", "bool")
        elif len(d) == 1 and isinstance(d[0], ast.Call) and dotted_of(d[0].func) in ("np.ones", "np.empty", "np.full", "np.ones_like", "np.empty_like"):
            ok = False  # does not start without connections
        ctx.judge(f, ok, slot, exp, "the maze does not have the requested shape / is not boolean / does not start empty")
    # percolation: shape of the random array
    f = _gen(ctx, "gen_percolation")
    # the bulk draw, wherever it is written (a local, or directly inside the constructor call)
    src = [c for c in ast.walk(f.node) if isinstance(c, ast.Call) and (dotted_of(c.func) or "").startswith(("np.random.", "numpy.random.")) and _is_random_bulk(c)
           and not any(_is_random_bulk(a) for a in [*c.args, *[k.value for k in c.keywords]])]
    ok = len(src) == 1 and X.U(src[0].func) in ("np.random.rand",) and X.same_expr_x(src[0], None, "np.random.rand(lattice_dim, *grid_shape)")
    ctx.judge(f, ok, {"draw": [X.U(x) for x in src]}, "percolation draws an array of shape (lattice_dim, *grid_shape)")


def rule_B5(ctx: Ctx) -> None:
    exp = "edges are kept iff U < p with U = np.random.rand(...) in [0, 1): p = 0 keeps none, p = 1 keeps all"
    for name in ("gen_percolation", "gen_dfs_percolation"):
        f = _gen(ctx, name)
        cmps = [n for n in ast.walk(f.node) if isinstance(n, ast.Compare) and _is_random_bulk(n)]
        if len(cmps) != 1:
            ctx.unknown(f, {"threshold_comparisons": len(cmps)}, exp)
            continue
        c = cmps[0]
        ok = None
        if len(c.ops) == 1:
            l_rand = _is_random_bulk(c.left)
            p_side = X.U(c.comparators[0] if l_rand else c.left)
            op = type(c.ops[0])
            if p_side == "p":
                ok = (op is ast.Lt) if l_rand else (op is ast.Gt)
        # negation around it?
        ctx.judge(f, ok, {"comparison": X.U(c)}, exp,
                  "with `<=`/`>`/a negated form the p = 0 or p = 1 sentence of the property fails (U can be exactly 0; the set is complemented)", node=c)
        par = X.parents_map(f.node)
        neg = isinstance(par.get(c), ast.UnaryOp)
        ctx.judge(f, not neg, {"negated": neg}, "the comparison result is used un-negated", node=c)


def rule_B6(ctx: Ctx) -> None:
    m = ctx.index.module(GEN)
    v = m.assigns.get("GENERATORS_MAP")
    exp = "GENERATORS_MAP is a dict literal mapping each gen_* static method's __name__ to that method, covering all of them"
    if not isinstance(v, ast.Dict):
        ctx.unknown((m.relpath, f"{GEN}.GENERATORS_MAP", 0), {}, exp, "not a dict literal")
        return
    gens = {n for n in ctx.index.cls(NS).methods if n.startswith("gen_")}
    seen = set()
    for k, val in zip(v.keys, v.values):
        key = k.value if isinstance(k, ast.Constant) else None
        tgt = dotted_of(val) or ""
        ok = key is not None and tgt == f"LatticeMazeGenerators.{key}" and key in gens
        seen.add(key)
        ctx.judge((m.relpath, f"{GEN}.GENERATORS_MAP[{key!r}]", k.lineno), ok, {"key": key, "value": tgt}, exp,
                  "a config naming this generator is loaded with a different function")
    ctx.judge((m.relpath, f"{GEN}.GENERATORS_MAP", v.lineno), gens <= seen, {"generators": sorted(gens), "registered": sorted(x for x in seen if x)}, exp)
    for n in gens:
        f = _gen(ctx, n)
        ctx.judge(f, f.is_static, {"staticmethod": f.is_static}, "generators are static methods (picklable for the worker pool)")
        # the registry key, the serialised `__name__` of a configuration's generator and the recorded func_name all rest on the function keeping
        # the name it is defined under: a decorator that copies another function's metadata onto it (functools.wraps / update_wrapper) renames it
        renaming = [d.name for d in f.decorators if d.name.rsplit(".", 1)[-1] in ("wraps", "update_wrapper")]
        ctx.judge(f, not renaming, {"renaming_decorators": renaming}, "a generator's __name__ is the name it is registered under",
                  "a configuration naming this generator serialises as the other one: it reloads with the other function, and both share hash and file name")


def rule_B7(ctx: Ctx) -> None:
    f = _gen(ctx, "gen_dfs")
    P = _dfs_parts(f)
    lp, grow = P["loop"], P["grow"]
    ok, slot = X.same_relation(lp.test, "stack and len(visited_cells) < n_accessible_cells")
    ctx.judge(f, ok, slot, "the loop runs while the stack is non-empty and fewer than n_accessible_cells cells are visited",
              "with default arguments the loop can stop before every cell is attached (or run past the requested count)", node=lp)
    # re-push guard: the current cell is pushed back exactly when it had > 1 unvisited neighbours (and forks are allowed)
    rep = [n for n in grow.body if isinstance(n, ast.If) and any(isinstance(s, ast.Expr) and X.U(s.value) == "stack.append(current_coord)" for s in n.body)]
    if len(rep) != 1:
        ctx.unknown(f, {"re_push_guards": len(rep)}, "one re-push guard")
    else:
        lst = None
        for a in ast.walk(rep[0].test):
            if isinstance(a, ast.Call) and dotted_of(a.func) == "len":
                lst = X.U(a.args[0])
        ok, slot = X.same_relation(rep[0].test, f"do_forks and len({lst}) > 1")
        ctx.judge(f, ok, slot, "the popped cell is re-pushed iff do_forks and it has more than one unvisited neighbour "
                  "(so an empty stack means no visited cell has an unvisited neighbour)",
                  "cells with remaining unvisited neighbours are dropped from the stack: the default DFS can end before spanning the grid", node=rep[0])
    for p, want in (("accessible_cells", None), ("max_tree_depth", None), ("do_forks", True)):
        d = f.param_default(p)
        ok = isinstance(d, ast.Constant) and d.value is want
        ctx.judge(f, ok, {"param": p, "default": X.U(d)}, "defaults: accessible_cells=None, max_tree_depth=None, do_forks=True")
    # default resolution: None -> all cells / depth bound 2 * total
    na = X.assignments_to(f.node, "n_accessible_cells")
    ok = any(X.U(x) == "n_total_cells" for x in na)
    tot = X.assignments_to(f.node, "n_total_cells")
    # np.prod / ndarray.prod accumulate in the platform integer; a product of two components (or math.prod) stays in the array's own element type and
    # wraps for an int8 grid shape (the type the Coord alias prescribes) from 128 cells on
    ok = ok and len(tot) == 1 and X.same_expr(tot[0], "int(np.prod(grid_shape))", "np.prod(grid_shape)", "int(grid_shape.prod())", "grid_shape.prod()")
    ctx.judge(f, ok, {"n_accessible_cells": [X.U(x) for x in na], "n_total_cells": [X.U(x) for x in tot]},
              "accessible_cells=None resolves to the total number of cells = np.prod(grid_shape) (accumulated in a wide integer)",
              "the cell count wraps for narrow integer grid shapes: the search stops early and still records fully_connected=True")
    depth_guard = None
    for a in N.nf_atoms(N.boolean_nf(grow.test)):
        if a.diff is not None and any("current_tree_depth" in str(k) for k in a.diff):
            depth_guard = a
    md = X.assignments_to(f.node, "max_tree_depth")
    ok = depth_guard is not None and any(N.aff_eq(x, X.expr_of("2 * n_total_cells")) for x in md)
    want = N.boolean_nf(X.expr_of("current_tree_depth <= max_tree_depth / 2"))
    ctx.judge(f, ok and depth_guard.key() == want.key(), {"depth_guard": repr(depth_guard), "default_max_depth": [X.U(x) for x in md][:2]},
              "the depth guard `current_tree_depth <= max_tree_depth / 2` can never bind under the default max_tree_depth = 2 * n_total_cells")


def rule_B8(ctx: Ctx) -> None:
    f = ctx.index.func(f"{GEN}._random_start_coord")
    gs, sc = f.params()[:2]
    exp = ("a given start cell is returned as it is (np.array of it); only for None a random cell is drawn with "
           "np.random.randint(0, high, size=len(grid_shape)), high = np.maximum(grid_shape - 1, 1) (or grid_shape): inside the grid on every axis")
    from sa import dtable as DT

    rows = DT.table(f.node, {"no_start_given": [f"{sc} is None"]})
    seen = {"random": 0, "given": 0}
    for row in rows:
        o = row["outcome"]
        given = not row["assignment"]["no_start_given"]
        extra = {k: v for k, v in row["assignment"].items() if k.startswith("?")}
        if o[0] != "return" or o[1] is None:
            ctx.judge(f, None if o[0] == "unknown" else False, {"branch": "given" if given else "None", "outcome": DT.outcome_str(o)[:120], **extra}, exp)
            continue
        if given:
            seen["given"] += 1
            ok = X.same_expr(o[1], f"np.array({sc})", f"np.asarray({sc})")
            ctx.judge(f, ok, {"branch": f"{sc} is not None", "value": X.U(o[1])[:120], **extra}, exp, "a given start cell is not used as given")
        else:
            seen["random"] += 1
            ok = X.same_expr(o[1], f"np.random.randint(0, np.maximum({gs} - 1, 1), size=len({gs}))", f"np.random.randint(0, {gs}, size=len({gs}))",
                             f"np.random.randint(low=0, high=np.maximum({gs} - 1, 1), size=len({gs}))")
            ctx.judge(f, ok, {"branch": f"{sc} is None", "value": X.U(o[1])[:120], **extra}, exp, "the start cell can lie outside the grid (or have the wrong dimension)")
    if not (seen["random"] and seen["given"]):
        ctx.violation(f, {"branches_seen": seen}, exp, "one of the two cases (given start / random start) is missing")


def _forwarded(call: ast.Call) -> dict:
    return {k.arg: X.U(k.value) for k in call.keywords if k.arg}


def rule_B9(ctx: Ctx) -> None:
    # gen_prim delegates to gen_dfs with every parameter forwarded by name and randomized_stack=True
    f = _gen(ctx, "gen_prim")
    calls = [c for c in X.calls(f.node) if X.U(c.func).endswith("gen_dfs")]
    exp = "the delegating generator forwards each of its parameters to gen_dfs under the same name"
    if len(calls) != 1:
        ctx.unknown(f, {"gen_dfs_calls": len(calls)}, exp)
    else:
        fw = _forwarded(calls[0])
        want = {p: p for p in f.params()}
        want["randomized_stack"] = "True"
        rets = X.returns_of(f.node)
        ctx.judge(f, fw == want and not calls[0].args and len(rets) == 1 and rets[0].value is calls[0], {"forwarded": fw}, exp,
                  "an argument is dropped or crossed: the prim alias ignores a constraint / returns another maze")
    f = _gen(ctx, "gen_dfs_percolation")
    calls = [c for c in X.calls(f.node) if X.U(c.func).endswith("gen_dfs")]
    if len(calls) != 1:
        ctx.unknown(f, {"gen_dfs_calls": len(calls)}, exp)
    else:
        fw = _forwarded(calls[0])
        want = {p: p for p in f.params() if p != "p"}
        ctx.judge(f, fw == want and not calls[0].args, {"forwarded": fw}, exp + " (all but the percolation probability)",
                  "an argument is dropped or crossed: the DFS stage ignores a constraint or starts elsewhere than recorded")
        # percolation only ADDS edges to the DFS maze
        st = [x for x in ast.walk(f.node) if isinstance(x, ast.Assign) and isinstance(x.targets[0], ast.Subscript) and "connection_list" in X.U(x.targets[0])]
        ok = False
        if len(st) == 1:
            v_ = st[0].value
            if isinstance(v_, ast.Call) and dotted_of(v_.func) in ("np.logical_or", "numpy.logical_or") and len(v_.args) == 2:
                ok = "maze.connection_list" in [X.U(a) for a in v_.args]
            elif isinstance(v_, ast.BinOp) and isinstance(v_.op, ast.BitOr):
                ok = "maze.connection_list" in (X.U(v_.left), X.U(v_.right))
        ctx.judge(f, ok, {"combine": X.U(st[0].value) if st else None},
                  "the percolated maze is the union (logical_or) of the DFS maze and the random edges: every DFS connection survives",
                  "DFS connections are removed by the combination: the maze is no longer connected although the DFS metadata says so")


class _Uniform:
    """one cell of `np.random.rand(...)`: a value in [0, 1).  Comparisons with a threshold are decided when the threshold leaves no choice
    (`U < 0` never, `U < 1` always, ...), otherwise they are a choice point of the exploration"""

    def __init__(self, sc) -> None:
        self.sc = sc

    def _lt(self, p, strict_self_small: bool):
        # U < p (strict_self_small) or U <= p
        if p >= 1:
            return True
        if p < 0 or (p == 0 and strict_self_small):
            return False
        return bool(self.sc.choose(2))

    def __lt__(self, p):
        return self._lt(p, True)

    def __le__(self, p):
        return self._lt(p, False)

    def __gt__(self, p):
        return not self._lt(p, False)

    def __ge__(self, p):
        return not self._lt(p, True)


def _generator_outcomes(index, name, shape, kwargs, max_depth, max_runs=6000, n_samples=0):
    """every outcome of one generator call under all sequences of random draws (bounded by max_depth choice points):
    (complete results as (connection list data, generation_meta), raised exception names, pruned branches, undecided reason)"""
    from sa.absnp import MODELS, Arr, _full
    from sa.absobj import AbstractClass
    from sa.choice import PRUNED, explore, models, sample
    from sa.fold import EvalRaised, Obj, Unknown

    def run(sc):
        maze_ac = AbstractClass(index, f"{LM}.LatticeMaze", max_steps=400_000, extra_calls={**MODELS, **models(sc)})
        ac = AbstractClass(index, NS, max_steps=600_000, extra_calls={
            **MODELS, **models(sc), "LatticeMaze": lambda **kw: Obj("LatticeMaze", dict(kw)),
            "np.random.rand": lambda *sh: _elementwise_fill(sh, sc)})
        ac.delegates["LatticeMaze"] = maze_ac
        return ac.call(None, name, [Arr(list(shape))], dict(kwargs))

    def _elementwise_fill(sh, sc):
        a = _full([int(x) for x in sh], None)

        def fill(d):
            for i, x in enumerate(d):
                if isinstance(x, list):
                    fill(x)
                else:
                    d[i] = _Uniform(sc)
        fill(a.data)
        return a
    import time as _time

    done, raised, pruned, unk = [], [], 0, None
    t0 = _time.process_time()
    try:
        runs = sample(run, n_samples, seed=shape[0] * 31 + shape[1]) if n_samples else explore(run, max_runs=max_runs, max_depth=max_depth)
        for _, out in runs:
            if _time.process_time() - t0 > 90:
                raise Unknown("exploration budget (90 s of cpu time per case) exceeded")
            if out is PRUNED:
                pruned += 1
            elif isinstance(out, EvalRaised):
                raised.append(out.exc_name)
            elif isinstance(out, Obj) and isinstance(out.attrs.get("connection_list"), Arr):
                done.append((out.attrs["connection_list"], out.attrs.get("generation_meta")))
            else:
                done.append((None, repr(out)[:80]))
    except Unknown as e:
        unk = str(e)[:160]
    return done, raised, pruned, unk


def _graph_of(cl, shape):
    "(edges inside the grid, edges leaving the grid, bad cells) of an abstract connection list"
    r, c = shape
    inside, leaving, odd = set(), [], []
    if cl is None or cl.shape != (2, r, c):
        return None
    for d in range(2):
        for i in range(r):
            for j in range(c):
                v = cl.data[d][i][j]
                if v not in (True, False, 0, 1):
                    odd.append((d, i, j, repr(v)[:20]))
                elif v:
                    b = (i + 1, j) if d == 0 else (i, j + 1)
                    (inside.add(((i, j), b)) if b[0] < r and b[1] < c else leaving.append(((i, j), b)))
    return inside, leaving, odd


def _tree_job(index, job):
    "one (generator, grid, kwargs, depth) case of B10: deviations of its outcomes from 'a spanning tree of the requested grid'"
    from sa import absmaze as AM

    name, shape, kwargs, depth, want = job[:5]
    n_samples = job[5] if len(job) > 5 else 0
    done, raised, pruned, unk = _generator_outcomes(index, name, shape, kwargs, depth, n_samples=n_samples)
    bad = []
    for cl, meta in done:
        g = _graph_of(cl, shape)
        if g is None:
            bad.append({"found": "connection list of another shape" if cl is not None else meta, "expected": [2, *shape]})
            continue
        inside, leaving, odd = g
        why = []
        if leaving:
            why.append(f"connection leaves the grid: {leaving[:2]}")
        if odd:
            why.append(f"non-boolean cells: {odd[:2]}")
        n_cells = shape[0] * shape[1]
        if want == "tree":
            reach = AM.bfs(inside, (0, 0))
            if len(inside) != n_cells - 1:
                why.append(f"{len(inside)} connections, a spanning tree of {n_cells} cells has {n_cells - 1}")
            if len(reach) != n_cells:
                why.append(f"only {len(reach)} of {n_cells} cells are connected to (0, 0)")
        elif want == "empty" and inside:
            why.append(f"{len(inside)} connections with p = 0")
        elif want == "full" and len(inside) != len(AM.lattice_edges(*shape)):
            why.append(f"{len(inside)} of {len(AM.lattice_edges(*shape))} lattice connections with p = 1")
        if why:
            bad.append({"connections": sorted(inside)[:12], "why": why})
    for r_ in raised:
        bad.append({"found": f"raises {r_}"})
    return {"case": [name, list(shape), {k: v for k, v in kwargs.items()}], "complete": len(done), "pruned": pruned, "deviations": bad[:2], "undecided": unk}


def rule_B10(ctx: Ctx) -> None:
    """bounded semantic check of the generators (E15, nondeterministic): each generator is interpreted on small grids once per sequence of
    outcomes of its random draws.  gen_dfs / gen_prim (default arguments, and every explicit start cell) and gen_wilson (random walks explored
    up to a depth) must return a spanning tree of the requested grid with no connection leaving it; gen_percolation / gen_dfs_percolation
    keep no connection for p = 0 (percolation) and every lattice connection for p = 1, never one that leaves the grid"""
    from sa import absmaze as AM

    thorough = ctx.tier == "thorough"
    jobs = []
    grids = [(2, 2), (2, 3), (3, 2), (3, 3), (2, 4), (4, 2), (1, 3), (3, 1)] + ([(3, 4), (4, 3), (2, 5)] if thorough else [])
    for g in grids:
        jobs.append(("gen_dfs", g, {}, None, "tree"))
    for g in [(2, 2), (2, 3), (3, 2)] + ([(3, 3)] if thorough else []):
        for cell in AM.cells(g):
            jobs.append(("gen_dfs", g, {"start_coord": cell}, None, "tree"))
    for g in [(2, 2), (2, 3), (3, 2)]:
        jobs.append(("gen_prim", g, {}, None, "tree"))
    for g, depth in [((2, 2), 9), ((2, 3), 8 if not thorough else 10), ((3, 2), 8 if not thorough else 10)]:
        jobs.append(("gen_wilson", g, {}, depth, "tree"))
    # one-cell-wide corridors (a walk needs about n^2 steps there) exhaustively to a greater depth, and a reproducible sample of complete walks on
    # grids whose walks are too deep to enumerate (loops closed on an earlier loop's cell need a 3x3 grid and a dozen steps)
    for g, depth in [((1, 3), 13), ((3, 1), 13), ((1, 4), 12)]:
        jobs.append(("gen_wilson", g, {}, depth, "tree"))
    for g, n_s in [((3, 3), 120 if not thorough else 1500), ((3, 4), 60 if not thorough else 600), ((4, 4), 40 if not thorough else 400), ((1, 5), 80)]:
        jobs.append(("gen_wilson", g, {}, None, "tree", n_s))
    for g in [(2, 2), (2, 3), (3, 2)]:
        jobs.append(("gen_percolation", g, {"p": 0.0}, None, "empty"))
        jobs.append(("gen_percolation", g, {"p": 1.0}, None, "full"))
        jobs.append(("gen_dfs_percolation", g, {"p": 1.0}, None, "full"))
        jobs.append(("gen_dfs_percolation", g, {"p": 0.0}, None, "tree"))
    jobs.append(("gen_percolation", (2, 2), {"p": 0.5}, None, "any"))
    have = set(ctx.index.cls(NS).methods)
    jobs = [j for j in jobs if j[0] in have]
    res = AM.parallel_map(lambda j: _tree_job(ctx.index, j), jobs, min_parallel=8)
    by_gen: dict = {}
    for j, r in zip(jobs, res):
        by_gen.setdefault(j[0], []).append(r)
    for name, rs in sorted(by_gen.items()):
        f = _gen(ctx, name)
        bad = [{**d, "case": r["case"]} for r in rs for d in r["deviations"]]
        unk = [f"{r['case']}: {r['undecided']}" for r in rs if r["undecided"]]
        empty = [r["case"] for r in rs if not r["complete"] and not r["undecided"] and not r["deviations"]]
        ctx.judge(f, False if bad else None if (unk or empty) else True,
                  {"cases": len(rs), "complete_outcomes": sum(r["complete"] for r in rs), "pruned_walks": sum(r["pruned"] for r in rs), "deviations": bad[:2],
                   "undecided": unk[:2], "cases_without_a_complete_outcome": empty[:2]},
                  "every outcome of the random draws is a connection structure of the requested shape with no connection leaving the grid; a spanning tree "
                  "for gen_dfs / gen_prim / gen_wilson with default arguments; no / every lattice connection for percolation with p = 0 / p = 1",
                  "a generated maze has a cycle, an unreachable cell, a connection out of the grid or the wrong shape")
    ok_all = all(not r["deviations"] and not r["undecided"] and r["complete"] for r in res)
    if ok_all:
        ctx.cover([f"{NS}.{n_}" for n_ in by_gen], by="C01.B10", supersedes=["C01.B2", "C01.B3", "C01.B4", "C01.B5", "C01.B7"], whole_rules=["C01.B2", "C01.B3"],
                  bound=f"{len(jobs)} generator cases, {sum(r['complete'] for r in res)} complete outcomes over all draw sequences on grids up to 3x3 / 2x4")


RULES = [
    Rule("C01.B10", rule_B10, floor=4, doc="bounded semantic check: every outcome of every generator's draws on small grids is well formed (spanning tree where promised)"),
    Rule("C01.B1", rule_B1, floor=5, doc="boundary sanitisation (taint)"),
    Rule("C01.B2", rule_B2, floor=8, doc="lesser-endpoint idiom on in-bounds neighbours"),
    Rule("C01.B3", rule_B3, floor=5, doc="edge/visit pairing"),
    Rule("C01.B4", rule_B4, floor=3, doc="allocation"),
    Rule("C01.B5", rule_B5, floor=4, doc="percolation threshold form"),
    Rule("C01.B6", rule_B6, floor=16, doc="registry"),
    Rule("C01.B7", rule_B7, floor=7, doc="default completeness of DFS"),
    Rule("C01.B8", rule_B8, floor=2, doc="start cell inside the grid"),
    Rule("C01.B9", rule_B9, floor=3, doc="delegating generators forward their arguments; percolation only adds edges"),
]

from sa import dims as _dims  # noqa: E402

RULES.append(Rule("C01.AX", _dims.make_rule("C01", "C01.AX"), floor=1,
                  doc="axis-extent agreement: coordinate components are bounded by the extent of their own axis (E13)"))

from sa import exits as _exits_ms  # noqa: E402

RULES.append(Rule("C01.MS", _exits_ms.make_state_rule("C01", "C01.MS", _exits_ms.SCOPES.get("C01", [])), floor=1,
                  doc="no hidden state on the anchored path (module level, per object, memoising decorators): results do not depend on the history of the process (E17)"))

from sa import exits as _exits_nw  # noqa: E402

RULES.append(Rule("C01.NW", _exits_nw.make_narrowing_rule("C01", "C01.NW", _exits_nw.SCOPES.get("C01", [])), floor=1,
                  doc="no new narrowing cast (8/16-bit element types) on the anchored path: coordinates, lengths and indices do not wrap (E18)"))
