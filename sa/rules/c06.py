"""C06 -- modular tokenization is a faithful, decodable encoding of the maze

Decided: the *structure of the encoder* (not the decoding of 5.9 M configurations x mazes).
Clauses: T1 delimiter discipline of the prompt sequencers; T2 region order agreement and trimming;
T3 vocabulary membership of every VOCAB / SPECIAL_TOKENS attribute read; T4 connection / wall
polarity; T5 wall subset inside the grid (C13.V1); T6 connector position; T7 permitted
nondeterminism only; T8 path tokenization structure (step sizes, step tokenizers); T9 direction
tables; T10 coordinate / target tokenizers; T11 adjacency pipeline (subset -> permute -> group ->
shuffle -> tokenize) and edge permuters.
"""

from __future__ import annotations

import ast
import re

from sa import astx as X
from sa import normal as N
from sa.callgraph import CallGraph
from sa.effects import Effects
from sa.fold import Evaluator, Unknown
from sa.index import AnalysisError, dotted_of
from sa.report import Ctx, Rule

MT = "maze_dataset.tokenization.maze_tokenizer"
TU = "maze_dataset.token_utils"
CO = "maze_dataset.constants"

EXPLANATION = (
    "Structural rules over maze_dataset/tokenization/maze_tokenizer.py and token_utils.py: the literal token sequences of the prompt "
    "sequencers, the order of the four regions, the set of VOCAB attribute names used anywhere versus the folded vocabulary "
    "declaration, the True->CONNECTOR / False->WALL maps of the sibling adjacency tokenizers, the callable permutation for the "
    "connector ordinal, an RNG-site census over the call-graph closure of to_tokens, the step index arithmetic of the path tokenizers, "
    "and the cardinal / relative direction tables."
)
ASSUMPTIONS = ["the independent decoder of the property statement is not part of the analysis: faithfulness is decided clause by clause on the encoder",
               "numpy lexsort / split / unique / flip / append semantics in the edge grouping and permuting code"]
TRUSTED = ["ast"]


def _seq_elements(lst: ast.List) -> list[str]:
    out = []
    for e in lst.elts:
        if isinstance(e, ast.Starred):
            out.append("*" + X.U(e.value))
        else:
            d = dotted_of(e)
            out.append(d.split(".")[-1] if d and d.split(".")[0] in ("VOCAB", "SPECIAL_TOKENS") else X.U(e))
    return out


def rule_T1(ctx: Ctx) -> None:
    want = {"AOTP": ["ADJLIST_START", "*adj_list", "ADJLIST_END", "ORIGIN_START", "*origin", "ORIGIN_END", "TARGET_START", "*target", "TARGET_END",
                     "PATH_START", "*path", "PATH_END"],
            "AOP": ["ADJLIST_START", "*adj_list", "ADJLIST_END", "ORIGIN_START", "*origin", "ORIGIN_END", "TARGET_START", "TARGET_END",
                    "PATH_START", "*path", "PATH_END"]}
    ps = ctx.index.cls(f"{MT}.PromptSequencers")
    seqs = [c for c in ps.nested.values() if "_sequence_tokens" in c.methods and c.name != "_PromptSequencer"]
    for c in seqs:
        f = c.methods["_sequence_tokens"]
        r = X.returns_of(f.node)
        got = None
        if len(r) == 1:
            v = r[0].value
            # list literal or concatenation of list literals
            parts = []
            def flat(e):
                if isinstance(e, ast.BinOp) and isinstance(e.op, ast.Add):
                    flat(e.left); flat(e.right)
                elif isinstance(e, ast.List):
                    parts.extend(_seq_elements(e))
                elif isinstance(e, ast.Name):
                    parts.append("*" + e.id)
                else:
                    parts.append("?" + X.U(e)[:30])
            flat(v)
            got = parts
        params = f.params()[1:]
        ok = got is not None and params == ["adj_list", "origin", "target", "path"] and c.name in want and got == want[c.name]
        ctx.judge(f, ok if c.name in want else None, {"sequencer": c.name, "sequence": got, "parameters": params},
                  "regions appear as ADJLIST, ORIGIN, TARGET, PATH, each opened and closed exactly once by its own delimiters, contents between their own delimiters (AOP: empty TARGET region)",
                  "a region is delimited by another region's tokens / delimiters are duplicated, dropped or reordered")
    if len(seqs) < 2:
        ctx.unknown(ps, {"sequencers": [c.name for c in seqs]}, "AOTP and AOP")


def rule_T2(ctx: Ctx) -> None:
    f = ctx.index.func(f"{MT}.PromptSequencers._PromptSequencer._get_prompt_regions")
    r = X.returns_of(f.node)
    exp = "_get_prompt_regions returns [adjacency, origin(start_pos), target([end_pos]), path] - the parameter order of _sequence_tokens"
    ok = None
    slot = {}
    if len(r) == 1 and isinstance(r[0].value, ast.List) and len(r[0].value.elts) == 4:
        e = r[0].value.elts
        def main(x):
            return x.body if isinstance(x, ast.IfExp) else x
        o_def = X.assignments_to(f.node, "origin")
        t_def = X.assignments_to(f.node, "target")
        ok = X.same_expr(main(e[0]), "self.adj_list_tokenizer.to_tokens(maze, coord_tokenizer=self.coord_tokenizer)") \
            and X.same_expr(main(e[1]), "self.coord_tokenizer.to_tokens(origin)") \
            and X.same_expr(main(e[2]), "self.target_tokenizer.to_tokens(target, coord_tokenizer=self.coord_tokenizer)") \
            and X.same_expr(main(e[3]), "self.path_tokenizer.to_tokens(maze, coord_tokenizer=self.coord_tokenizer)") \
            and len(o_def) == 1 and X.same_expr(o_def[0], "getattr(maze, 'start_pos', None)") \
            and len(t_def) == 1 and X.same_expr(t_def[0], "[getattr(maze, 'end_pos', None)]")
        conds = [X.U(x.test) if isinstance(x, ast.IfExp) else None for x in e]
        slot = {"regions": [X.U(main(x))[:70] for x in e], "conditions": conds}
        ok = ok and conds[1] == "origin is not None" and conds[2] is not None and "target[0] is not None" in conds[2] and conds[3] is not None and "hasattr(maze, 'solution')" in conds[3]
    ctx.judge(f, ok, slot, exp, "origin and target are swapped, or a region is computed from the wrong maze attribute")
    t = ctx.index.func(f"{MT}.PromptSequencers._PromptSequencer.to_tokens")
    r = X.returns_of(t.node)
    un = X.assignments_to(t.node, "untrimmed")
    ok = len(un) == 1 and X.same_expr(un[0], "self._sequence_tokens(*self._get_prompt_regions(maze))") and len(r) == 1 \
        and X.same_expr(r[0].value, "self._trim_if_unsolved_maze(untrimmed, not hasattr(maze, 'start_pos'), not hasattr(maze, 'solution'))")
    ctx.judge(t, ok, {"returns": X.U(r[0].value)[:120] if r else None}, "to_tokens sequences the four regions and trims by maze kind (untargeted: no start_pos; unsolved: no solution)")
    tr = ctx.index.func(f"{MT}.PromptSequencers._PromptSequencer._trim_if_unsolved_maze")
    from sa import dtable as DT

    rows = DT.table(tr.node, {"untargeted": ["is_untargeted"], "unsolved": ["is_unsolved"], "has_target_region": ["VOCAB.TARGET_END in untrimmed"]})

    def _cut(end):
        def pred(o):
            if o[0] != "return" or not isinstance(o[1], ast.Call) or dotted_of(o[1].func) != "tokens_between":
                return False
            c = o[1]
            a = [N.arg_or_kw(c, 0, "tokens"), N.arg_or_kw(c, 1, "start_value"), N.arg_or_kw(c, 2, "end_value")]
            inc = (N.arg_or_kw(c, 3, "include_start"), N.arg_or_kw(c, 4, "include_end"))
            return all(x is not None for x in a) and X.U(a[0]) == "untrimmed" and X.U(a[1]) == "VOCAB.ADJLIST_START" and X.U(a[2]) == f"VOCAB.{end}" \
                and all(isinstance(x, ast.Constant) and x.value is True for x in inc)
        return pred

    def expected(a):
        if a["untargeted"]:
            return _cut("ADJLIST_END")
        if a["unsolved"]:
            return _cut("TARGET_END") if a["has_target_region"] else _cut("ORIGIN_END")
        return lambda o: o[0] == "return" and X.U(o[1]) == "untrimmed"
    ok_t, rep = DT.judge_table(rows, expected)
    ctx.judge(tr, ok_t, {"table": rep},
              "an untargeted maze keeps ADJLIST_START..ADJLIST_END; an unsolved one keeps up to TARGET_END (ORIGIN_END if there is no target region); a solved one everything",
              "a maze kind keeps regions it does not have (empty ORIGIN/TARGET/PATH delimiters) or loses one it has")
    tb = ctx.index.func(f"{TU}.tokens_between")
    # abstract evaluation over a symbolic token list: every flag combination, and the documented error cases
    from sa.fold import EvalRaised, Evaluator, Unknown

    toks = ["a", "<S>", "x", "y", "<E>", "b"]
    pt = tb.params()
    bad, unk = [], []
    cases = []
    for inc_s in (False, True):
        for inc_e in (False, True):
            for uniq in (False, True):
                cases.append((list(toks), "<S>", "<E>", inc_s, inc_e, uniq, toks[1 + (0 if inc_s else 1): 4 + (1 if inc_e else 0)]))
    cases.append((["<S>", "<E>"], "<S>", "<E>", False, False, False, "raises AssertionError|[]"))
    cases.append((["a", "<E>", "x", "<S>"], "<S>", "<E>", False, False, False, "raises"))
    cases.append((["a", "<S>", "x"], "<S>", "<E>", False, False, False, "raises"))
    cases.append((["<S>", "x", "<E>", "<S>"], "<S>", "<E>", False, False, True, "raises"))
    cases.append((["<S>", "x", "<E>", "<S>", "y", "<E>"], "<S>", "<E>", False, False, False, ["x"]))
    for tk, sv, evl, inc_s, inc_e, uniq, want in cases:
        env = dict(zip(pt, [tk, sv, evl, inc_s, inc_e, uniq]))
        try:
            got = Evaluator().run_body(X.body_wo_doc(tb.node), env)
        except EvalRaised as e:
            got = f"raises {e.exc_name}"
        except Unknown as e:
            unk.append(str(e)[:140])
            continue
        good = (got == want) if isinstance(want, list) else (isinstance(got, str) and got.startswith("raises")) or (want.endswith("|[]") and got == [])
        if not good:
            bad.append({"tokens": tk, "include_start": inc_s, "include_end": inc_e, "found": got, "expected": want})
    ctx.judge(tb, False if bad else None if unk else True, {"cases": len(cases), "parameters": pt, "deviations": bad[:3], "undecided": unk[:2]},
              "tokens_between returns the tokens strictly between the delimiters, each delimiter included iff its flag says so")


def _vocab_names(ctx: Ctx) -> tuple[set[str], set[str]]:
    from sa.rules.c14 import _fold_vocab
    names, toks = _fold_vocab(ctx)
    special = set(ctx.index.cls(f"{CO}._SPECIAL_TOKENS_BASE").fields)
    return set(names), special


def rule_T3(ctx: Ctx) -> None:
    vocab, special = _vocab_names(ctx)
    methods = set(ctx.index.cls(f"{CO}._SPECIAL_TOKENS_BASE").methods)
    n_reads = 0
    bad = []
    for m in ctx.index.modules.values():
        for n in ast.walk(m.tree):
            if isinstance(n, ast.Attribute) and isinstance(n.value, ast.Name) and n.value.id in ("VOCAB", "SPECIAL_TOKENS"):
                if m.imports.get(n.value.id, "").endswith(n.value.id) or (m.name == CO):
                    n_reads += 1
                    pool = vocab if n.value.id == "VOCAB" else special
                    if n.attr not in pool and n.attr not in methods and not n.attr.startswith("__"):
                        bad.append((m.relpath, n.lineno, f"{n.value.id}.{n.attr}"))
    where = (ctx.index.module(CO).relpath, f"{CO}.VOCAB", 0)
    ctx.judge(where, not bad, {"attribute_reads": n_reads, "undeclared": bad[:5]},
              "every VOCAB.<N> / SPECIAL_TOKENS.<N> read in the package names a declared vocabulary field",
              "a tokenizer path raises AttributeError (or emits a token outside the vocabulary) for the configurations that reach it")
    ctx.stat("vocab_attribute_reads", n_reads)
    # dynamic access: getattr(VOCAB, f"I_{d:03}")
    dyn = []
    for fq, f in ctx.index.functions.items():
        for c in X.calls(f.node):
            if dotted_of(c.func) == "getattr" and c.args and X.U(c.args[0]) == "VOCAB":
                dyn.append((f, c))
    for f, c in dyn:
        tmpl = c.args[1]
        ok = None
        slot = {"template": X.U(tmpl)}
        if isinstance(tmpl, ast.JoinedStr):
            ev = Evaluator()
            var = [v.value.id for v in tmpl.values if isinstance(v, ast.FormattedValue) and isinstance(v.value, ast.Name)]
            if len(var) == 1:
                try:
                    gen = {ev.ev(tmpl, {var[0]: k}) for k in range(0, 256)}
                    ok = gen <= vocab
                    slot["names_for_0_255_declared"] = ok
                    slot["example"] = sorted(gen)[:2]
                except Unknown:
                    ok = None
        ctx.judge(f, ok, slot, "the dynamically built field name I_{d:03} is a declared field for every step distance 0..255",
                  "a path step of some length raises AttributeError", node=c)
    if not dyn:
        ctx.note("no dynamic getattr(VOCAB, ...) found")


def rule_T4(ctx: Ctx) -> None:
    al = ctx.index.cls(f"{MT}.AdjListTokenizers")
    sib = [c for c in al.nested.values() if "_tokenization_callables" in c.methods and c.name != "_AdjListTokenizer"]
    for c in sib:
        f = c.methods["_tokenization_callables"]
        maps = [n for n in ast.walk(f.node) if isinstance(n, ast.Dict) and len(n.keys) == 2 and all(isinstance(k, ast.Constant) and isinstance(k.value, bool) for k in n.keys)]
        ok = None
        slot = {"class": c.name}
        if len(maps) == 1:
            mp = {k.value: (dotted_of(v) or X.U(v)) for k, v in zip(maps[0].keys, maps[0].values)}
            slot["map"] = {str(k): v for k, v in mp.items()}
            ok = mp == {True: "VOCAB.CONNECTOR", False: "VOCAB.ADJLIST_WALL"}
        r = X.returns_of(f.node)
        lams = r[0].value.elts if len(r) == 1 and isinstance(r[0].value, ast.List) else []
        idx_ok = len(lams) == 3 and isinstance(lams[1], ast.Lambda) and X.same_expr(lams[1].body, f"conn_token_map[is_conn[{lams[1].args.args[0].arg}]]")
        lead_ok = len(lams) == 3 and isinstance(lams[0], ast.Lambda) and X.same_expr(lams[0].body, f"coord_tokenizer.to_tokens(edges[{lams[0].args.args[0].arg}, 0])")
        if c.name == "AdjListCoord":
            tr_ok = len(lams) == 3 and X.same_expr(lams[2].body, f"coord_tokenizer.to_tokens(edges[{lams[2].args.args[0].arg}, 1])")
        else:
            tr_ok = len(lams) == 3 and X.same_expr(lams[2].body, f"get_cardinal_direction(edges[{lams[2].args.args[0].arg}])")
        slot.update({"connector_indexed_by_is_conn": idx_ok, "leading_is_edge_0": lead_ok, "trailing_ok": tr_ok})
        ctx.judge(f, None if ok is None else (ok and idx_ok and lead_ok and tr_ok), slot,
                  "an edge that is a connection gets VOCAB.CONNECTOR, a wall gets VOCAB.ADJLIST_WALL, looked up by is_conn[i] of the same edge i; leading token = edges[i, 0], trailing = edges[i, 1] / its cardinal direction",
                  "walls are labelled as connections (or vice versa), or an edge gets another edge's label / endpoints")
    if len(sib) < 2:
        ctx.unknown(al, {"siblings": [c.name for c in sib]}, "two sibling implementations")
    from sa.rules.c13 import CANON, judge_is_connection
    judge_is_connection(ctx, f"canonical convention: {CANON}")
    g = ctx.index.func(f"{MT}.AdjListTokenizers._AdjListTokenizer._tokenize_edge_grouping")
    ic = X.assignments_to(g.node, "is_conn")
    ok = len(ic) == 1 and X.same_expr(ic[0], "is_connection(edges, maze.connection_list)")
    tc = X.assignments_to(g.node, "tokenize_callables")
    ok = ok and any(X.same_expr(t, "self._tokenization_callables(edges, is_conn, coord_tokenizer)") for t in tc)
    ctx.judge(g, ok, {"is_conn": X.U(ic[0]) if ic else None}, "connection flags are computed for exactly the edges being tokenized, against the maze's own connection list")


def rule_T6(ctx: Ctx) -> None:
    g = ctx.index.func(f"{MT}.AdjListTokenizers._AdjListTokenizer._tokenize_edge_grouping")
    # abstract evaluation over 3 symbolic edges whose parts are the symbolic token lists L_i (leading coord), C_i (connector / wall),
    # T_i (trailing coord), for every (grouped, ordinal, intra): 12 configurations
    from sa.absnp import Arr
    from sa.fold import EvalRaised, Evaluator, Obj, Unknown, safe

    @safe
    def lead(i):
        return [f"L{i}"]

    @safe
    def conn(i):
        return [f"C{i}"]

    @safe
    def trail(i):
        return [f"T{i}"]

    def _flat(x):
        out = []
        for y in x:
            if isinstance(y, (list, tuple)):
                out.extend(_flat(y))
            else:
                out.append(y)
        return out

    def hook(ev, node, env):
        d = dotted_of(node.func) or ""
        if d.endswith("_tokenization_callables"):
            return [lead, conn, trail]
        if d == "is_connection":
            return "<is_conn>"
        if d == "flatten":
            return _flat(ev.ev(node.args[0], env))
        if d == "empty_sequence_if_attr_false" and len(node.args) == 3:
            seq, obj, attr = (ev.ev(a, env) for a in node.args)
            flag = obj[attr] if isinstance(obj, dict) else obj.attrs[attr]
            return seq if flag else ()
        return NotImplemented
    pg = g.params()
    bad, unk = [], []
    n_edges = 3
    for grouped in (False, True):
        for o in (0, 1, 2):
            for intra in (False, True):
                env = {pg[0]: Obj("AdjListTokenizer"), pg[1]: Arr([[[k, 0], [k, 1]] for k in range(n_edges)]), pg[2]: Obj("maze", {"connection_list": "<CL>"}),
                       pg[3]: Obj("coord_tokenizer"), pg[4]: {"connection_token_ordinal": o, "grouped": grouped, "intra": intra},
                       "VOCAB": Obj("VOCAB", {"ADJLIST_INTRA": "<INTRA>"})}
                if grouped:
                    want = ["L0"] + [t for i in range(n_edges) for t in (([f"C{i}", f"T{i}"] if o == 0 else [f"T{i}", f"C{i}"]) + (["<INTRA>"] if intra else []))]
                else:
                    order = {0: "CLT", 1: "LCT", 2: "LTC"}[o]
                    want = [t for i in range(n_edges) for t in ([f"{c_}{i}" for c_ in order] + (["<INTRA>"] if intra else []))]
                try:
                    got = Evaluator({"__call__": hook}).run_body(X.body_wo_doc(g.node), env)
                    got = list(got) if isinstance(got, (list, tuple)) else got
                except EvalRaised as e:
                    got = f"raises {e.exc_name}"
                except Unknown as e:
                    unk.append(str(e)[:140])
                    continue
                if got != want:
                    bad.append({"grouped": grouped, "ordinal": o, "intra": intra, "found": got, "expected": want})
    ok_u = False if [b for b in bad if not b["grouped"]] else None if unk else True
    ok_g = False if [b for b in bad if b["grouped"]] else None if unk else True
    ctx.judge(g, ok_u, {"configurations": 6, "deviations": [b for b in bad if not b["grouped"]][:2], "undecided": unk[:2]},
              "ungrouped edges: leading coord and trailing part keep their order, the connector/wall token sits at connection_token_ordinal (0, 1 or 2)",
              "the connector appears at another position than configured / the two coordinates are swapped")
    ctx.judge(g, ok_g, {"configurations": 6, "deviations": [b for b in bad if b["grouped"]][:2], "undecided": unk[:2]},
              "grouped edges: the leading coord once, then per edge connector and trailing part, connector first iff the ordinal is 0")
    u = ctx.index.cls(f"{MT}.EdgeGroupings.Ungrouped")
    f = u.fields.get("connection_token_ordinal")
    ok = f is not None and X.U(f.annotation) == "Literal[0, 1, 2]" and N.const_int(f.default) == 1
    tp = u.methods["_token_params"]
    r = X.returns_of(tp.node)
    ok = ok and len(r) == 1 and X.U(N.kwarg(r[0].value, "connection_token_ordinal")) == "self.connection_token_ordinal" and X.U(N.kwarg(r[0].value, "grouped")) == "False" \
        and X.U(N.kwarg(r[0].value, "intra")) == "False"
    ctx.judge(u, ok, {"annotation": X.U(f.annotation) if f else None, "default": X.U(f.default) if f else None},
              "Ungrouped: ordinal domain Literal[0, 1, 2], default 1, forwarded unchanged; not grouped, no intra delimiter")


def rule_T7(ctx: Ctx) -> None:
    cg = CallGraph(ctx.index)
    eff = Effects(ctx.index, ctx.deps.reseeded_rngs())
    closure = cg.closure([f"{MT}.MazeTokenizerModular.to_tokens"])
    ctx.stat("functions_reachable_from_to_tokens", len(closure))
    allowed = {
        f"{MT}.AdjListTokenizers._AdjListTokenizer.to_tokens": "self.shuffle_d0",
        f"{MT}.EdgePermuters.RandomCoords._permute": None,
        f"{MT}.EdgeGroupings.ByLeadingCoord._group_edges": "self.shuffle_group",
        f"{TU}.connection_list_to_adj_list": ("shuffle_d0", "shuffle_d1"),
    }
    n = 0
    for q, path in closure.items():
        f = ctx.index.functions[q]
        par = None
        for s in cg.sites(q):
            if s.external is None or not isinstance(s.node, ast.Call):
                continue
            cls, detail = eff.classify(s.external)
            if cls not in ("RESEEDED", "UNSEEDED"):
                continue
            n += 1
            par = par or X.parents_map(f.node)
            guards = []
            x = s.node
            while x in par:
                child, x = x, par[x]
                if isinstance(x, ast.If) and child in x.body:
                    guards.append(X.U(x.test))
            ok = q in allowed
            if ok and allowed[q] is not None:
                al = allowed[q] if isinstance(allowed[q], tuple) else (allowed[q],)
                ok = any(a == g or g.startswith(a + " and ") for a in al for g in guards)
            guard = guards
            ctx.judge(f, ok, {"call": X.U(s.node)[:70], "enclosing_guards": guard, "call_path": [p.rsplit(".", 1)[-1] for p in path][-4:]},
                      "randomness in tokenization occurs only in the documented shuffles: groups under shuffle_d0, RandomCoords, within-group under shuffle_group "
                      "(and the adjacency-list helper's own shuffle flags)",
                      "token order/orientation (or content) is randomised where the tokenizer's parameters say it is fixed", node=s.node)
    if n == 0:
        ctx.unknown(ctx.index.func(f"{MT}.MazeTokenizerModular.to_tokens"), {}, "the documented shuffles are found")
    # the adjacency-list helper is invoked with both shuffles off by the edge subset
    ge = ctx.index.func(f"{MT}.EdgeSubsets.ConnectionEdges._get_edges")
    c = [x for x in X.calls(ge.node) if dotted_of(x.func) == "connection_list_to_adj_list"]
    ok = len(c) == 1 and X.U(N.kwarg(c[0], "shuffle_d0")) == "False" and X.U(N.kwarg(c[0], "shuffle_d1")) == "False"
    ctx.judge(ge, ok, {"call": X.U(c[0]) if c else None}, "ConnectionEdges lists edges with both helper shuffles off (ordering is the permuter's / shuffle_d0's job)")


def rule_T8(ctx: Ctx) -> None:
    ss = ctx.index.cls(f"{MT}.PathTokenizers.StepSequence")
    t = ss.methods["to_tokens"]
    r = X.returns_of(t.node)
    ok = len(r) == 1 and X.same_expr(r[0].value, "[*self._leading_tokens(maze, coord_tokenizer), *flatten([self._single_step_tokens(maze, start, end, coord_tokenizer) "
                                     "for start, end in self.step_size.step_start_end_indices(maze)]), *self._trailing_tokens(maze, coord_tokenizer)]")
    ctx.judge(t, ok, {"returns": X.U(r[0].value)[:200] if r else None}, "path = leading tokens, then one token group per (start, end) step in order, then trailing tokens")
    si = ctx.index.func(f"{MT}.StepSizes._StepSize.step_start_end_indices")
    r = X.returns_of(si.node)
    ok = len(r) == 1 and X.same_expr(r[0].value, "[(start, end) for start, end in zip(indices[:-1], indices[1:])]", "list(zip(indices[:-1], indices[1:]))")
    ctx.judge(si, ok, {"returns": X.U(r[0].value) if r else None}, "steps are consecutive pairs of the selected solution indices", "steps overlap or skip cells")
    sg = ctx.index.func(f"{MT}.StepSizes.Singles._step_single_indices")
    r = X.returns_of(sg.node)
    ctx.judge(sg, len(r) == 1 and X.U(X.substitute_len(r[0].value)) == "list(range(len(maze.solution)))", {"returns": X.U(r[0].value) if r else None}, "Singles selects every solution index")
    fk = ctx.index.func(f"{MT}.StepSizes.Forks._step_single_indices")
    r = X.returns_of(fk.node)
    ctx.judge(fk, len(r) == 1 and X.same_expr(r[0].value, "maze.get_solution_forking_points(always_include_endpoints=True)[0]"), {"returns": X.U(r[0].value) if r else None},
              "Forks selects the forking points plus both endpoints")
    # step tokenizers
    st = ctx.index.cls(f"{MT}.StepTokenizers")
    checks = {
        "Coord": ("coord_tokenizer.to_tokens(maze.solution[end_index, ...])", "the step's end cell"),
        "Cardinal": ("[get_cardinal_direction(maze.solution[start_index:start_index + 2])]", "direction of the first move of the step"),
        "Distance": (None, "number of single moves in the step"),
    }
    for name, (src, what) in checks.items():
        f = st.nested[name].methods["to_tokens"]
        r = X.returns_of(f.node)
        if name == "Distance":
            d = X.assignments_to(f.node, "d")
            ok = len(d) == 1 and N.aff_eq(d[0], X.expr_of("end_index - start_index")) and len(r) == 1 and "getattr(VOCAB, f'I_{d:03}')" in X.U(r[0].value)
        else:
            ok = len(r) == 1 and X.same_expr(r[0].value, src)
        ctx.judge(f, ok, {"step_tokenizer": name, "returns": X.U(r[0].value)[:100] if r else None}, f"{name} encodes {what}",
                  "the path region encodes other cells / directions / distances than the solution has")
    rel = st.nested["Relative"].methods["to_tokens"]
    rr = X.returns_of(rel.node)
    ok = len(rr) == 2 and X.same_expr(rr[1].value, "[get_relative_direction(maze.solution[start_index - 1:start_index + 2])]")
    prev = X.assignments_to(rel.node, "previous")
    ok = ok and len(prev) == 1 and X.same_expr(prev[0], "start + np.array([1, 0])")
    g = [n for n in rel.node.body if isinstance(n, ast.If)]
    ok = ok and len(g) == 1 and X.same_expr(g[0].test, "start_index == 0")
    ctx.judge(rel, ok, {"previous_at_start": X.U(prev[0]) if prev else None}, "Relative uses (previous, current, next) = solution[i-1:i+2]; at the start the agent is assumed to face NORTH (previous = one row below)")
    sst = ss.methods["_single_step_tokens"]
    # delimiters of a step: intra after every step-tokenizer output (interleaved), pre before, post after.
    # Decided by abstract evaluation of the method body over symbolic token lists (3 abstract step tokenizers, each rendering two
    # distinct symbolic tokens) under the 8 settings of (intra, pre, post): parametric in the tokens, invariant under the idiom used.
    from sa.fold import Evaluator, Obj, Unknown

    def _flat(x):
        out = []
        for y in x:
            if isinstance(y, (list, tuple)):
                out.extend(_flat(y))
            else:
                out.append(y)
        return out

    def _call(ev, node, env):
        d = dotted_of(node.func) or ""
        if isinstance(node.func, ast.Attribute) and node.func.attr == "to_tokens":
            recv = ev.ev(node.func.value, env)
            if isinstance(recv, Obj) and recv.cls.startswith("ST"):
                a_ = [ev.ev(x, env) for x in node.args]
                k_ = {kw.arg: ev.ev(kw.value, env) for kw in node.keywords}
                names = ["maze", "start_index", "end_index", "coord_tokenizer"]
                for nm, v in zip(names, a_):
                    k_[nm] = v
                calls_seen.append((recv.cls, tuple(k_.get(nm) for nm in names)))
                return [f"{recv.cls}.a", f"{recv.cls}.b"]
        if d == "flatten":
            return _flat(ev.ev(node.args[0], env))
        if d == "empty_sequence_if_attr_false" and len(node.args) == 3:
            seq, obj, attr = (ev.ev(a, env) for a in node.args)
            return seq if obj.attrs[attr] else ()
        return NotImplemented

    table = []
    calls_seen: list = []
    ok_tab: bool | None = True
    params = [a.arg for a in sst.node.args.args]
    for intra in (False, True):
        for pre in (False, True):
            for post in (False, True):
                sts = tuple(Obj(f"ST{k}") for k in (1, 2, 3))
                env = {"self": Obj("StepSequence", {"step_tokenizers": sts, "intra": intra, "pre": pre, "post": post}),
                       "VOCAB": Obj("VOCAB", {k: f"<{k}>" for k in ("PATH_PRE", "PATH_INTRA", "PATH_POST")})}
                for p_ in params[1:]:
                    env[p_] = f"<{p_}>"
                want = (["<PATH_PRE>"] if pre else []) + [t for o in sts for t in ([f"{o.cls}.a", f"{o.cls}.b"] + (["<PATH_INTRA>"] if intra else []))] + (["<PATH_POST>"] if post else [])
                try:
                    got = Evaluator({"__call__": _call}).run_body(X.body_wo_doc(sst.node), env)
                    got = list(got) if isinstance(got, (list, tuple)) else got
                except Unknown as e:
                    got, ok_tab = f"unknown: {e}"[:120], (None if ok_tab is not False else False)
                    table.append({"intra": intra, "pre": pre, "post": post, "result": got})
                    continue
                if got != want:
                    ok_tab = False
                    table.append({"intra": intra, "pre": pre, "post": post, "result": got, "expected": want})
    p4 = tuple(f"<{p_}>" for p_ in params[1:5])
    ok_calls = None if ok_tab is None else (len(calls_seen) == 24 and all(c == (f"ST{1 + i_ % 3}", p4) for i_, c in enumerate(calls_seen)))
    ctx.judge(sst, ok_calls, {"calls": [f"{c[0]}.to_tokens{c[1]}" for c in calls_seen[:3]]},
              "each step is rendered by every configured step tokenizer, once, in the configured order, for the same (maze, i, j, coord_tokenizer)")
    ctx.judge(sst, ok_tab, {"configurations": 8, "deviations": table[:3]},
              "a step group is [PATH_PRE?] t1 [INTRA] t2 [INTRA] ... [PATH_POST?]: under intra every step-tokenizer output is followed by one PATH_INTRA (even slots outputs, odd slots delimiters)",
              "delimiters are misplaced/miscounted inside a step: the path region cannot be segmented back into steps")
    ld = ss.methods["_leading_tokens"]

    def ld_call(ev, node, env):
        d = dotted_of(node.func) or ""
        if d.endswith("StepTokenizers.Coord") and not node.args:
            return Obj("ST:Coord")
        if isinstance(node.func, ast.Attribute) and node.func.attr == "to_tokens" and X.U(node.func.value) == pl[2]:
            return [f"coord<{ev.ev(node.args[0], env)}>.a", f"coord<{ev.ev(node.args[0], env)}>.b"]
        if d == "flatten":
            return _flat(ev.ev(node.args[0], env))
        if d == "empty_sequence_if_attr_false" and len(node.args) == 3:
            seq, obj, attr = (ev.ev(a, env) for a in node.args)
            return seq if obj.attrs[attr] else ()
        return NotImplemented

    def ld_getitem(o, k):
        if o.cls == "solution" and (k == 0 or (isinstance(k, tuple) and k and k[0] == 0)):
            return "cell0"
        raise Unknown("subscript")
    pl = ld.params()
    bad, unk = [], []
    for has_coord in (False, True):
        for pre in (False, True):
            for intra in (False, True):
                sts = (Obj("ST:Cardinal"), Obj("ST:Coord")) if has_coord else (Obj("ST:Cardinal"),)
                env = {pl[0]: Obj("StepSequence", {"step_tokenizers": sts, "pre": pre, "intra": intra, "post": False}), pl[1]: Obj("maze", {"solution": Obj("solution")}),
                       pl[2]: Obj("coord_tokenizer"), "VOCAB": Obj("VOCAB", {k: f"<{k}>" for k in ("PATH_PRE", "PATH_INTRA", "PATH_POST")})}
                want = ((["<PATH_PRE>"] if pre else []) + ["coord<cell0>.a", "coord<cell0>.b"] + (["<PATH_INTRA>"] if intra else [])) if has_coord else []
                try:
                    got = Evaluator({"__call__": ld_call, "__getitem__": ld_getitem}).run_body(X.body_wo_doc(ld.node), env)
                    got = list(got) if isinstance(got, (list, tuple)) else got
                except Unknown as e:
                    unk.append(str(e)[:120])
                    continue
                if got != want:
                    bad.append({"coord_steps": has_coord, "pre": pre, "intra": intra, "found": got, "expected": want})
    ctx.judge(ld, False if bad else None if unk else True, {"configurations": 8, "deviations": bad[:3], "undecided": unk[:2]},
              "when steps are given by coordinates, the first solution cell is emitted once before the steps, delimited like a step (fence-post); otherwise nothing precedes the steps")


def rule_T9(ctx: Ctx) -> None:
    m = ctx.index.module(CO)
    cm = m.assigns.get("CARDINAL_MAP")
    where = (m.relpath, f"{CO}.CARDINAL_MAP", m.assign_nodes["CARDINAL_MAP"].lineno)
    got = {}
    if isinstance(cm, ast.Dict):
        ev = Evaluator()
        for k, v in zip(cm.keys, cm.values):
            got[tuple(ev.ev(k, {}))] = (dotted_of(v) or "").split(".")[-1]
    want = {(-1, 0): "PATH_NORTH", (1, 0): "PATH_SOUTH", (0, -1): "PATH_WEST", (0, 1): "PATH_EAST"}
    ctx.judge(where, got == want, {"map": {str(k): v for k, v in got.items()}}, "row -1 is NORTH, row +1 SOUTH, column -1 WEST, column +1 EAST (rows vertical, columns horizontal)",
              "cardinal tokens name the wrong direction")
    gc = ctx.index.func(f"{TU}.get_cardinal_direction")
    r = X.returns_of(gc.node)
    ctx.judge(gc, len(r) == 1 and X.same_expr(r[0].value, "CARDINAL_MAP[tuple(coords[1] - coords[0])]"), {"returns": X.U(r[0].value) if r else None},
              "cardinal direction of travelling from coords[0] to coords[1] = table[coords[1] - coords[0]]", "directions are reversed (from end to start)")
    gr = ctx.index.func(f"{TU}.get_relative_direction")
    ifs = [n for n in gr.node.body if isinstance(n, ast.If)]
    table = []
    for n in ifs:
        rs = [s for s in n.body if isinstance(s, ast.Return)]
        if rs:
            table.append((X.U(n.test), (dotted_of(rs[0].value) or "").split(".")[-1]))
    want_tbl = [("np.array_equal(coords[1], coords[2])", "PATH_STAY"), ("np.array_equal(coords[0], coords[2])", "PATH_BACKWARD"),
                ("np.array_equal(directions[0], directions[1])", "PATH_FORWARD")]
    # the turn direction: (after normalisation a `match` is an if-ladder) tests `<cross product z> == +-1`
    cases = {}
    head = table[:3]
    ok = head == want_tbl
    dd = X.assignments_to(gr.node, "directions")
    ok = ok and bool(dd) and X.same_expr(dd[0], "coords[1:] - coords[:-1]")
    for tst, tok in table[3:]:
        m_ = re.match(r"^np\.cross\(directions\[0\], directions\[1\]\)\[-1\] == (-?1)$", tst)
        if m_:
            cases[int(m_.group(1))] = tok
    ok = ok and cases == {1: "PATH_LEFT", -1: "PATH_RIGHT"} and len(table) == 5
    ctx.judge(gr, ok, {"tests": table, "cross_cases": {str(k): v for k, v in cases.items()}},
              "relative direction: next == current -> STAY; next == previous -> BACKWARD; same heading -> FORWARD; otherwise the sign of the (row, col) cross "
              "product heading x next-heading: +1 is LEFT, -1 is RIGHT (facing north (-1,0), turning west (0,-1) gives +1)",
              "LEFT and RIGHT (or FORWARD/BACKWARD) are confused")


def rule_T10(ctx: Ctx) -> None:
    ut = ctx.index.func(f"{MT}.CoordTokenizers.UT.to_tokens")
    r = X.returns_of(ut.node)
    ctx.judge(ut, len(r) == 1 and X.same_expr(r[0].value, "[''.join(['(', str(coord[0]), ',', str(coord[1]), ')'])]"), {"returns": X.U(r[0].value) if r else None},
              "UT renders a cell as the single token '(row,col)'", "row and column are swapped in coordinate tokens")
    ctt = ctx.index.func(f"{MT}.CoordTokenizers.CTT.to_tokens")
    r = X.returns_of(ctt.node)
    ok = len(r) == 1 and X.same_expr(r[0].value, "[*empty_sequence_if_attr_false([VOCAB.COORD_PRE], self, 'pre'), str(coord[0]), "
                                     "*empty_sequence_if_attr_false([VOCAB.COORD_INTRA], self, 'intra'), str(coord[1]), *empty_sequence_if_attr_false([VOCAB.COORD_POST], self, 'post')]")
    ctx.judge(ctt, ok, {"returns": X.U(r[0].value)[:160] if r else None}, "CTT renders [pre?] row [intra?] col [post?] with each delimiter controlled by its own flag")
    tg = ctx.index.func(f"{MT}.TargetTokenizers.Unlabeled.to_tokens")
    lc = [n for n in ast.walk(tg.node) if isinstance(n, ast.ListComp)]
    ok = len(lc) == 1 and X.same_expr(lc[0].elt, "[*coord_tokenizer.to_tokens(target), *empty_sequence_if_attr_false([VOCAB.TARGET_POST], self, 'post')]") \
        and X.U(lc[0].generators[0].iter) == "targets"
    ctx.judge(tg, ok, {}, "the target region lists each target cell's coordinate tokens (+ TARGET_POST iff post)")
    cs = ctx.index.func(f"{MT}.MazeTokenizerModular.coords_to_strings")
    ew = [X.elementwise(c_) for c_ in ast.walk(cs.node)]
    ok = any(e is not None and X.same_expr(e[0], "self.prompt_sequencer.coord_tokenizer.to_tokens(_x)") and X.U(e[1]) == cs.params()[1] for e in ew)
    ctx.judge(cs, ok, {}, "coords_to_strings uses the tokenizer's own coordinate tokenizer, in order")
    tt = ctx.index.func(f"{MT}.MazeTokenizerModular.to_tokens")
    r = X.returns_of(tt.node)
    ctx.judge(tt, len(r) == 1 and X.same_expr(r[0].value, "self.prompt_sequencer.to_tokens(maze)"), {}, "the tokenizer delegates to its prompt sequencer")


def rule_T11(ctx: Ctx) -> None:
    f = ctx.index.func(f"{MT}.AdjListTokenizers._AdjListTokenizer.to_tokens")
    body = X.body_wo_doc(f.node)
    order = []
    for s in body:
        t = X.U(s)
        for key, tag in (("self.edge_subset._get_edges(maze)", "subset"), ("self.edge_permuter._permute(edges)", "permute"), ("self.edge_grouping._token_params()", "params"),
                         ("self.edge_grouping._group_edges(edges)", "group"), ("self.shuffle_d0", "shuffle"), ("self._tokenize_edge_grouping(", "tokenize")):
            if key in t and tag not in order:
                order.append(tag)
    ok = [o for o in order if o != "params"] == ["subset", "permute", "group", "shuffle", "tokenize"]
    ctx.judge(f, ok, {"pipeline": order}, "adjacency region = subset -> permute -> group -> (shuffle groups) -> tokenize each group with optional pre/post delimiters",
              "edges are grouped before being permuted / tokenized from another edge set")
    pp = X.per_item_parts(f.node, "groups")
    ok = False
    slot = {}
    if pp is not None:
        v, parts = pp
        slot = {"per_group": [f"{'*' if k == 'splat' else ''}{X.U(e)[:70]}" for k, e in parts]}
        want = ["empty_sequence_if_attr_false((VOCAB.ADJLIST_PRE,), self, 'pre')", f"self._tokenize_edge_grouping({v}, maze, coord_tokenizer, group_params)",
                "empty_sequence_if_attr_false((VOCAB.ADJACENCY_ENDLINE,), self, 'post')"]
        ok = len(parts) == 3 and all(k == "splat" and X.same_expr_x(e, f.node, w_, keep=(v, "group_params")) for (k, e), w_ in zip(parts, want))
    ctx.judge(f, ok, slot, "each group is framed by ADJLIST_PRE (iff pre) and the endline token (iff post)")
    ep = ctx.index.cls(f"{MT}.EdgePermuters")
    b = ep.nested["BothCoords"].methods["_permute"]
    r = X.returns_of(b.node)
    ctx.judge(b, len(r) == 1 and X.same_expr(r[0].value, "np.append(lattice_edges, np.flip(lattice_edges, axis=1), axis=0)"), {"returns": X.U(r[0].value) if r else None},
              "BothCoords lists every edge in both orientations (the original plus its coordinate-flipped copy)", "edges appear twice in the same orientation / coordinates are flipped component-wise")
    s = ep.nested["SortedCoords"].methods["_permute"]
    ok = "np.lexsort((lattice_edges[:, 1, 1], lattice_edges[:, 1, 0], lattice_edges[:, 0, 1], lattice_edges[:, 0, 0]))" in X.U(s.node)
    ctx.judge(s, ok, {}, "SortedCoords orders edges lexicographically by (lead row, lead col, trail row, trail col) and keeps each edge intact")
    rc = ep.nested["RandomCoords"].methods["_permute"]
    ok = "numpy_rng.permuted(lattice_edges, axis=1, out=lattice_edges)" in X.U(rc.node)
    ctx.judge(rc, ok, {}, "RandomCoords permutes the two endpoints of each edge (axis 1), never mixing rows with columns or edges with each other")
    ale = ctx.index.func(f"{MT}.EdgeSubsets.AllLatticeEdges._get_edges")
    r = X.returns_of(ale.node)
    ctx.judge(ale, len(r) == 1 and X.same_expr(r[0].value, "lattice_connection_array(maze.grid_n)"), {}, "AllLatticeEdges = every lattice edge of the maze's grid size")
    ung = ctx.index.func(f"{MT}.EdgeGroupings.Ungrouped._group_edges")
    r = X.returns_of(ung.node)
    ctx.judge(ung, len(r) == 1 and X.same_expr(r[0].value, "np.expand_dims(edges, 1)"), {}, "Ungrouped: one group per edge")
    # ByLeadingCoord: edges sorted with the leading coordinate as primary key, split where the leading coordinate (both components,
    # compared as rows - no scalar re-encoding that could collide or overflow the int8 coordinates) changes
    bl = ctx.index.func(f"{MT}.EdgeGroupings.ByLeadingCoord._group_edges")
    e_ = bl.params()[1]
    sp = [c for c in X.calls(bl.node) if dotted_of(c.func) in ("np.split", "numpy.split")]
    ok = None
    slot = {}
    if len(sp) == 1 and len(sp[0].args) == 2:
        arr = X.expand_locals(sp[0].args[0], bl.node)
        idx = X.expand_locals(sp[0].args[1], bl.node)
        slot = {"sorted": X.U(arr)[:160], "split_at": X.U(idx)[:200]}
        ls = [c for c in ast.walk(arr) if isinstance(c, ast.Call) and dotted_of(c.func) in ("np.lexsort", "numpy.lexsort")]
        keys_ok = False
        if len(ls) == 1 and ls[0].args and isinstance(ls[0].args[0], (ast.Tuple, ast.List)) and len(ls[0].args[0].elts) >= 2:
            k = [X.U(x).replace(" ", "") for x in ls[0].args[0].elts]
            keys_ok = k[-1] == f"{e_}[:,0,0]" and k[-2] == f"{e_}[:,0,1]" and set(k[:-2]) <= {f"{e_}[:,1,0]", f"{e_}[:,1,1]"}
        arr_ok = isinstance(arr, ast.Subscript) and X.U(arr.value) == e_ and keys_ok
        idx_ok = X.same_expr(idx, f"np.unique({X.U(arr)}[:, 0, :], return_index=True, axis=0)[1][1:]")
        ok = arr_ok and idx_ok
    ctx.judge(bl, ok, slot, "ByLeadingCoord sorts edges by (lead row, lead col, ...) and starts a new group exactly where the leading coordinate row changes (np.unique(..., axis=0) on the coordinate pairs)",
              "edges with different leading coordinates are merged into one group (or one coordinate's edges are split): the adjacency region lists edges under the wrong leading cell")


def rule_T5(ctx: Ctx) -> None:
    "wall subset stays inside the grid and does not alias the maze (re-judged from C13.V1)"
    f = ctx.index.func(f"{MT}.EdgeSubsets.ConnectionEdges._get_edges")
    cl = X.assignments_to(f.node, "conn_list")
    fresh = any(isinstance(d, ast.Call) and dotted_of(d.func) in ("np.logical_not", "numpy.logical_not") for d in cl)
    stores = [s for s in ast.walk(f.node) if isinstance(s, ast.Assign) and isinstance(s.targets[0], ast.Subscript) and X.U(s.targets[0].value) == "conn_list"]
    par = X.parents_map(f.node)
    guarded = all(isinstance(par.get(s), ast.If) and X.U(par[s].test) == "self.walls" for s in stores)
    neg_in_guard = all(isinstance(par.get(a), ast.If) for a in [n for n in ast.walk(f.node) if isinstance(n, ast.Assign) and X.U(n.targets[0]) == "conn_list" and isinstance(n.value, ast.Call)])
    ctx.judge(f, fresh and guarded and neg_in_guard and len(stores) == 2, {"stores": [X.U(s) for s in stores], "negation_is_fresh_array": fresh},
              "the boundary clears write into the fresh negated array only (under self.walls); the maze's own connection_list is never written",
              "tokenizing with walls=True modifies the maze, or boundary 'walls' outside the grid are listed")


RULES = [
    Rule("C06.T1", rule_T1, floor=2, doc="delimiter discipline"),
    Rule("C06.T2", rule_T2, floor=4, doc="region order and trimming"),
    Rule("C06.T3", rule_T3, floor=2, doc="vocabulary membership"),
    Rule("C06.T4", rule_T4, floor=4, doc="connection / wall polarity (siblings) and the batch edge test"),
    Rule("C06.T5", rule_T5, floor=1, doc="wall subset inside the grid, no aliasing"),
    Rule("C06.T6", rule_T6, floor=3, doc="connector position"),
    Rule("C06.T7", rule_T7, floor=4, doc="permitted nondeterminism only"),
    Rule("C06.T8", rule_T8, floor=11, doc="path tokenization structure and step delimiters"),
    Rule("C06.T9", rule_T9, floor=3, doc="direction tables"),
    Rule("C06.T10", rule_T10, floor=5, doc="coordinate / target tokenizers"),
    Rule("C06.T12", lambda ctx: __import__("sa.rules.c13", fromlist=["x"]).rule_V4(ctx), floor=2,
         doc="the Forks step size takes its step boundaries from get_solution_forking_points: strictly increasing fork indices, endpoints once (C13.V4 re-judged)"),
    Rule("C06.T11", rule_T11, floor=8, doc="adjacency pipeline and permuters"),
    Rule("C06.E12", lambda ctx: __import__("sa.mypyx", fromlist=["x"]).cross_check(ctx, [f"{MT}.MazeTokenizerModular.to_tokens"], "C06.E12"), floor=1,
         doc="thorough: call graph over-approximates mypy's type-resolved edges on the to_tokens closure", tier="thorough"),
]

from sa import dims as _dims  # noqa: E402

RULES.append(Rule("C06.AX", _dims.make_rule("C06", "C06.AX"), floor=1,
                  doc="axis-extent agreement: coordinate components are bounded by the extent of their own axis (E13)"))

from sa import exits as _exits  # noqa: E402

RULES.append(Rule("C06.RX", _exits.make_rule("C06", "C06.RX", _exits.SCOPES["C06"]), floor=1,
                  doc="rejection conditions: the anchored functions refuse inputs only under the conditions confirmed on the pinned tree (E16)"))

from sa import exits as _exits_ms  # noqa: E402

RULES.append(Rule("C06.MS", _exits_ms.make_state_rule("C06", "C06.MS", _exits_ms.SCOPES.get("C06", [])), floor=1,
                  doc="no hidden module-level state on the anchored path: results do not depend on the history of the process (E17)"))

from sa import exits as _exits_nw  # noqa: E402

RULES.append(Rule("C06.NW", _exits_nw.make_narrowing_rule("C06", "C06.NW", _exits_nw.SCOPES.get("C06", [])), floor=1,
                  doc="no new narrowing cast (8/16-bit element types) on the anchored path: coordinates, lengths and indices do not wrap (E18)"))
