"""C10 -- pixel and ASCII renderings are faithful and invertible

Clauses: X1 render table (finite-domain walk of as_pixels over kind x show_endpoints x
show_solution); X2 pixel lattice agreement (one affine map cell -> pixel shared by writer, reader,
endpoint/path writes and coordinate recovery); X3 colour/character bijection and ASCII plumbing;
X4 kind detection table; X5 rendering is pure (fresh arrays, no state kept on the maze).
"""

from __future__ import annotations

import ast
import itertools

from sa import astx as X
from sa import normal as N
from sa.finite import Opaque, PathWalker, class_hooks
from sa.fold import ClassRef, Evaluator, Obj, Unknown
from sa.index import AnalysisError, dotted_of
from sa.report import Ctx, Rule

LM = "maze_dataset.maze.lattice_maze"
KINDS = ["LatticeMaze", "TargetedLatticeMaze", "SolvedMaze"]

EXPLANATION = (
    "as_pixels is interpreted over the 12 abstract configurations (3 maze kinds x 2 flags x 2 flags) recording colour writes, "
    "raises and returns; all pixel index expressions and slices of the writer, the reader, the endpoint/path writes and the "
    "odd/even coordinate recovery are reduced to affine form and compared with the single map (i, j) -> (2i+1, 2j+1) and its "
    "edge midpoints; the colour and character tables are folded and checked for bijectivity; detect_pixels_type is tabulated "
    "over the 8 colour-presence combinations."
)
ASSUMPTIONS = [
    "numpy boolean-mask assignment and strided slicing semantics",
    "the solution re-ordering walk of from_pixels is not decided",
]
TRUSTED = ["ast"]


def _colour_name(v: ast.AST, env: dict) -> str | None:
    d = dotted_of(v)
    if d and d.startswith("PixelColors."):
        return d.split(".", 1)[1]
    return None


def _render_table(ctx: Ctx):
    f = ctx.index.func(f"{LM}.LatticeMaze.as_pixels")
    hooks = class_hooks(ctx.index, f.module, f.cls)
    rows = {}
    for kind, se, ss in itertools.product(KINDS, (True, False), (True, False)):
        ev = Evaluator(hooks)
        env = {"self": Obj(f"{LM}.{kind}", {}), "show_endpoints": se, "show_solution": ss}
        w = PathWalker(ev, lambda t: X.U(t.value) == "pixel_grid", _colour_name)
        tr = w.run(X.body_wo_doc(f.node), env)
        rows[(kind, se, ss)] = tr
    return f, rows


def rule_X1(ctx: Ctx) -> None:
    f, rows = _render_table(ctx)
    for (kind, se, ss), tr in rows.items():
        writes = [(e[2], e[1], e[3]) for e in tr.events if e[0] == "write"]
        cols = [w[0] for w in writes]
        has_ends = kind != "LatticeMaze"
        exp_raise = ss and not se
        slot = {"kind": kind, "show_endpoints": se, "show_solution": ss, "outcome": tr.outcome[0],
                "colour_writes": [c for c in cols if c in ("START", "END", "PATH")]}
        exp = ("raise iff show_solution and not show_endpoints; START and END drawn iff show_endpoints and the kind has endpoints; "
               "PATH drawn iff show_solution and the kind is SolvedMaze; endpoints are written after the path")
        if exp_raise:
            ctx.judge(f, tr.outcome == ("raise", "ValueError"), slot, exp, "the contradictory flag combination is not rejected")
            continue
        ok = tr.outcome[0] == "return"
        want_ends = se and has_ends
        want_path = ss and kind == "SolvedMaze"
        got_s, got_e, got_p = "START" in cols, "END" in cols, "PATH" in cols
        ok = ok and (got_s == want_ends) and (got_e == want_ends) and (got_p == want_path)
        if ok and want_ends and want_path:
            last_path = max(i for i, c in enumerate(cols) if c == "PATH")
            ok = min(i for i, c in enumerate(cols) if c in ("START", "END")) > last_path
        ctx.judge(f, ok, slot, exp,
                  "the image shows endpoints/solution that were not requested (or hides requested ones); a path write after the endpoint write paints over S/E")


def _pix(expr: str):
    return N.aff_key(N.affine(X.expr_of(expr)))


def _abstract_mazes(thorough: bool = False):
    """abstract mazes: grid shapes incl. oblong and degenerate ones; for each, no edge, every edge, and each single edge alone (the
    writer treats edges independently); thorough tier: more shapes (up to 4x4) and every pair of edges"""
    import itertools as _it

    out = []
    shapes = ((2, 3), (3, 2), (1, 1), (1, 3), (2, 2)) + (((3, 3), (4, 2), (2, 4), (4, 4), (3, 1)) if thorough else ())
    for r, c in shapes:
        cells = [(d, i, j) for d in (0, 1) for i in range(r) for j in range(c)]
        pats = [set(), set(cells)] + [{e} for e in cells]
        if thorough and len(cells) <= 24:
            pats += [set(p) for p in _it.combinations(cells, 2)]
        for on in pats:
            out.append((r, c, [[[(d, i, j) in on for j in range(c)] for i in range(r)] for d in (0, 1)]))
    return out


def _expected_pixels(r, c, cl):
    g = [[False] * (2 * c + 1) for _ in range(2 * r + 1)]
    for i in range(r):
        for j in range(c):
            g[2 * i + 1][2 * j + 1] = True
            if cl[0][i][j]:
                g[2 * i + 2][2 * j + 1] = True
            if cl[1][i][j]:
                g[2 * i + 1][2 * j + 2] = True
    return g


def rule_X2(ctx: Ctx) -> None:
    """writer and reader of the black/white pixel lattice by abstract evaluation over small abstract mazes (list-backed arrays):
    the image is (2r+1) x (2c+1), cells open at odd/odd pixels, the pixel below / right of a cell open iff that edge is set; the
    reader recovers exactly the connection list and grid shape from that image"""
    from sa.absnp import MODELS, Arr
    from sa.fold import EvalRaised, Evaluator, Obj, Unknown

    def hook(ev, node, env):
        d = dotted_of(node.func) or ""
        if d in MODELS:
            args = []
            for a in node.args:
                if isinstance(a, ast.Starred):
                    args.extend(ev.ev(a.value, env))
                else:
                    args.append(ev.ev(a, env))
            kwargs = {k.arg: ev.ev(k.value, env) for k in node.keywords if k.arg and k.arg != "dtype"}
            try:
                return MODELS[d](*args, **kwargs)
            except (ValueError, IndexError) as e:
                raise EvalRaised(type(e).__name__, str(e))
            except Exception as e:
                raise Unknown(f"model of {d}: {e}")
        return NotImplemented
    w = ctx.index.func(f"{LM}.LatticeMaze._as_pixels_bw")
    r_ = ctx.index.func(f"{LM}.LatticeMaze._from_pixel_grid_bw")
    mazes = _abstract_mazes(ctx.tier == "thorough")
    bad_w, bad_r, unk = [], [], []
    for r, c, cl in mazes:
        want = _expected_pixels(r, c, cl)
        me = Obj("maze", {"connection_list": Arr([[list(row) for row in layer] for layer in cl]), "grid_shape": (r, c), "lattice_dim": 2, "grid_n": r})
        try:
            got = Evaluator({"__call__": hook}).run_body(X.body_wo_doc(w.node), {w.params()[0]: me})
            gd = got.data if isinstance(got, Arr) else got
        except EvalRaised as e:
            gd = f"raises {e.exc_name}"
        except Unknown as e:
            unk.append("writer: " + str(e)[:120])
            gd = None
        if gd is not None and gd != want and len(bad_w) < 3:
            bad_w.append({"grid": (r, c), "edges_set": sum(x for layer in cl for row in layer for x in row), "found": repr(gd)[:160], "expected": repr(want)[:160]})
        try:
            pr = r_.params()
            env = {pr[-1]: Arr([list(row) for row in want])}
            if len(pr) > 1:
                env[pr[0]] = "cls"
            back = Evaluator({"__call__": hook}).run_body(X.body_wo_doc(r_.node), env)
            bcl, bshape = (back[0], back[1]) if isinstance(back, (tuple, list)) and len(back) == 2 else (back, None)
            bd = bcl.data if isinstance(bcl, Arr) else bcl
            okb = bd == cl and tuple(bshape) == (r, c)
        except EvalRaised as e:
            okb, bd = False, f"raises {e.exc_name}"
        except Unknown as e:
            unk.append("reader: " + str(e)[:120])
            okb = True
        if not okb and len(bad_r) < 3:
            bad_r.append({"grid": (r, c), "found": repr(bd)[:160], "expected": repr(cl)[:160]})
    ctx.judge(w, False if bad_w else None if any(u.startswith("writer") for u in unk) else True, {"abstract_mazes": len(mazes), "deviations": bad_w, "undecided": [u for u in unk if u.startswith("writer")][:2]},
              "image shape (2*rows+1, 2*cols+1), all wall initially; cells at odd/odd pixels; layer 0 (down) edge (i,j)-(i+1,j) opens pixel (2i+2, 2j+1); "
              "layer 1 (right) edge (i,j)-(i,j+1) opens pixel (2i+1, 2j+2); only when connected",
              "the pixel between two cells does not reflect their connection (row/column swap or off-by-one on the odd/even lattice), or the image size is off")
    ctx.judge(r_, False if bad_r else None if any(u.startswith("reader") for u in unk) else True, {"abstract_mazes": len(mazes), "deviations": bad_r, "undecided": [u for u in unk if u.startswith("reader")][:2]},
              "reader: layer 0 = the pixels below the cells, layer 1 = the pixels right of the cells (the writer's edge pixels); grid shape = image shape // 2 per axis",
              "reading the image back yields a different connection structure")
    # ---- coordinate recovery
    p = ctx.index.func(f"{LM}.LatticeMaze._from_pixel_grid_with_positions")
    # normalised shape: `[(pos[0] // 2, pos[1] // 2) for pos in <argwhere> if pos[0] % 2 == 1 and pos[1] % 2 == 1]`
    comps = [n for n in ast.walk(p.node) if isinstance(n, ast.ListComp) and len(n.generators) == 1 and any("% 2" in X.U(t) for t in n.generators[0].ifs)]
    ok = None
    slot = {}
    if len(comps) == 1:
        g0 = comps[0].generators[0]
        v = X.U(g0.target)
        test = g0.ifs[0] if len(g0.ifs) == 1 else ast.BoolOp(op=ast.And(), values=list(g0.ifs))
        okc, slot = X.relation_in(test, [f"{v}[0] % 2 == 1 and {v}[1] % 2 == 1"])
        rec = X.U(comps[0].elt).replace(" ", "")
        slot["recovered"] = rec
        ok = bool(okc) and rec in (f"({v}[0]//2,{v}[1]//2)",)
    elif [n for n in ast.walk(p.node) if isinstance(n, ast.If) and "% 2" in X.U(n.test)]:
        ok = False
        slot = {"recovered": "parity test in an unfamiliar statement shape"}
    ctx.judge(p, ok, slot, "a marked pixel is a cell iff both indices are odd; its cell is (p0 // 2, p1 // 2)",
              "start/end/solution cells are recovered transposed or shifted")
    wm = [s for s in ast.walk(p.node) if isinstance(s, (ast.Assign, ast.AnnAssign)) and "PixelColors.WALL" in X.U(s)]
    ok = len(wm) == 1 and X.same_expr(wm[0].value, f"~np.all({p.params()[1]}==PixelColors.WALL,axis=-1)", f"np.any({p.params()[1]}!=PixelColors.WALL,axis=-1)")
    ctx.judge(p, ok, {"open_mask": X.U(wm[0].value) if wm else None}, "every non-wall colour counts as open when recovering connections")
    # ---- endpoint / path writes in as_pixels
    f = ctx.index.func(f"{LM}.LatticeMaze.as_pixels")
    for s in ast.walk(f.node):
        if isinstance(s, ast.Assign) and isinstance(s.targets[0], ast.Subscript) and X.U(s.targets[0].value) == "pixel_grid":
            col = _colour_name(s.value, {})
            parts = N.subscript_parts(s.targets[0])
            if col in ("START", "END") and len(parts) == 2:
                base = "self.start_pos" if col == "START" else "self.end_pos"
                ok = N.aff_key(N.affine(parts[0])) == _pix(f"2 * {base}[0] + 1") and N.aff_key(N.affine(parts[1])) == _pix(f"2 * {base}[1] + 1")
                ctx.judge(f, ok, {"colour": col, "pixel": X.U(s.targets[0])}, f"{col} is drawn at (2*{base}[0]+1, 2*{base}[1]+1)",
                          "the endpoint is drawn on another cell (or on an edge pixel)", node=s)
            elif col == "PATH" and len(parts) == 2:
                t0, t1 = N.affine(parts[0]), N.affine(parts[1])
                syms = sorted(str(k) for k in {**t0, **t1} if k != 1)
                if len(syms) == 2:  # cell write: coord
                    c = syms[0][:-3]
                    ok = N.aff_key(t0) == _pix(f"2 * {c}[0] + 1") and N.aff_key(t1) == _pix(f"2 * {c}[1] + 1")
                    ctx.judge(f, ok, {"colour": col, "pixel": X.U(s.targets[0])}, "solution cells are drawn at (2c0+1, 2c1+1)", node=s)
                else:  # between-pixel: midpoint of the two cells' pixels = c + n + 1
                    names = sorted({str(k)[:-3] for k in {**t0, **t1} if k != 1})
                    ok = len(names) == 2 and N.aff_key(t0) == _pix(f"{names[0]}[0] + {names[1]}[0] + 1") and N.aff_key(t1) == _pix(f"{names[0]}[1] + {names[1]}[1] + 1")
                    ctx.judge(f, ok, {"colour": col, "pixel": X.U(s.targets[0]), "cells": names},
                              "the pixel between consecutive solution cells c, n is their midpoint (c0+n0+1, c1+n1+1)",
                              "in-between solution pixels are drawn off the edge between the two cells", node=s)
    # rgb base image
    base = X.assignments_to(f.node, "pixel_grid")
    ok = len(base) == 1 and isinstance(base[0], ast.Call) and dotted_of(base[0].func) == "np.full" and "PixelColors.WALL" in X.U(base[0])
    op = [s for s in f.node.body if isinstance(s, ast.Assign) and isinstance(s.targets[0], ast.Subscript) and X.U(s.targets[0].value) == "pixel_grid"
          and _colour_name(s.value, {}) == "OPEN"]
    ok = ok and len(op) == 1 and X.U(op[0].targets[0].slice).replace(" ", "") in ("pixel_grid_bw==True", "pixel_grid_bw")
    ctx.judge(f, ok, {"base": X.U(base[0])[:90] if base else None, "open": X.U(op[0]) if op else None},
              "the RGB image starts all WALL and gets OPEN exactly where the black/white lattice image is True")


def _fold_class_consts(ctx: Ctx, qual: str) -> dict:
    c = ctx.index.cls(qual)
    ev = Evaluator()
    out = {}
    for n, fi in c.fields.items():
        out[n] = ev.ev(fi.value, {})
    return out


def rule_X3(ctx: Ctx) -> None:
    cols = _fold_class_consts(ctx, f"{LM}.PixelColors")
    chars = _fold_class_consts(ctx, f"{LM}.AsciiChars")
    m = ctx.index.module(LM)
    where = (m.relpath, f"{LM}.ASCII_PIXEL_PAIRINGS", m.assign_nodes["ASCII_PIXEL_PAIRINGS"].lineno)
    ctx.judge(where, len(set(cols.values())) == len(cols) == 5 and len(set(chars.values())) == len(chars) == 5 and set(cols) == set(chars),
              {"colours": {k: list(v) for k, v in cols.items()}, "chars": chars},
              "five pairwise distinct colours and five pairwise distinct characters with the same field names",
              "two roles share a colour/character: the rendering cannot be read back")
    v = m.assigns["ASCII_PIXEL_PAIRINGS"]
    # folded (E11): whatever way the table is assembled (one literal, pieces spliced with **, a comprehension over the field names), its value
    # must be {AsciiChars.N: PixelColors.N for every N}
    from sa.absobj import make_name_hook
    from sa.fold import Obj as _Obj

    ns = {"AsciiChars": _Obj("AsciiChars", dict(chars)), "PixelColors": _Obj("PixelColors", {k_: tuple(c_) for k_, c_ in cols.items()})}

    def _nh(name, env_):
        if name in ns:
            return ns[name]
        if name in m.assigns:
            return Evaluator({"__name__": _nh}).ev(m.assigns[name], {})
        return make_name_hook(ctx.index, m, lambda: {})(name, env_)
    pairs = []
    try:
        table = Evaluator({"__name__": _nh}).ev(v, {})
        ok = isinstance(table, dict) and {k_: tuple(c_) for k_, c_ in table.items()} == {chars[n]: tuple(cols[n]) for n in cols}
        pairs = sorted((k_, list(c_)) for k_, c_ in table.items()) if isinstance(table, dict) else repr(table)[:80]
    except Unknown as e:
        ok, pairs = None, f"undecided: {e}"[:120]
    ctx.judge(where, ok, {"pairs": pairs}, "ASCII_PIXEL_PAIRINGS pairs AsciiChars.N with PixelColors.N for every N",
              "a character is paired with another role's colour: ASCII and pixel renderings disagree")
    # as_ascii plumbing
    a = ctx.index.func(f"{LM}.LatticeMaze.as_ascii")
    call = [c for c in X.calls(a.node) if X.U(c.func) == "self.as_pixels"]
    ok = len(call) == 1 and X.U(N.kwarg(call[0], "show_endpoints")) == "show_endpoints" and X.U(N.kwarg(call[0], "show_solution")) == "show_solution"
    ctx.judge(a, ok, {"as_pixels_call": X.U(call[0]) if call else None}, "as_ascii renders the same picture: it forwards both flags to as_pixels")
    hooks = class_hooks(ctx.index, a.module, a.cls)
    for se, ss in itertools.product((True, False), (True, False)):
        if ss and not se:
            continue
        ev = Evaluator(hooks)
        env = {"show_endpoints": se, "show_solution": ss, "AsciiChars": Obj("AsciiChars", chars)}
        got = None
        try:
            # the statements that build the replacement collection, up to the overlay loop (folded, not run: finite domain of the two flags)
            loop_i = next((i for i, st in enumerate(a.node.body) if isinstance(st, ast.For)), len(a.node.body))
            frag = [st for st in a.node.body[:loop_i] if "chars_replace" in X.U(st)]
            ev._exec(frag, env)
            got = set(env.get("chars_replace", ()))
        except Unknown:
            got = None
        want = ({chars["START"], chars["END"]} if se else set()) | ({chars["PATH"]} if ss else set())
        ctx.judge(a, None if got is None else got == want, {"show_endpoints": se, "show_solution": ss, "replaced": sorted(got) if got is not None else None},
                  "characters overlaid on the wall/open drawing: S and E iff show_endpoints, X iff show_solution")
    loop = [n for n in a.node.body if isinstance(n, ast.For)]
    ok = len(loop) == 1 and X.U(loop[0].iter) == "ASCII_PIXEL_PAIRINGS.items()" and any(
        isinstance(s, ast.Assign) and X.U(s.targets[0]).replace(" ", "") == "ascii_grid[(pixel_grid==pixel_color).all(axis=-1)]" and X.U(s.value) == "ascii_char"
        for s in ast.walk(loop[0]))
    ctx.judge(a, ok, {"loop": X.U(loop[0].iter) if loop else None}, "each overlaid character goes exactly where the pixel image has its paired colour")
    ag = ctx.index.func(f"{LM}.LatticeMaze._as_ascii_grid")
    # abstract evaluation on a 3x3 black/white pattern: WALL where the image is False, OPEN where it is True
    from sa.absnp import MODELS as _NPM, Arr as _Arr
    from sa.fold import EvalRaised as _ER

    bw = [[False, True, False], [True, True, False], [False, False, True]]

    def _hook(ev_, node, env_):
        d_ = dotted_of(node.func) or ""
        if d_.endswith("._as_pixels_bw"):
            return _Arr([list(r_) for r_ in bw])
        if d_ in _NPM:
            return _NPM[d_](*ev_._elts(node.args, env_), **{k_.arg: ev_.ev(k_.value, env_) for k_ in node.keywords if k_.arg})
        return NotImplemented
    try:
        got = Evaluator({"__call__": _hook, "__name__": lambda n_, e_: ns[n_] if n_ in ns else make_name_hook(ctx.index, m, lambda: {"__call__": _hook})(n_, e_)}).run_body(
            X.body_wo_doc(ag.node), {ag.params()[0]: _Obj("self", {})})
        want = [[chars["OPEN"] if c_ else chars["WALL"] for c_ in r_] for r_ in bw]
        ok = isinstance(got, _Arr) and got.data == want
        shown = got.data if isinstance(got, _Arr) else repr(got)[:80]
    except _ER as e:
        ok, shown = False, f"raises {e.exc_name}"
    except Unknown as e:
        ok, shown = None, f"undecided: {e}"[:120]
    src_calls = [X.U(c_.func) for c_ in X.calls(ag.node) if isinstance(c_.func, ast.Attribute) and X.U(c_.func.value) == ag.params()[0] and c_.func.attr.startswith(("_as_pixels", "as_pixels"))]
    if src_calls != ["self._as_pixels_bw"] and src_calls:
        ctx.violation(ag, {"grid_taken_from": src_calls}, "the character grid is drawn from the black/white image self._as_pixels_bw() (walls and passages only)",
                      "the base drawing is taken from the coloured picture: endpoint / path pixels are neither wall nor open")
    ctx.judge(ag, ok, {"black_white_pattern": bw, "characters": shown}, "the character grid is WALL where the black/white image is False and OPEN where it is True")
    # from_ascii
    fa = ctx.index.func(f"{LM}.LatticeMaze.from_ascii")
    gd = X.assignments_to(fa.node, "ascii_grid")
    acc = ("np.array([list(line) for line in lines], dtype=str)", "np.array([list(line) for line in lines])")
    pg = X.assignments_to(fa.node, "pixel_grid")
    lp = [n for n in fa.node.body if isinstance(n, ast.For)]
    ok = len(gd) == 1 and X.same_expr(gd[0], *acc) and len(pg) == 1 and X.U(pg[0]).replace(" ", "") == "np.zeros((*ascii_grid.shape,3),dtype=np.uint8)" \
        and len(lp) == 1 and X.U(lp[0].iter) == "ASCII_PIXEL_PAIRINGS.items()" and any(
            isinstance(s, ast.Assign) and X.U(s.targets[0]).replace(" ", "") == "pixel_grid[ascii_grid==ascii_char]" and X.U(s.value) == "pixel_color" for s in lp[0].body)
    rets = X.returns_of(fa.node)
    ok = ok and len(rets) == 1 and X.U(rets[0].value) == "cls.from_pixels(pixel_grid)"
    ctx.judge(fa, ok, {"ascii_grid": X.U(gd[0]) if gd else None, "pixel_grid": X.U(pg[0]) if pg else None},
              "from_ascii: one row per text line, one pixel per character (shape (lines, width, 3)), colours through the same pairing table, then from_pixels",
              "text is re-flowed into another shape (only square drawings survive) or read through another table")


def rule_X4(ctx: Ctx) -> None:
    f = ctx.index.func(f"{LM}.detect_pixels_type")
    hooks = class_hooks(ctx.index, f.module, None)
    base_call = hooks["__call__"]
    for s, e, p in itertools.product((True, False), repeat=3):
        present = {"START": s, "END": e, "PATH": p}

        def call_hook(ev, node, env, present=present):
            if dotted_of(node.func) == "color_in_pixel_grid" and len(node.args) == 2:
                d = dotted_of(node.args[1]) or ""
                if d.startswith("PixelColors."):
                    return present.get(d.split(".")[1], False)
                raise Unknown("colour argument")
            return base_call(ev, node, env)
        ev = Evaluator({**hooks, "__call__": call_hook})
        w = PathWalker(ev, lambda t: False, lambda v, env: None)
        tr = w.run(X.body_wo_doc(f.node), {})
        got = tr.outcome[1].qualname.rsplit(".", 1)[-1] if tr.outcome[0] == "return" and isinstance(tr.outcome[1], ClassRef) else None
        want = ("SolvedMaze" if p else "TargetedLatticeMaze") if (s or e) else "LatticeMaze"
        ctx.judge(f, got == want if got else None, {"START": s, "END": e, "PATH": p, "detected": got, "expected": want},
                  "an image with a start or end pixel is a solved maze iff it also has path pixels, else targeted; without them it is a plain maze",
                  "images are read back as the wrong maze kind")
    # from_pixels: markers and class gate
    fp = ctx.index.func(f"{LM}.LatticeMaze.from_pixels")
    mp = [c for c in ast.walk(fp.node) if set(X.dict_items(c) or ()) == {"start", "end", "solution"}]
    ok = len(mp) == 1 and {k: X.U(v) for k, v in X.dict_items(mp[0]).items()} == {"start": "PixelColors.START", "end": "PixelColors.END", "solution": "PixelColors.PATH"}
    ctx.judge(fp, ok, {"marked_positions": X.U(mp[0]) if mp else None}, "start/end/solution cells are looked up by START/END/PATH colour")
    gate = [n for n in fp.node.body if isinstance(n, ast.If) and "__mro__" in X.U(n.test)]
    ok = len(gate) == 1 and X.U(gate[0].test) in ("not cls in cls_detected.__mro__", "cls not in cls_detected.__mro__") and any(isinstance(s, ast.Raise) for s in gate[0].body)
    ctx.judge(fp, ok, {"gate": X.U(gate[0].test) if gate else None}, "an image can be cast to cls only if cls is the detected kind or one of its bases")
    tl = [c for c in ast.walk(fp.node) if isinstance(c, ast.Call) and X.U(c.func) == "TargetedLatticeMaze"]
    ok = len(tl) == 1 and X.U(N.kwarg(tl[0], "start_pos")) == "start_pos" and X.U(N.kwarg(tl[0], "end_pos")) == "end_pos"
    sp = X.assignments_to(fp.node, "start_pos")
    ep = X.assignments_to(fp.node, "end_pos")
    # start_pos <- marked_pos["start"][0], end_pos <- marked_pos["end"][0]   (through any chain of single-definition locals)
    def origin(name: str) -> str:
        d = X.assignments_to(fp.node, name)
        return X.U(X.expand_locals(d[0], fp.node, keep=("marked_pos",))).replace("'", '"') if len(d) == 1 else "?"
    se = (origin("start_pos"), origin("end_pos"))
    ok = ok and se == ('marked_pos["start"][0]', 'marked_pos["end"][0]')
    ctx.judge(fp, ok, {"targeted": X.U(tl[0])[:100] if tl else None, "positions": list(se)},
              "the targeted maze read back gets start from the START pixel and end from the END pixel", "start and end are swapped on read-back")
    # solved: the ordered solution starts at start and ends at end
    sol0 = X.assignments_to(fp.node, "solution")
    ok = any(X.U(d) == "[tuple(start_pos)]" for d in sol0)
    wl = [n for n in fp.node.body if isinstance(n, ast.While)]
    ok = ok and len(wl) == 1 and X.U(wl[0].test) == "solution[-1] != tuple(end_pos)"
    ctx.judge(fp, ok, {"walk": X.U(wl[0].test) if wl else None}, "the solution is re-ordered by walking from the start cell until the end cell is reached")


def rule_X5(ctx: Ctx) -> None:
    exp = "rendering is pure: the image is a freshly allocated array on every call and nothing is stored on the maze object"
    for name in ("as_pixels", "_as_pixels_bw", "as_ascii", "_as_ascii_grid"):
        f = ctx.index.func(f"{LM}.LatticeMaze.{name}")
        st = X.stores_through(f.node, "self")
        sd = [n for n in ast.walk(f.node) if isinstance(n, ast.Call) and dotted_of(n.func) in ("setattr", "object.__setattr__")]
        arrays = set()
        for n in ast.walk(f.node):
            if isinstance(n, ast.Assign) and isinstance(n.targets[0], ast.Subscript):
                b = n.targets[0].value
                while isinstance(b, (ast.Subscript, ast.Attribute)):
                    b = b.value
                if isinstance(b, ast.Name):
                    arrays.add(b.id)
        bad = []
        for a in sorted(arrays):
            defs = X.assignments_to(f.node, a)
            for d in defs:
                fresh = isinstance(d, ast.Call) and (dotted_of(d.func) in ("np.full", "np.zeros", "np.ones", "np.empty", "np.array", "np.full_like", "np.zeros_like")
                                                     or X.U(d.func).endswith((".copy", "._as_ascii_grid", "._as_pixels_bw", ".as_pixels")))
                if not fresh:
                    bad.append(f"{a} = {X.U(d)[:60]}")
        ctx.judge(f, not st and not sd and not bad, {"stores_on_self": [X.U(s)[:60] for s in st], "written_arrays_not_fresh": bad}, exp,
                  "an image cached on / shared with the maze object is painted on by later calls: renderings depend on the call history")


RULES = [
    Rule("C10.X1", rule_X1, floor=12, doc="render table over 12 configurations"),
    Rule("C10.X2", rule_X2, floor=8, doc="pixel lattice agreement"),
    Rule("C10.X3", rule_X3, floor=9, doc="colour/character bijection and ASCII plumbing"),
    Rule("C10.X4", rule_X4, floor=12, doc="kind detection table and read-back plumbing"),
    Rule("C10.X5", rule_X5, floor=4, doc="rendering purity"),
    Rule("C10.X6", lambda ctx: __import__("sa.rules.c13", fromlist=["x"]).neighbour_queries_rule("C10.X6", [], [])(ctx), floor=1,
         doc="reading a solved maze back from pixels orders the solution by walking get_coord_neighbors: the neighbour queries by bounded abstract evaluation (as C13.V8)"),
]

from sa import dims as _dims  # noqa: E402

RULES.append(Rule("C10.AX", _dims.make_rule("C10", "C10.AX"), floor=1,
                  doc="axis-extent agreement: coordinate components are bounded by the extent of their own axis (E13)"))

from sa import exits as _exits  # noqa: E402

RULES.append(Rule("C10.RX", _exits.make_rule("C10", "C10.RX", _exits.SCOPES["C10"]), floor=1,
                  doc="rejection conditions: the anchored functions refuse inputs only under the conditions confirmed on the pinned tree (E16)"))

from sa import exits as _exits_ms  # noqa: E402

RULES.append(Rule("C10.MS", _exits_ms.make_state_rule("C10", "C10.MS", _exits_ms.SCOPES.get("C10", [])), floor=1,
                  doc="no hidden module-level state on the anchored path: results do not depend on the history of the process (E17)"))

from sa import exits as _exits_nw  # noqa: E402

RULES.append(Rule("C10.NW", _exits_nw.make_narrowing_rule("C10", "C10.NW", _exits_nw.SCOPES.get("C10", [])), floor=1,
                  doc="no new narrowing cast (8/16-bit element types) on the anchored path: coordinates, lengths and indices do not wrap (E18)"))
