"""C14 -- token vocabularies and token-id codecs are fixed, duplicate-free, invertible

Clauses: W1 layout (the declarations are constant-folded: 4096 tokens, block sizes, and the digest
of the whole folded list equals the committed reference -- "a token's id never changes");
W2 duplicate-free; W3 corner-first prefix lemma (structural premises of the sort key);
W4 codec inverse by construction; W5 error translation on both sides (unknown token, id too
large, negative id); W6 legacy vocabularies.
"""

from __future__ import annotations

import ast
import hashlib
import itertools

from sa import astx as X
from sa import normal as N
from sa.fold import Obj, Closure, Evaluator, Unknown, safe
from sa.index import AnalysisError, dotted_of
from sa.report import Ctx, Rule

CO = "maze_dataset.constants"
UT = "maze_dataset.utils"
MT = "maze_dataset.tokenization.maze_tokenizer"

# the published layout: sha256 of "\n".join(VOCAB_LIST) for all 4096 folded tokens, and of the first 1596 (everything before the coordinate block)
REFERENCE_SHA256_ALL = None  # filled below
REFERENCE_SHA256_PREFIX_1596 = "46be8d28c62660a43d927e148f15133dcc04fdfda2fced75b6ef735f3c5bc9b9"
BLOCKS = [("special", 11), ("delimiters", 9), ("TARGET_A-Z", 26), ("TARGET_directions", 9), ("PATH_directions", 9), ("I_000-255", 256),
          ("CTT_0-127", 128), ("I_N256-1", 256), ("ADJLIST/PATH extras", 4), ("RESERVE_708-1595", 888), ("UT_50x50", 2500)]

EXPLANATION = (
    "Module-level declarations of maze_dataset/constants.py (_SPECIAL_TOKENS_BASE defaults, _VOCAB_FIELDS with its comprehensions and "
    "f-strings, corner_first_ndindex from utils.py) are constant-folded by the checker's own evaluator into the 4096-token list; its "
    "length, block boundaries, duplicate-freeness and sha256 are compared with the committed reference layout.  Codec functions are "
    "checked structurally (inverse by construction over the same list; both-sided error translation)."
)
ASSUMPTIONS = [
    "dataclasses.make_dataclass orders fields: base-class fields first, then the given field list in order; dataclass instances keep that order in __dict__",
    "sorted() is stable and str/int formatting follows the language definition (the fold uses the checker's own interpreter of the declaration fragment)",
]
TRUSTED = ["ast", "sa.fold evaluator (literals, comprehensions over range/str, f-strings with format specs, tuple sort keys)"]


def _fold_vocab(ctx: Ctx) -> list[str]:
    m = ctx.index.module(CO)
    u = ctx.index.module(UT)
    cf = ctx.index.func(f"{UT}.corner_first_ndindex")

    def call_hook(ev: Evaluator, node: ast.Call, env):
        d = dotted_of(node.func)
        if d == "field":
            dv = N.kwarg(node, "default")
            if dv is None:
                raise Unknown("field() without default")
            return ("field", ev.ev(dv, env))
        if d in ("np.ndindex", "numpy.ndindex"):
            args = [ev.ev(a, env) for a in node.args]
            shape = args[0] if len(args) == 1 and isinstance(args[0], (tuple, list)) else tuple(args)
            return list(itertools.product(*[range(int(k)) for k in shape]))
        if d == "corner_first_ndindex":
            args = [ev.ev(a, env) for a in node.args]
            return ev.call(Closure(cf.node, {}), args, {})
        return NotImplemented

    resolving: set[str] = set()

    import string as _string

    STDLIB = {"string": Obj("module:string", {k: getattr(_string, k) for k in ("ascii_uppercase", "ascii_lowercase", "ascii_letters", "digits")})}

    def name_hook(name, env):
        "module-level constants and helper functions of constants.py / utils.py (a constant moved out of a literal, an extracted sort key)"
        if name in STDLIB and any(name in mod.imports for mod in (m, u)):
            return STDLIB[name]
        for mod in (m, u):
            if name in mod.assigns and name not in resolving:
                resolving.add(name)
                try:
                    return ev.ev(mod.assigns[name], {"str": str})
                finally:
                    resolving.discard(name)
            if name in mod.functions:
                return Closure(mod.functions[name].node, {})
        raise Unknown(f"free name `{name}`")

    ev = Evaluator({"__call__": call_hook, "__name__": name_hook}, max_steps=5_000_000)
    base = ctx.index.cls(f"{CO}._SPECIAL_TOKENS_BASE")
    special = []
    for n, f in base.fields.items():
        v = ev.ev(f.value, {})
        special.append((n, v))
    vf = m.assigns.get("_VOCAB_FIELDS")
    if vf is None:
        raise AnalysisError("_VOCAB_FIELDS not found")
    fields = ev.ev(vf, {"str": str})
    toks = [v for _, v in special]
    names = [n for n, _ in special]
    for item in fields:
        if not (isinstance(item, tuple) and len(item) == 3 and isinstance(item[2], tuple) and item[2][0] == "field"):
            raise AnalysisError(f"_VOCAB_FIELDS entry of unfamiliar shape: {item!r}")
        names.append(item[0])
        toks.append(item[2][1])
    ctx.note(f"folded {len(special)} special tokens + {len(fields)} vocab fields with {ev.steps} evaluator steps")
    return names, toks


def rule_W1(ctx: Ctx) -> None:
    names, toks = _fold_vocab(ctx)
    m = ctx.index.module(CO)
    where = (m.relpath, f"{CO}._VOCAB_FIELDS", m.assign_nodes["_VOCAB_FIELDS"].lineno)
    ctx.judge(where, len(toks) == 4096 and all(isinstance(t, str) for t in toks), {"n_tokens": len(toks)}, "the vocabulary has exactly 4096 string tokens")
    # block boundaries: first and last token of each published block
    pos = 0
    probes = {"special": ("<ADJLIST_START>", "<PADDING>"), "delimiters": ("(", "<UNK>"), "TARGET_A-Z": ("TARGET_A", "TARGET_Z"),
              "TARGET_directions": ("TARGET_NORTH", "TARGET_CENTER"), "PATH_directions": ("NORTH", "STAY"), "I_000-255": ("+0", "+255"),
              "CTT_0-127": ("0", "127"), "I_N256-1": ("-256", "-1"), "ADJLIST/PATH extras": ("STEP", "<XX>"),
              "RESERVE_708-1595": ("<RESERVE_708>", "<RESERVE_1595>"), "UT_50x50": ("(0,0)", "(49,49)")}
    for name, size in BLOCKS:
        first, last = probes[name]
        got = (toks[pos] if pos < len(toks) else None, toks[pos + size - 1] if pos + size - 1 < len(toks) else None)
        ctx.judge(where, got == (first, last), {"block": name, "start": pos, "size": size, "first_last": got, "expected_first_last": [first, last]},
                  "published layout: special tokens first, then the fixed blocks in order, coordinate tokens last", "a block moved, grew or shrank: token ids after it changed")
        pos += size
    # RESERVE names carry their own index
    bad = [(i, n) for i, n in enumerate(names) if n.startswith("RESERVE_") and n != f"RESERVE_{i}"]
    ctx.judge(where, not bad, {"misnumbered_reserve_fields": bad[:3]}, "RESERVE_k sits at index k: the reserved range exactly fills the gap before the coordinate block")
    dig_all = hashlib.sha256("\n".join(toks).encode()).hexdigest()
    dig_pre = hashlib.sha256("\n".join(toks[:1596]).encode()).hexdigest()
    ref = _reference()
    ctx.judge(where, dig_pre == REFERENCE_SHA256_PREFIX_1596 and dig_all == ref,
              {"sha256_all": dig_all, "sha256_first_1596": dig_pre, "reference_all": ref, "reference_first_1596": REFERENCE_SHA256_PREFIX_1596},
              "the folded list equals the committed reference layout token for token (the reference *is* the property: a token's id never changes)",
              "some token changed position or spelling: ids of saved models/data no longer decode to the same tokens")
    # VOCAB wiring
    vb = m.assigns.get("_VOCAB_BASE")
    ok = isinstance(vb, ast.Call) and dotted_of(vb.func) == "make_dataclass" and X.U(N.kwarg(vb, "fields")) == "_VOCAB_FIELDS" \
        and X.same_expr(N.kwarg(vb, "bases"), "(_SPECIAL_TOKENS_BASE,)")
    ok = ok and X.same_expr(m.assigns.get("VOCAB"), "_VOCAB_BASE()") and X.same_expr(m.assigns.get("VOCAB_LIST"), "list(VOCAB.values())")
    vals = ctx.index.func(f"{CO}._SPECIAL_TOKENS_BASE.values")
    ok = ok and X.same_expr(X.returns_of(vals.node)[0].value, "self.__dict__.values()")
    ctx.judge(where, ok, {"_VOCAB_BASE": X.U(vb)[:120] if vb is not None else None}, "VOCAB_LIST = values of an instance of make_dataclass(fields=_VOCAB_FIELDS, bases=(_SPECIAL_TOKENS_BASE,)) in field order")


def _reference() -> str:
    import json
    import os

    from sa.report import VERIF_DIR
    p = os.path.join(VERIF_DIR, "reference", "vocab_layout.json")
    with open(p) as f:
        return json.load(f)["sha256_all_4096"]


def rule_W2(ctx: Ctx) -> None:
    names, toks = _fold_vocab(ctx)
    m = ctx.index.module(CO)
    where = (m.relpath, f"{CO}._VOCAB_FIELDS", m.assign_nodes["_VOCAB_FIELDS"].lineno)
    seen, dup = {}, []
    for i, t in enumerate(toks):
        if t in seen:
            dup.append((t, seen[t], i))
        seen[t] = i
    ctx.judge(where, not dup, {"duplicates": dup[:5], "distinct": len(seen)}, "all 4096 tokens are pairwise distinct",
              "two ids decode to the same token: encode(decode(id)) != id")
    dn = len(set(names)) == len(names)
    ctx.judge(where, dn, {"distinct_field_names": len(set(names))}, "field names are pairwise distinct (a repeated name would silently replace a field)")


def rule_W3(ctx: Ctx) -> None:
    f = ctx.index.func(f"{UT}.corner_first_ndindex")
    r = X.returns_of(f.node)
    exp = ("corner_first_ndindex(n) = sorted(all of np.ndindex((n,)*ndim), key=K) where K's first component is max(x) and K mentions no variable "
           "other than its argument: then the cells with max < n come first, in an order that does not depend on n => the list for n is a prefix of the list for n+1")
    if len(r) != 1 or not (isinstance(r[0].value, ast.Call) and dotted_of(r[0].value.func) == "sorted"):
        ctx.violation(f, {"returns": X.U(r[0].value) if r else None}, exp, "the result is not a sort of the full index set")
        return
    c = r[0].value
    key = N.kwarg(c, "key")
    rev = N.kwarg(c, "reverse")
    src = c.args[0]
    sdef = X.assignments_to(f.node, src.id) if isinstance(src, ast.Name) else [src]
    # the sorted collection is the full index set: evaluated abstractly for (n, ndim) = (3, 2) and (2, 3)
    ok_src = len(sdef) == 1
    if ok_src:
        def nd_hook(ev_, node, env):
            d_ = dotted_of(node.func)
            if d_ in ("np.ndindex", "numpy.ndindex"):
                args = []
                for a_ in node.args:
                    if isinstance(a_, ast.Starred):
                        args.extend(ev_.ev(a_.value, env))
                    else:
                        args.append(ev_.ev(a_, env))
                shape = args[0] if len(args) == 1 and isinstance(args[0], (tuple, list)) else tuple(args)
                return list(itertools.product(*[range(int(k)) for k in shape]))
            return NotImplemented
        src_full = X.expand_locals(sdef[0], f.node, keep=f.params())
        for n_, d_ in ((3, 2), (2, 3)):
            try:
                got_src = Evaluator({"__call__": nd_hook}).ev(src_full, {f.params()[0]: n_, f.params()[1]: d_})
                ok_src = ok_src and sorted(got_src) == sorted(itertools.product(range(n_), repeat=d_)) and len(got_src) == n_ ** d_
            except Unknown:
                ok_src = False
    ok_key = False
    free = None
    # the key as (argument name, returned expressions, owning function or None): a lambda, or a module-level function given by name
    kf = None
    if isinstance(key, ast.Lambda):
        kf = (key.args.args[0].arg, [key.body], None)
    elif isinstance(key, ast.Name) and key.id in f.module.functions:
        kfn = f.module.functions[key.id]
        kf = (kfn.params()[0], [X.expand_locals(r_.value, kfn.node) for r_ in X.returns_of(kfn.node) if r_.value is not None], kfn)
    if kf is not None and kf[1]:
        arg, bodies, kfn = kf
        local = set() if kfn is None else {n.id for n in ast.walk(kfn.node) if isinstance(n, ast.Name) and isinstance(n.ctx, ast.Store)}
        free = sorted(set().union(*[N.names_in(b) for b in bodies]) - {arg, "max", "min", "len", "sum", "tuple"} - local)
        firsts = []
        for b in bodies:
            for alt in X.alternatives(b):
                firsts.append(alt.elts[0] if isinstance(alt, ast.Tuple) and alt.elts else None)
        ok_key = bool(firsts) and all(x is not None and X.same_expr(x, f"max({arg})") for x in firsts) and not free
    ctx.judge(f, ok_src and ok_key and rev is None, {"source": X.U(sdef[0]) if sdef else None, "key": X.U(key)[:120] if key is not None else None, "free_variables_in_key": free},
              exp, "the ordering depends on n (or is not layered by max coordinate): a tokenizer for grid size n is not prefix-compatible with larger sizes")


def rule_W4(ctx: Ctx) -> None:
    m = ctx.index.module(CO)
    where = (m.relpath, f"{CO}.VOCAB_TOKEN_TO_INDEX", m.assign_nodes["VOCAB_TOKEN_TO_INDEX"].lineno)
    # folded on a symbolic token list (E11): whatever the spelling, the map must send each token of VOCAB_LIST to its position
    from sa.absobj import make_name_hook

    try:
        probe = ["<t0>", "<t1>", "<t2>", "<t3>"]
        nh = make_name_hook(ctx.index, m, lambda: {})
        got = Evaluator({"__name__": lambda n_, e_: probe if n_ == "VOCAB_LIST" else nh(n_, e_)}).ev(m.assigns["VOCAB_TOKEN_TO_INDEX"], {})
        ok = got == {t_: i_ for i_, t_ in enumerate(probe)}
    except Unknown:
        ok = None
    ctx.judge(where, ok, {"VOCAB_TOKEN_TO_INDEX": X.U(m.assigns["VOCAB_TOKEN_TO_INDEX"])}, "token -> id is built by enumerating the very list that decode indexes",
              "encode and decode are not inverse to each other")
    enc = ctx.index.func(f"{MT}.MazeTokenizerModular.encode")
    dec = ctx.index.func(f"{MT}.MazeTokenizerModular.decode")
    e_ok = any(isinstance(n, ast.ListComp) and X.same_expr(n.elt, "VOCAB_TOKEN_TO_INDEX[token]") and X.U(n.generators[0].iter) == "text" for n in ast.walk(enc.node))
    d_ok = any(isinstance(n, ast.ListComp) and X.same_expr(n.elt, "VOCAB_LIST[token_id]") and X.U(n.generators[0].iter) == dec.params()[0] for n in ast.walk(dec.node))
    ctx.judge(enc, e_ok, {}, "encode maps each token through VOCAB_TOKEN_TO_INDEX, in order")
    ctx.judge(dec, d_ok, {}, "decode maps each id through VOCAB_LIST, in order")
    tm = ctx.index.func(f"{MT}.MazeTokenizer._tokenizer_map")
    r = X.returns_of(tm.node)
    ctx.judge(tm, len(r) == 1 and X.same_expr(r[0].value, "{token: i for i, token in enumerate(self._token_arr)}"), {"returns": X.U(r[0].value) if r else None},
              "legacy token -> id map enumerates the legacy token list")
    le = ctx.index.func(f"{MT}.MazeTokenizer.encode")
    ld = ctx.index.func(f"{MT}.MazeTokenizer.decode")
    ctx.judge(le, any(isinstance(n, ast.ListComp) and X.same_expr(n.elt, "self.tokenizer_map[token]") for n in ast.walk(le.node)), {}, "legacy encode uses the map")
    ctx.judge(ld, any(isinstance(n, ast.ListComp) and X.same_expr(n.elt, "self.token_arr[token]") for n in ast.walk(ld.node)), {}, "legacy decode indexes the list")
    for nm, want in (("token_arr", "VOCAB_LIST"), ("tokenizer_map", "VOCAB_TOKEN_TO_INDEX")):
        p = ctx.index.func(f"{MT}.MazeTokenizerModular.{nm}")
        r = X.returns_of(p.node)
        ctx.judge(p, len(r) == 1 and X.U(r[0].value) == want, {"returns": X.U(r[0].value) if r else None}, f"MazeTokenizerModular.{nm} is {want}")


def _decode_guards(fn) -> dict:
    "what the decode function translates to TokenError: IndexError handler, negative-id check inside the try"
    out = {"index_error_translated": False, "negative_rejected": False, "bare": []}
    for t in [n for n in ast.walk(fn.node) if isinstance(n, ast.Try)]:
        for h in t.handlers:
            ty = X.U(h.type) if h.type is not None else ""
            raises_tok = any(isinstance(s, ast.Raise) and isinstance(s.exc, ast.Call) and X.U(s.exc.func) == "TokenError" for s in h.body)
            if "IndexError" in ty and raises_tok:
                out["index_error_translated"] = True
        for n in ast.walk(ast.Module(body=t.body, type_ignores=[])):
            if isinstance(n, ast.If):
                # any(x < 0 for x in ids) / min(ids) < 0  -> raise IndexError/TokenError
                neg = False
                for c in ast.walk(n.test):
                    if isinstance(c, ast.Compare) and len(c.ops) == 1:
                        a = N.compare_atom(c.left, c.ops[0], c.comparators[0])
                        if a.diff is not None and a.op == "<" and len([k for k in a.diff if k != 1]) == 1 and a.diff.get(1, 0) == 0 and list(v for k, v in a.diff.items() if k != 1)[0] > 0:
                            neg = True
                rs = [s for s in n.body if isinstance(s, ast.Raise) and isinstance(s.exc, ast.Call) and X.U(s.exc.func) in ("IndexError", "TokenError")]
                if neg and rs:
                    out["negative_rejected"] = True
                    # the guard itself must be total: min()/max() of an empty id list raises ValueError, which no handler translates
                    for c in ast.walk(n.test):
                        if isinstance(c, ast.Call) and X.U(c.func) in ("min", "max", "np.min", "np.max", "numpy.min", "numpy.max", "np.amin", "np.amax") \
                                and not any(k.arg in ("default", "initial") for k in c.keywords) and len(c.args) == 1:
                            caught = any("ValueError" in (X.U(h.type) if h.type is not None else "ValueError") or X.U(h.type) in ("Exception", "BaseException") for h in t.handlers)
                            if not caught:
                                out.setdefault("partial_guard", []).append(X.U(c))
    # also accepted: a check before the try raising TokenError directly
    for n in fn.node.body:
        if isinstance(n, ast.If) and any(isinstance(s, ast.Raise) and isinstance(s.exc, ast.Call) and X.U(s.exc.func) == "TokenError" for s in n.body):
            if "< 0" in X.U(n.test) or "0 >" in X.U(n.test):
                out["negative_rejected"] = True
    return out


def rule_W5(ctx: Ctx) -> None:
    for q in (f"{MT}.MazeTokenizerModular.encode", f"{MT}.MazeTokenizer.encode"):
        f = ctx.index.func(q)
        ok = False
        for t in [n for n in ast.walk(f.node) if isinstance(n, ast.Try)]:
            for h in t.handlers:
                if h.type is not None and "KeyError" in X.U(h.type) and any(isinstance(s, ast.Raise) and isinstance(s.exc, ast.Call) and X.U(s.exc.func) == "TokenError" for s in h.body):
                    ok = True
        ctx.judge(f, ok, {"key_error_translated": ok}, "an unknown token raises the library's TokenError (KeyError is translated)", "unknown tokens raise a bare KeyError")
    for q in (f"{MT}.MazeTokenizerModular.decode", f"{MT}.MazeTokenizer.decode"):
        f = ctx.index.func(q)
        g = _decode_guards(f)
        ctx.judge(f, g["index_error_translated"], g, "an id beyond the vocabulary raises TokenError (IndexError is translated)", "too-large ids raise a bare IndexError")
        ctx.judge(f, g["negative_rejected"], g,
                  "negative ids are rejected too: a Python list index guarded only by `except IndexError` is a one-sided bound (ids -4096..-1 would silently decode to real tokens)",
                  "decode([-1]) returns the last vocabulary token instead of raising TokenError")
        if g.get("partial_guard"):
            ctx.violation(f, {"guard_calls_partial_on_empty": g["partial_guard"]},
                          "the negative-id guard is total on every id sequence, the empty one included (any(...) / a default= for min)",
                          "decode([]) raises a bare ValueError (min of an empty sequence) instead of returning the empty list: encode/decode are no longer inverse on the empty sequence")


def rule_W7(ctx: Ctx) -> None:
    """encode and decode are mutual inverses, by abstract evaluation on a symbolic vocabulary: for id sequences (the empty one, singletons,
    repeats) decode then encode gives the ids back, for the list form and for the joined string form"""
    from sa.fold import EvalRaised, Evaluator, Obj, Unknown

    vocab = ["<A>", "<B>", "(0,0)", "(0,1)", "<C>", "(", ",", ")", "0", "1"]   # unique-token coordinates and the separate tokens of the indexed form
    t2i = {t: i for i, t in enumerate(vocab)}
    seqs = [[], [0], [4], [2, 0, 1], [1, 1, 3], [3, 2, 2, 4, 0], [5, 8, 6, 9, 7], [0, 5, 9, 6, 8, 7, 1, 5, 8, 6, 8, 7], [5, 7], [7, 5]]
    for owner, static in ((f"{MT}.MazeTokenizerModular", True), (f"{MT}.MazeTokenizer", False)):
        enc = ctx.index.func(f"{owner}.encode")
        dec = ctx.index.func(f"{owner}.decode")
        me = Obj("self", {"tokenizer_map": dict(t2i), "token_arr": list(vocab), "vocab_size": len(vocab)})

        def call(fn, args):
            env = {"VOCAB_TOKEN_TO_INDEX": dict(t2i), "VOCAB_LIST": list(vocab)}
            ps = fn.params()
            if not static:
                env[ps[0]] = me
                ps = ps[1:]
            for p_ in ps:
                d_ = fn.param_default(p_)
                if d_ is not None:
                    env[p_] = Evaluator().ev(d_, {})
            for p_, a_ in zip(ps, args):
                env[p_] = a_
            from sa.absobj import make_name_hook

            return Evaluator({"__name__": make_name_hook(ctx.index, fn.module, lambda: {})}).run_body(X.body_wo_doc(fn.node), env)
        bad, unk = [], []
        for ids in seqs:
            for joined in (False, True):
                try:
                    text = call(dec, [list(ids), joined])
                    back = call(enc, [text])
                except EvalRaised as e:
                    back = f"raises {e.exc_name}"
                except Unknown as e:
                    unk.append(str(e)[:140])
                    continue
                if back != ids:
                    bad.append({"ids": ids, "joined_tokens": joined, "encode(decode(ids))": back})
        ctx.judge(enc, False if bad else None if unk else True, {"id_sequences": len(seqs), "forms": ["list", "joined string"], "deviations": bad[:3], "undecided": unk[:2]},
                  "encode(decode(ids, joined_tokens=J)) == ids for every id sequence, the empty one included, in the list form and in the joined-string form",
                  "encode and decode are not mutual inverses (e.g. the empty sequence joined to '' no longer encodes to [])")


def rule_W8(ctx: Ctx) -> None:
    """clear_cache forgets every cached vocabulary property, whichever of them had been computed (abstract evaluation over all subsets of computed
    properties): after max_grid_size changes, no stale token list / map survives"""
    from sa.fold import EvalRaised, Evaluator, Obj, Unknown

    f = ctx.index.func(f"{MT}.MazeTokenizer.clear_cache")
    props = ["p_first", "p_second", "p_third"]
    bad, unk = [], []
    for mask in range(8):
        computed = {p_ for i, p_ in enumerate(props) if mask >> i & 1}
        state = set(computed)

        def hook(ev, node, env, state=state):
            d = dotted_of(node.func) or ""
            if d == "isinstance" and len(node.args) == 2 and X.U(node.args[1]).endswith("cached_property"):
                return ev.ev(node.args[0], env) == "<cached_property>"
            if d == "delattr" and len(node.args) == 2:
                nm = ev.ev(node.args[1], env)
                if nm not in state:
                    raise EvalRaised("AttributeError", nm)
                state.discard(nm)
                return None
            if d.endswith(".pop") and X.U(node.func.value).endswith("__dict__") and node.args:
                nm = ev.ev(node.args[0], env)
                if nm not in state and len(node.args) < 2:
                    raise EvalRaised("KeyError", nm)
                state.discard(nm)
                return None
            if d in ("inspect.getmembers", "vars", "dir"):
                members = {"plain_method": "<function>", **{p_: "<cached_property>" for p_ in props}, "a_property": "<property>"}
                return list(members.items()) if d == "inspect.getmembers" else (members if d == "vars" else list(members))
            return NotImplemented
        cls_obj = Obj("class", {"__dict__": {"plain_method": "<function>", "p_first": "<cached_property>", "a_property": "<property>", "p_second": "<cached_property>",
                                             "p_third": "<cached_property>"}})
        me = Obj("self", {"__class__": cls_obj})
        try:
            Evaluator({"__call__": hook}).run_body(X.body_wo_doc(f.node), {f.params()[0]: me})
        except EvalRaised as e:
            bad.append({"computed_before": sorted(computed), "found": f"raises {e.exc_name}"})
            continue
        except Unknown as e:
            unk.append(str(e)[:140])
            continue
        if state:
            bad.append({"computed_before": sorted(computed), "still_cached_after_clear_cache": sorted(state)})
    ctx.judge(f, False if bad else None if unk else True, {"subsets_of_computed_properties": 8, "deviations": bad[:3], "undecided": unk[:2]},
              "clear_cache() leaves no cached property behind, whichever subset of them had been computed, and never raises",
              "after max_grid_size is changed a stale token list or token-to-id map survives clear_cache(): the map is no longer the inverse of the list, sizes disagree")


def rule_W6(ctx: Ctx) -> None:
    m = ctx.index.module(MT)
    v = m.assigns.get("_NDINDEX_FUNC_MAP")
    where = (m.relpath, f"{MT}._NDINDEX_FUNC_MAP", m.assign_nodes["_NDINDEX_FUNC_MAP"].lineno)
    ok = isinstance(v, ast.Dict)
    got = {}
    if ok:
        for k, val in zip(v.keys, v.values):
            got[X.U(k).split(".")[-1]] = val
        ok = set(got) == {"AOTP_UT_rasterized", "AOTP_UT_uniform"} and X.same_expr(got["AOTP_UT_rasterized"], "lambda n: list(np.ndindex(n, n))") \
            and X.same_expr(got["AOTP_UT_uniform"], "lambda n: corner_first_ndindex(n, 2)")
    ctx.judge(where, ok, {k: X.U(x) for k, x in got.items()}, "row-major mode lists coordinates by np.ndindex(n, n) (row-major); the uniform mode by corner_first_ndindex(n, 2)",
              "a legacy mode orders its coordinate tokens differently: ids of existing models shift")
    ta = ctx.index.func(f"{MT}.MazeTokenizer._token_arr")
    # abstract evaluation for each legacy mode with max_grid_size 3: special tokens are 11 symbols, a coordinate renders as the symbol "(i,j)"
    from sa.fold import EvalRaised

    u = ctx.index.module(UT)
    modes = {k: f"mode:{k}" for k in ("AOTP_UT_rasterized", "AOTP_UT_uniform", "AOTP_CTT_indexed")}
    special = [f"<S{k}>" for k in range(11)]
    n_ = 3

    class _Strings(dict):
        def __missing__(self, key):
            return [f"({key[0]},{key[1]})"]

    def ta_call(ev_, node, env):
        d_ = dotted_of(node.func) or ""
        if d_ in ("np.ndindex", "numpy.ndindex"):
            args = [ev_.ev(a_, env) for a_ in node.args]
            shape = args[0] if len(args) == 1 and isinstance(args[0], (tuple, list)) else tuple(args)
            return list(itertools.product(*[range(int(k)) for k in shape]))
        if d_ == "SPECIAL_TOKENS.values":
            return list(special)
        if d_ == "corner_first_ndindex":
            return ev_.call(Closure(u.functions["corner_first_ndindex"].node, {}), [ev_.ev(a_, env) for a_ in node.args], {})
        return NotImplemented

    def ta_name(name, env):
        if name == "TokenizationMode":
            return Obj("enum:TokenizationMode", {**modes, "__members__": dict(modes)})
        for mod in (m, u):
            if name in mod.assigns:
                return Evaluator({"__call__": ta_call, "__name__": ta_name}).ev(mod.assigns[name], {})
            if name in mod.functions:
                return Closure(mod.functions[name].node, {})
        raise Unknown(f"free name `{name}`")
    # the vocabulary is a function of (mode, max_grid_size) alone: nothing on the way writes module-level state (a cache keyed by less
    # than both makes the vocabulary of one tokenizer depend on which tokenizers were used before)
    from sa.callgraph import CallGraph

    cg = CallGraph(ctx.index)
    hidden = []
    for q_ in cg.closure([ta.qualname]):
        fq = ctx.index.functions[q_]
        if fq.module.name not in (MT, UT):
            continue
        for w_ in X.module_state_writes(fq.node, fq.module.assigns):
            hidden.append(f"{q_.rsplit('.', 1)[-1]}: {X.U(w_)[:80]}")
    ctx.judge(ta, not hidden, {"module_state_written_on_the_way": hidden[:4]},
              "building a legacy vocabulary writes no module-level state (it depends on the tokenizer's mode and max_grid_size only)",
              "a shared cache makes the vocabulary depend on the tokenizers used earlier in the process: token ids change with history")
    rm = [f"({i},{j})" for i in range(n_) for j in range(n_)]
    try:
        cf = Evaluator({"__call__": ta_call, "__name__": ta_name}).call(Closure(u.functions["corner_first_ndindex"].node, {}), [n_, 2], {})
        cf = [f"({i},{j})" for i, j in cf]
    except Unknown:
        cf = None
    want = {"AOTP_UT_rasterized": special + rm, "AOTP_UT_uniform": (special + cf) if cf is not None else None, "AOTP_CTT_indexed": special + ["(", ",", ")", "0", "1", "2"]}
    bad, unk = [], []
    for mk, mv in modes.items():
        me = Obj("MazeTokenizer", {"tokenization_mode": mv, "max_grid_size": n_, "_node_strings_map": _Strings()})
        try:
            got = Evaluator({"__call__": ta_call, "__name__": ta_name}).run_body(X.body_wo_doc(ta.node), {ta.params()[0]: me})
            got = list(got) if isinstance(got, (list, tuple)) else got
        except EvalRaised as e:
            got = f"raises {e.exc_name}"
        except Unknown as e:
            unk.append(f"{mk}: {e}"[:140])
            continue
        if want[mk] is None:
            unk.append(f"{mk}: corner_first_ndindex could not be evaluated")
        elif got != want[mk]:
            bad.append({"mode": mk, "found": repr(got)[:200], "expected": repr(want[mk])[:200]})
    ctx.judge(ta, False if bad else None if unk and not hidden else True, {"modes": sorted(modes), "max_grid_size": n_, "deviations": bad[:2], "undecided": unk[:2]},
              "legacy vocabulary = special tokens first, then one token per coordinate in the mode's order (UT) or '(' ',' ')' and 0..n-1 (CTT)",
              "the legacy vocabulary has duplicates / another order")
    cs = ctx.index.func("maze_dataset.token_utils._coord_to_strings_UT")
    r = X.returns_of(cs.node)
    ok = len(r) == 1 and X.same_expr(r[0].value, "[f\"({','.join(str(c) for c in coord)})\"]", "[f\"({','.join((str(c) for c in coord))})\"]")
    ctx.judge(cs, ok, {"returns": X.U(r[0].value) if r else None}, "a coordinate renders injectively as '(i,j)' (distinct coordinates give distinct tokens)")
    sp = ctx.index.cls(f"{CO}._SPECIAL_TOKENS_BASE")
    vals = [f.value.value for f in sp.fields.values() if isinstance(f.value, ast.Constant)]
    ctx.judge(sp, len(vals) == 11 == len(set(vals)), {"special_tokens": vals}, "the 11 special tokens are pairwise distinct")


RULES = [
    Rule("C14.W1", rule_W1, floor=15, doc="layout"),
    Rule("C14.W2", rule_W2, floor=2, doc="duplicate-free"),
    Rule("C14.W3", rule_W3, floor=1, doc="corner-first prefix lemma"),
    Rule("C14.W4", rule_W4, floor=8, doc="codec inverse by construction"),
    Rule("C14.W5", rule_W5, floor=6, doc="error translation, both sides"),
    Rule("C14.W8", rule_W8, floor=1, doc="clear_cache forgets every cached property (abstract evaluation over all subsets of computed properties)"),
    Rule("C14.W7", rule_W7, floor=2, doc="encode / decode mutual inverses by abstract evaluation on a symbolic vocabulary (list and joined-string forms, empty sequence)"),
    Rule("C14.W6", rule_W6, floor=5, doc="legacy vocabularies"),
]

from sa import exits as _exits  # noqa: E402

RULES.append(Rule("C14.RX", _exits.make_rule("C14", "C14.RX", _exits.SCOPES["C14"]), floor=1,
                  doc="rejection conditions: the anchored functions refuse inputs only under the conditions confirmed on the pinned tree (E16)"))

from sa import exits as _exits_ms  # noqa: E402

RULES.append(Rule("C14.MS", _exits_ms.make_state_rule("C14", "C14.MS", _exits_ms.SCOPES.get("C14", [])), floor=1,
                  doc="no hidden module-level state on the anchored path: results do not depend on the history of the process (E17)"))

from sa import exits as _exits_nw  # noqa: E402

RULES.append(Rule("C14.NW", _exits_nw.make_narrowing_rule("C14", "C14.NW", _exits_nw.SCOPES.get("C14", [])), floor=1,
                  doc="no new narrowing cast (8/16-bit element types) on the anchored path: coordinates, lengths and indices do not wrap (E18)"))
