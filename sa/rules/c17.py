"""C17 -- rasterized input/target images show the problem and only the solution

Clauses: Z1 colour maps (the mask assignments composed over the 5-colour domain, both values of
endpoints_as_open); Z2 no aliasing between the two images; Z3 isolated-cell neighbourhood;
Z4 pixel extension; Z5 item / batch plumbing and post-processing order.
"""

from __future__ import annotations

import ast

from sa import astx as X
from sa import normal as N
from sa.index import AnalysisError, dotted_of
from sa.report import Ctx, Rule

RZ = "maze_dataset.dataset.rasterized"
LM = "maze_dataset.maze.lattice_maze"
COLS = ["WALL", "OPEN", "START", "END", "PATH"]

EXPLANATION = (
    "The colour rewriting of process_maze_rasterized_input_target is composed as finite maps over the five pixel colours "
    "(abstract interpretation of the mask assignments, for both values of endpoints_as_open) and compared with the maps the "
    "property states; copy/alias structure of the two images; slice offsets of the 4-neighbourhood test; repeat/pad arguments; "
    "forwarding of the three flags and stacking order."
)
ASSUMPTIONS = ["numpy boolean-mask assignment, np.pad, np.repeat, torch.stack semantics", "as_pixels(show_endpoints=True, show_solution=True) draws the full picture (C10)"]
TRUSTED = ["ast"]


def _colour(e: ast.AST, env: dict) -> str | None:
    d = dotted_of(e)
    if d and d.startswith("PixelColors."):
        return d.split(".", 1)[1]
    if isinstance(e, ast.Name) and e.id in env:
        return env[e.id]
    return None


def _apply(body: list[ast.stmt], maps: dict[str, dict[str, str]], flags: dict[str, bool], env: dict) -> None:
    for st in body:
        if isinstance(st, ast.Assign) and isinstance(st.targets[0], ast.Subscript) and X.U(st.targets[0].value) in maps:
            img = X.U(st.targets[0].value)
            mask = st.targets[0].slice
            # (img == C).all(axis=-1)
            src = None
            if isinstance(mask, ast.Call) and isinstance(mask.func, ast.Attribute) and mask.func.attr == "all" and isinstance(mask.func.value, ast.Compare):
                c = mask.func.value
                if X.U(c.left) == img and isinstance(c.ops[0], ast.Eq):
                    src = _colour(c.comparators[0], env)
                elif X.U(c.left) != img:
                    raise AnalysisError(f"mask of {img} is computed from another image: {X.U(mask)}")
            dst = _colour(st.value, env)
            if src is None or dst is None:
                raise AnalysisError(f"mask assignment of unfamiliar shape: {X.U(st)[:100]}")
            for k, v in maps[img].items():
                if v == src:
                    maps[img][k] = dst
        elif isinstance(st, ast.If):
            t = X.U(st.test)
            if t in flags:
                _apply(st.body if flags[t] else st.orelse, maps, flags, env)
            elif isinstance(st.test, ast.UnaryOp) and X.U(st.test.operand) in flags:
                _apply(st.orelse if flags[X.U(st.test.operand)] else st.body, maps, flags, env)
            else:
                raise AnalysisError(f"condition outside the flag domain: {t}")
        elif isinstance(st, ast.For) and isinstance(st.iter, (ast.Tuple, ast.List)) and isinstance(st.target, ast.Name):
            for e in st.iter.elts:
                c = _colour(e, env)
                if c is None:
                    raise AnalysisError("loop over non-colour")
                _apply(st.body, maps, flags, {**env, st.target.id: c})
        else:
            continue


def rule_Z1(ctx: Ctx) -> None:
    f = ctx.index.func(f"{RZ}.process_maze_rasterized_input_target")
    rets = X.returns_of(f.node)
    order = None
    if len(rets) == 1:
        lists = [n for n in ast.walk(rets[0].value) if isinstance(n, ast.List) and len(n.elts) == 2]
        if lists:
            order = [X.U(e) for e in lists[0].elts]
    if order is None:
        ctx.unknown(f, {}, "returns tensor([input_image, target_image])")
        return
    inp, tgt = order
    for eao in (False, True):
        maps = {inp: {c: c for c in COLS}, tgt: {c: c for c in COLS}}
        # only colour-rewriting statements; post-processing flags off (they are shape operations, Z3/Z4)
        flags = {"endpoints_as_open": eao, "remove_isolated_cells": False, "extend_pixels": False}
        _apply(X.body_wo_doc(f.node), maps, flags, {})
        want_in = {"WALL": "WALL", "OPEN": "OPEN", "START": "START", "END": "END", "PATH": "OPEN"}
        end = "OPEN" if eao else None
        want_tg = {"WALL": "WALL", "OPEN": "WALL", "PATH": "OPEN", "START": end or "START", "END": end or "END"}
        ctx.judge(f, maps[inp] == want_in, {"endpoints_as_open": eao, "image": "input", "colour_map": maps[inp]},
                  "input = the maze picture with the solution hidden: PATH -> OPEN, everything else unchanged (endpoints kept)",
                  "the solution leaks into the input image / walls or endpoints are altered")
        ctx.judge(f, maps[tgt] == want_tg, {"endpoints_as_open": eao, "image": "target", "colour_map": maps[tgt]},
                  "target = wall everywhere except the solution: OPEN -> WALL, PATH -> OPEN, endpoints kept coloured (or opened under endpoints_as_open)",
                  "the target shows open corridors, hides the path, or treats the endpoints against the option")
    ctx.judge(f, True, {"returned_order": order}, "the first returned image is the input (problem), the second the target (solution)") if "problem" in inp and "solution" in tgt \
        else ctx.violation(f, {"returned_order": order}, "the first returned image is the input (problem), the second the target (solution)", "input and target are swapped")


def rule_Z2(ctx: Ctx) -> None:
    f = ctx.index.func(f"{RZ}.process_maze_rasterized_input_target")
    src = X.assignments_to(f.node, "maze_pixels")
    ok_src = len(src) == 1 and isinstance(src[0], ast.Call) and X.U(src[0].func).endswith(".as_pixels") \
        and all(isinstance(N.kwarg(src[0], k), ast.Constant) and N.kwarg(src[0], k).value is True for k in ("show_endpoints", "show_solution"))
    ctx.judge(f, ok_src, {"source": X.U(src[0]) if src else None}, "both images start from as_pixels(show_endpoints=True, show_solution=True)")
    for name in ("problem_maze", "solution_maze"):
        d = X.assignments_to(f.node, name)
        first = d[0] if d else None
        ok = first is not None and X.U(first) == "maze_pixels.copy()"
        ctx.judge(f, ok, {"image": name, "initial": X.U(first) if first is not None else None},
                  "each image is its own copy of the rendered pixels (rewriting one must not touch the other)",
                  "input and target share one array: hiding the path in one erases it in the other")


def _offset(sl: ast.AST) -> int | None:
    "offset selected by a slice of an array padded by one on both sides: 1:-1 -> 0, 2: -> +1, :-2 -> -1"
    f = N.slice_form(sl)
    one, two, m1, m2 = (N.aff_key(N.affine(ast.Constant(k))) for k in (1, 2, -1, -2))
    table = {("slice", one, m1, None): 0, ("slice", two, None, None): 1, ("slice", None, m2, None): -1}
    return table.get(f)


def rule_Z3(ctx: Ctx) -> None:
    f = ctx.index.func(f"{LM}._remove_isolated_cells")
    img = f.params()[0]
    wm = X.assignments_to(f.node, "wall_mask")
    ok_w = len(wm) == 1 and X.same_expr(wm[0], f"np.all({img}==PixelColors.WALL,axis=-1)")
    pad = X.assignments_to(f.node, "padded_wall_mask")
    ok_p = False
    if len(pad) == 1 and isinstance(pad[0], ast.Call) and dotted_of(pad[0].func) == "np.pad":
        pw = pad[0].args[1] if len(pad[0].args) > 1 else N.kwarg(pad[0], "pad_width")
        cv = N.kwarg(pad[0], "constant_values")
        ok_p = X.U(pad[0].args[0]) == "wall_mask" and X.U(pw).replace(" ", "") == "((1,1),(1,1))" and isinstance(cv, ast.Constant) and cv.value is True
    ctx.judge(f, ok_w and ok_p, {"wall_mask": X.U(wm[0]) if wm else None, "padding": X.U(pad[0])[:100] if pad else None},
              "walls = pixels equal to WALL; the mask is padded by one wall pixel on every side")
    iso = X.assignments_to(f.node, "isolated_mask")
    offs = set()
    ok_shape = bool(iso)
    if iso:
        first = iso[0]
        terms = []
        def flat(e):
            if isinstance(e, ast.BinOp) and isinstance(e.op, ast.BitAnd):
                flat(e.left); flat(e.right)
            else:
                terms.append(e)
        flat(first)
        for t in terms:
            if isinstance(t, ast.Subscript) and X.U(t.value) == "padded_wall_mask":
                p = N.subscript_parts(t)
                o = (_offset(p[0]), _offset(p[1])) if len(p) == 2 else None
                if o is None or None in o:
                    ok_shape = False
                else:
                    offs.add(o)
            else:
                ok_shape = False
    ctx.judge(f, ok_shape and offs == {(0, 1), (0, -1), (1, 0), (-1, 0)}, {"neighbour_offsets": sorted(offs)},
              "a pixel is isolated iff its four 4-neighbours (0,+-1), (+-1,0) are all wall",
              "diagonal or missing neighbours: cells with an open neighbour are walled up, or isolated ones kept")
    second = iso[1] if len(iso) > 1 else None
    ok2 = second is not None and X.U(second).replace(" ", "") in ("isolated_mask&non_wall_mask", "non_wall_mask&isolated_mask", "isolated_mask&~wall_mask")
    nw = X.assignments_to(f.node, "non_wall_mask")
    ok2 = ok2 and (not nw or X.U(nw[0]) == "~wall_mask")
    out = X.assignments_to(f.node, "output_image")
    st = [s for s in f.node.body if isinstance(s, ast.Assign) and X.U(s.targets[0]) == "output_image[isolated_mask]"]
    ok3 = len(out) == 1 and X.U(out[0]) == f"{img}.copy()" and len(st) == 1 and X.U(st[0].value) == "PixelColors.WALL"
    rets = X.returns_of(f.node)
    ctx.judge(f, ok2 and ok3 and len(rets) == 1 and X.U(rets[0].value) == "output_image",
              {"restrict": X.U(second) if second is not None else None, "output": X.U(out[0]) if out else None},
              "only non-wall pixels change, they become WALL, and the result is a copy (the argument is not modified)")


def rule_Z4(ctx: Ctx) -> None:
    f = ctx.index.func(f"{RZ}._extend_pixels")
    img = f.params()[0]
    reps = [c for c in X.calls(f.node) if dotted_of(c.func) in ("np.repeat", "numpy.repeat")]
    axes = sorted(N.const_int(N.kwarg(c, "axis")) for c in reps if N.kwarg(c, "axis") is not None)
    counts = {X.U(c.args[1]) if len(c.args) > 1 else X.U(N.kwarg(c, "repeats")) for c in reps}
    ok_r = len(reps) == 2 and axes == [0, 1] and counts == {"n_mult"}
    pads = [c for c in X.calls(f.node) if dotted_of(c.func) in ("np.pad", "numpy.pad")]
    ok_p = False
    if len(pads) == 1:
        pw = N.kwarg(pads[0], "pad_width") or (pads[0].args[1] if len(pads[0].args) > 1 else None)
        cv = N.kwarg(pads[0], "constant_values")
        ok_p = X.U(pw).replace(" ", "") == "((n_bdry,n_bdry),(n_bdry,n_bdry),(0,0))" and X.U(cv) == "wall_fill"
    wf = X.assignments_to(f.node, "wall_fill")
    ok_w = len(wf) == 1 and X.U(wf[0]) == "PixelColors.WALL[0]"
    d_m, d_b = f.param_default("n_mult"), f.param_default("n_bdry")
    ok_d = N.const_int(d_m) == 2 and N.const_int(d_b) == 1
    ctx.judge(f, ok_r and ok_p and ok_w and ok_d, {"repeat_axes": axes, "repeat_counts": sorted(counts), "pad": X.U(pads[0])[:120] if pads else None,
                                                   "defaults": [X.U(d_m), X.U(d_b)]},
              "every pixel is repeated n_mult=2 times along rows and columns, then a frame of n_bdry=1 wall pixels is added on those two axes only",
              "pixels are stretched along one axis only / the colour axis is padded / the frame is not wall")


def rule_Z5(ctx: Ctx) -> None:
    f = ctx.index.func(f"{RZ}.process_maze_rasterized_input_target")
    # post-processing applies to both images, isolated-cell removal before extension
    body = X.body_wo_doc(f.node)
    ri = [n for n in body if isinstance(n, ast.If) and X.U(n.test) == "remove_isolated_cells"]
    ep = [n for n in body if isinstance(n, ast.If) and X.U(n.test) == "extend_pixels"]
    def both(n, fn):
        tg = {X.U(s.targets[0]): X.U(s.value) for s in n.body if isinstance(s, ast.Assign)}
        return tg == {"problem_maze": f"{fn}(problem_maze)", "solution_maze": f"{fn}(solution_maze)"}
    ok = len(ri) == 1 and len(ep) == 1 and both(ri[0], "_remove_isolated_cells") and both(ep[0], "_extend_pixels") and body.index(ri[0]) < body.index(ep[0])
    ctx.judge(f, ok, {"remove_isolated": [X.U(s) for s in ri[0].body] if ri else None, "extend": [X.U(s) for s in ep[0].body] if ep else None},
              "each optional post-processing step is applied to both images, isolated-cell removal first (on the un-stretched image)",
              "one image is post-processed and the other is not (shapes/contents disagree)")
    for p, want in (("remove_isolated_cells", True), ("extend_pixels", True), ("endpoints_as_open", False)):
        d = f.param_default(p)
        ctx.judge(f, isinstance(d, ast.Constant) and d.value is want, {"param": p, "default": X.U(d)}, "documented defaults of the three options")
    g = ctx.index.func(f"{RZ}.RasterizedMazeDataset.__getitem__")
    call = [c for c in X.calls(g.node) if dotted_of(c.func) == "process_maze_rasterized_input_target"]
    ok = len(call) == 1 and all(X.U(N.kwarg(call[0], k)) == f"self.cfg.{k}" for k in ("remove_isolated_cells", "extend_pixels", "endpoints_as_open"))
    mz = N.kwarg(call[0], "maze") if call else None
    md = X.assignments_to(g.node, X.U(mz)) if mz is not None and isinstance(mz, ast.Name) else []
    ok = ok and len(md) == 1 and X.U(md[0]) == f"self.mazes[{g.params()[1]}]"
    ctx.judge(g, ok, {"call": X.U(call[0])[:200] if call else None}, "item i rasterizes self.mazes[i] with the three options taken from the config, each by its own name",
              "an option is crossed with another one / another maze is rendered")
    b = ctx.index.func(f"{RZ}.RasterizedMazeDataset.get_batch")
    zz = [s for s in ast.walk(b.node) if isinstance(s, ast.Assign) and isinstance(s.value, ast.Call) and dotted_of(s.value.func) == "zip"]
    ok = len(zz) == 1 and X.U(zz[0].targets[0]).replace(" ", "") in ("inputs,targets", "(inputs,targets)") and X.U(zz[0].value).replace(" ", "") == "zip(*[self[i]foriinidxs])"
    rets = X.returns_of(b.node)
    ok = ok and len(rets) == 1 and X.U(rets[0].value).replace(" ", "") == "torch.stack([torch.stack(inputs),torch.stack(targets)])"
    none = [n for n in b.node.body if isinstance(n, ast.If) and X.U(n.test) == "idxs is None"]
    ok = ok and len(none) == 1 and any(X.U(s).replace(" ", "") == "idxs=list(range(len(self)))" for s in none[0].body)
    ctx.judge(b, ok, {"unzip": X.U(zz[0]) if zz else None, "returns": X.U(rets[0].value) if rets else None},
              "a batch stacks the items of the requested indices in index order: [stack(inputs), stack(targets)]; None means all indices in order",
              "inputs and targets are swapped or items reordered in the batch")


RULES = [
    Rule("C17.Z1", rule_Z1, floor=5, doc="colour maps"),
    Rule("C17.Z2", rule_Z2, floor=3, doc="no aliasing"),
    Rule("C17.Z3", rule_Z3, floor=3, doc="isolated-cell neighbourhood"),
    Rule("C17.Z4", rule_Z4, floor=1, doc="pixel extension"),
    Rule("C17.Z5", rule_Z5, floor=6, doc="post-processing, item and batch plumbing"),
]

from sa import dims as _dims  # noqa: E402

RULES.append(Rule("C17.AX", _dims.make_rule("C17", "C17.AX"), floor=1,
                  doc="axis-extent agreement: coordinate components are bounded by the extent of their own axis (E13)"))
