"""C17 -- rasterized input/target images show the problem and only the solution

Clauses: Z1 colour maps (the mask assignments composed over the 5-colour domain, both values of
endpoints_as_open); Z2 no aliasing between the two images; Z3 isolated-cell neighbourhood;
Z4 pixel extension; Z5 item / batch plumbing and post-processing order.
"""

from __future__ import annotations

import ast

from sa import astx as X
from sa import normal as N
from sa.index import AnalysisError, dotted_of
from sa.report import Ctx, Rule

RZ = "maze_dataset.dataset.rasterized"
LM = "maze_dataset.maze.lattice_maze"
COLS = ["WALL", "OPEN", "START", "END", "PATH"]

EXPLANATION = (
    "The colour rewriting of process_maze_rasterized_input_target is composed as finite maps over the five pixel colours "
    "(abstract interpretation of the mask assignments, for both values of endpoints_as_open) and compared with the maps the "
    "property states; copy/alias structure of the two images; slice offsets of the 4-neighbourhood test; repeat/pad arguments; "
    "forwarding of the three flags and stacking order."
)
ASSUMPTIONS = ["numpy boolean-mask assignment, np.pad, np.repeat, torch.stack semantics", "as_pixels(show_endpoints=True, show_solution=True) draws the full picture (C10)"]
TRUSTED = ["ast"]


def _colour(e: ast.AST, env: dict) -> str | None:
    d = dotted_of(e)
    if d and d.startswith("PixelColors."):
        return d.split(".", 1)[1]
    if isinstance(e, ast.Name) and e.id in env:
        return env[e.id]
    return None


def _apply(body: list[ast.stmt], maps: dict[str, dict[str, str]], flags: dict[str, bool], env: dict) -> None:
    for st in body:
        if isinstance(st, ast.Assign) and isinstance(st.targets[0], ast.Subscript) and X.U(st.targets[0].value) in maps:
            img = X.U(st.targets[0].value)
            mask = st.targets[0].slice
            # (img == C).all(axis=-1)
            src = None
            if isinstance(mask, ast.Call) and isinstance(mask.func, ast.Attribute) and mask.func.attr == "all" and isinstance(mask.func.value, ast.Compare):
                c = mask.func.value
                if X.U(c.left) == img and isinstance(c.ops[0], ast.Eq):
                    src = _colour(c.comparators[0], env)
                elif X.U(c.left) != img:
                    raise AnalysisError(f"mask of {img} is computed from another image: {X.U(mask)}")
            dst = _colour(st.value, env)
            if src is None or dst is None:
                raise AnalysisError(f"mask assignment of unfamiliar shape: {X.U(st)[:100]}")
            for k, v in maps[img].items():
                if v == src:
                    maps[img][k] = dst
        elif isinstance(st, ast.If):
            t = X.U(st.test)
            if t in flags:
                _apply(st.body if flags[t] else st.orelse, maps, flags, env)
            elif isinstance(st.test, ast.UnaryOp) and X.U(st.test.operand) in flags:
                _apply(st.orelse if flags[X.U(st.test.operand)] else st.body, maps, flags, env)
            else:
                raise AnalysisError(f"condition outside the flag domain: {t}")
        elif isinstance(st, ast.For) and isinstance(st.iter, (ast.Tuple, ast.List)) and isinstance(st.target, ast.Name):
            for e in st.iter.elts:
                c = _colour(e, env)
                if c is None:
                    raise AnalysisError("loop over non-colour")
                _apply(st.body, maps, flags, {**env, st.target.id: c})
        else:
            continue


def rule_Z1(ctx: Ctx) -> None:
    f = ctx.index.func(f"{RZ}.process_maze_rasterized_input_target")
    rets = X.returns_of(f.node)
    order = None
    if len(rets) == 1:
        lists = [n for n in ast.walk(rets[0].value) if isinstance(n, ast.List) and len(n.elts) == 2]
        if lists:
            order = [X.U(e) for e in lists[0].elts]
    if order is None:
        ctx.unknown(f, {}, "returns tensor([input_image, target_image])")
        return
    inp, tgt = order
    for eao in (False, True):
        maps = {inp: {c: c for c in COLS}, tgt: {c: c for c in COLS}}
        # only colour-rewriting statements; post-processing flags off (they are shape operations, Z3/Z4)
        flags = {"endpoints_as_open": eao, "remove_isolated_cells": False, "extend_pixels": False}
        _apply(X.body_wo_doc(f.node), maps, flags, {})
        want_in = {"WALL": "WALL", "OPEN": "OPEN", "START": "START", "END": "END", "PATH": "OPEN"}
        end = "OPEN" if eao else None
        want_tg = {"WALL": "WALL", "OPEN": "WALL", "PATH": "OPEN", "START": end or "START", "END": end or "END"}
        ctx.judge(f, maps[inp] == want_in, {"endpoints_as_open": eao, "image": "input", "colour_map": maps[inp]},
                  "input = the maze picture with the solution hidden: PATH -> OPEN, everything else unchanged (endpoints kept)",
                  "the solution leaks into the input image / walls or endpoints are altered")
        ctx.judge(f, maps[tgt] == want_tg, {"endpoints_as_open": eao, "image": "target", "colour_map": maps[tgt]},
                  "target = wall everywhere except the solution: OPEN -> WALL, PATH -> OPEN, endpoints kept coloured (or opened under endpoints_as_open)",
                  "the target shows open corridors, hides the path, or treats the endpoints against the option")
    ctx.judge(f, True, {"returned_order": order}, "the first returned image is the input (problem), the second the target (solution)") if "problem" in inp and "solution" in tgt \
        else ctx.violation(f, {"returned_order": order}, "the first returned image is the input (problem), the second the target (solution)", "input and target are swapped")


def rule_Z2(ctx: Ctx) -> None:
    f = ctx.index.func(f"{RZ}.process_maze_rasterized_input_target")
    src = X.assignments_to(f.node, "maze_pixels")
    ok_src = len(src) == 1 and isinstance(src[0], ast.Call) and X.U(src[0].func).endswith(".as_pixels") \
        and all(isinstance(N.kwarg(src[0], k), ast.Constant) and N.kwarg(src[0], k).value is True for k in ("show_endpoints", "show_solution"))
    ctx.judge(f, ok_src, {"source": X.U(src[0]) if src else None}, "both images start from as_pixels(show_endpoints=True, show_solution=True)")
    for name in ("problem_maze", "solution_maze"):
        d = X.assignments_to(f.node, name)
        first = d[0] if d else None
        ok = first is not None and X.U(first) == "maze_pixels.copy()"
        ctx.judge(f, ok, {"image": name, "initial": X.U(first) if first is not None else None},
                  "each image is its own copy of the rendered pixels (rewriting one must not touch the other)",
                  "input and target share one array: hiding the path in one erases it in the other")


def _offset(sl: ast.AST, axis_len: list[str]) -> int | None:
    """offset selected by a slice of an array padded by one on both sides: 1:-1 -> 0, 2: -> +1, :-2 -> -1, and the explicit forms
    (1+d):(1+d+n) for the unpadded axis length n (given by its accepted spellings)"""
    if not isinstance(sl, ast.Slice) or sl.step is not None:
        return None
    lo = N.affine(sl.lower) if sl.lower is not None else {}
    lo_c = N.aff_const(lo)
    if lo_c is None:
        return None
    lo_c = int(lo_c)
    if sl.upper is None:
        return 1 if lo_c == 2 else None
    up = N.affine(sl.upper)
    up_c = N.aff_const(up)
    if up_c is not None:
        return {(1, -1): 0, (0, -2): -1}.get((lo_c, int(up_c)))
    # upper = lower + n
    diff = N.aff_add(up, lo, -1)
    if any(N.aff_eq(diff, X.expr_of(n_)) for n_ in axis_len) and lo_c in (0, 1, 2):
        return lo_c - 1
    return None


def rule_Z3(ctx: Ctx) -> None:
    """_remove_isolated_cells by abstract evaluation over colour-symbol images: every 3x3 image over {WALL, OPEN} (512), plus
    images with START / END / PATH pixels; a pixel becomes WALL iff it is not a wall and its four 4-neighbours (the outside counts
    as wall) are all wall; every other pixel keeps its colour; the argument is not modified"""
    import itertools

    from sa.absnp import MODELS, Arr
    from sa.fold import EvalRaised, Evaluator, Obj, Unknown

    f = ctx.index.func(f"{LM}._remove_isolated_cells")
    img_p = f.params()[0]
    pc = ctx.index.cls(f"{LM}.PixelColors")
    rgb = {}
    for k_, v_ in pc.fields.items():
        try:
            rgb[k_] = tuple(Evaluator().ev(v_.value, {}))
        except Exception:
            pass
    for k_, v_ in pc.assigns.items():
        try:
            rgb.setdefault(k_, tuple(Evaluator().ev(v_, {})))
        except Exception:
            pass
    if not {"WALL", "OPEN", "START", "END", "PATH"} <= set(rgb):
        ctx.unknown(f, {"colours_found": sorted(rgb)}, "PixelColors declares WALL, OPEN, START, END, PATH as RGB triples")
        return
    colours = Obj("PixelColors", {k: list(v) for k, v in rgb.items()})

    def hook(ev, node, env):
        d = dotted_of(node.func) or ""
        if d in MODELS:
            args = [ev.ev(a, env) for a in node.args]
            kw = {k.arg: ev.ev(k.value, env) for k in node.keywords if k.arg}
            try:
                return MODELS[d](*args, **kw)
            except (ValueError, IndexError) as e:
                raise EvalRaised(type(e).__name__, str(e))
            except Exception as e:
                raise Unknown(f"model of {d}: {e}")
        return NotImplemented

    def name_hook(name, env):
        if name == "PixelColors":
            return colours
        if name in f.module.assigns:
            return Evaluator({"__call__": hook, "__name__": name_hook}).ev(f.module.assigns[name], {})
        raise Unknown(f"free name `{name}`")

    def expected(img):
        h, w = len(img), len(img[0])
        out = [list(r) for r in img]
        for i in range(h):
            for j in range(w):
                if img[i][j] == "WALL":
                    continue
                nb = [(i, j + 1), (i, j - 1), (i + 1, j), (i - 1, j)]
                if all(not (0 <= a < h and 0 <= b < w) or img[a][b] == "WALL" for a, b in nb):
                    out[i][j] = "WALL"
        return out
    images = [[list(bits[0:3]), list(bits[3:6]), list(bits[6:9])] for bits in itertools.product(("WALL", "OPEN"), repeat=9)]
    images += [[["WALL", "WALL", "WALL"], ["WALL", c, "WALL"], ["WALL", "WALL", "WALL"]] for c in ("START", "END", "PATH")]
    images += [[["START", "END", "WALL"], ["WALL", "WALL", "PATH"]], [["OPEN"]], [["WALL", "OPEN", "WALL", "OPEN"]], [["OPEN", "WALL"], ["WALL", "OPEN"], ["OPEN", "OPEN"]]]
    bad, unk = [], []
    for img in images:
        arg = Arr([[list(rgb[c]) for c in r] for r in img])
        before = [[list(rgb[c]) for c in r] for r in img]
        back = {tuple(v): k for k, v in rgb.items()}
        try:
            got = Evaluator({"__call__": hook, "__name__": name_hook}).run_body(X.body_wo_doc(f.node), {img_p: arg})
            gd = [[back.get(tuple(px), px) if isinstance(px, list) else px for px in r] for r in got.data] if isinstance(got, Arr) else got
        except EvalRaised as e:
            gd = f"raises {e.exc_name}"
        except Unknown as e:
            unk.append(str(e)[:140])
            break
        if gd != expected(img) and len(bad) < 3:
            bad.append({"image": img, "found": gd, "expected": expected(img)})
        if arg.data != before and len(bad) < 3:
            bad.append({"image": img, "argument_after_the_call": arg.data, "expected": "unchanged (the result is a copy)"})
    ctx.judge(f, False if bad else None if unk else True, {"abstract_images": len(images), "deviations": bad[:2], "undecided": unk[:1]},
              "a pixel is isolated iff it is not a wall and its four 4-neighbours (0,+-1), (+-1,0) are all wall (the outside counts as wall); isolated pixels become WALL, "
              "every other pixel keeps its colour, and the result is a copy (the argument is not modified)",
              "diagonal or missing neighbours: cells with an open neighbour are walled up, or isolated ones kept; or the caller's image is modified")


def rule_Z4(ctx: Ctx) -> None:
    f = ctx.index.func(f"{RZ}._extend_pixels")
    img = f.params()[0]
    reps = [c for c in X.calls(f.node) if dotted_of(c.func) in ("np.repeat", "numpy.repeat")]
    axes = sorted(N.const_int(N.kwarg(c, "axis")) for c in reps if N.kwarg(c, "axis") is not None)
    counts = {X.U(c.args[1]) if len(c.args) > 1 else X.U(N.kwarg(c, "repeats")) for c in reps}
    ok_r = len(reps) == 2 and axes == [0, 1] and counts == {"n_mult"}
    pads = [c for c in X.calls(f.node) if dotted_of(c.func) in ("np.pad", "numpy.pad")]
    ok_p = False
    if len(pads) == 1:
        pw = N.kwarg(pads[0], "pad_width") or (pads[0].args[1] if len(pads[0].args) > 1 else None)
        cv = N.kwarg(pads[0], "constant_values")
        ok_p = X.U(pw).replace(" ", "") == "((n_bdry,n_bdry),(n_bdry,n_bdry),(0,0))" and X.U(cv) == "wall_fill"
    wf = X.assignments_to(f.node, "wall_fill")
    ok_w = len(wf) == 1 and X.U(wf[0]) == "PixelColors.WALL[0]"
    d_m, d_b = f.param_default("n_mult"), f.param_default("n_bdry")
    ok_d = N.const_int(d_m) == 2 and N.const_int(d_b) == 1
    ctx.judge(f, ok_r and ok_p and ok_w and ok_d, {"repeat_axes": axes, "repeat_counts": sorted(counts), "pad": X.U(pads[0])[:120] if pads else None,
                                                   "defaults": [X.U(d_m), X.U(d_b)]},
              "every pixel is repeated n_mult=2 times along rows and columns, then a frame of n_bdry=1 wall pixels is added on those two axes only",
              "pixels are stretched along one axis only / the colour axis is padded / the frame is not wall")


def rule_Z5(ctx: Ctx) -> None:
    f = ctx.index.func(f"{RZ}.process_maze_rasterized_input_target")
    # post-processing applies to both images, isolated-cell removal before extension
    body = X.body_wo_doc(f.node)
    ri = [n for n in body if isinstance(n, ast.If) and X.U(n.test) == "remove_isolated_cells"]
    ep = [n for n in body if isinstance(n, ast.If) and X.U(n.test) == "extend_pixels"]
    def both(n, fn):
        tg = {X.U(s.targets[0]): X.U(s.value) for s in n.body if isinstance(s, ast.Assign)}
        return tg == {"problem_maze": f"{fn}(problem_maze)", "solution_maze": f"{fn}(solution_maze)"}
    ok = len(ri) == 1 and len(ep) == 1 and both(ri[0], "_remove_isolated_cells") and both(ep[0], "_extend_pixels") and body.index(ri[0]) < body.index(ep[0])
    ctx.judge(f, ok, {"remove_isolated": [X.U(s) for s in ri[0].body] if ri else None, "extend": [X.U(s) for s in ep[0].body] if ep else None},
              "each optional post-processing step is applied to both images, isolated-cell removal first (on the un-stretched image)",
              "one image is post-processed and the other is not (shapes/contents disagree)")
    for p, want in (("remove_isolated_cells", True), ("extend_pixels", True), ("endpoints_as_open", False)):
        d = f.param_default(p)
        ctx.judge(f, isinstance(d, ast.Constant) and d.value is want, {"param": p, "default": X.U(d)}, "documented defaults of the three options")
    g = ctx.index.func(f"{RZ}.RasterizedMazeDataset.__getitem__")
    call = [c for c in X.calls(g.node) if dotted_of(c.func) == "process_maze_rasterized_input_target"]
    ok = len(call) == 1 and all(X.U(N.kwarg(call[0], k)) == f"self.cfg.{k}" for k in ("remove_isolated_cells", "extend_pixels", "endpoints_as_open"))
    mz = N.kwarg(call[0], "maze") if call else None
    md = X.assignments_to(g.node, X.U(mz)) if mz is not None and isinstance(mz, ast.Name) else ([mz] if mz is not None else [])   # through a local, or written in place
    ok = ok and len(md) == 1 and X.U(md[0]) == f"self.mazes[{g.params()[1]}]"
    ctx.judge(g, ok, {"call": X.U(call[0])[:200] if call else None}, "item i rasterizes self.mazes[i] with the three options taken from the config, each by its own name",
              "an option is crossed with another one / another maze is rendered")
    b = ctx.index.func(f"{RZ}.RasterizedMazeDataset.get_batch")
    # abstract evaluation: the dataset has 3 symbolic items (in_i, tg_i); torch.stack is a symbolic constructor
    from sa.absobj import AbstractClass
    from sa.fold import EvalRaised, Obj, Unknown

    ac = AbstractClass(ctx.index, f"{RZ}.RasterizedMazeDataset",
                       extra_calls={"torch.stack": lambda xs, *a, **k: ("stack", list(xs))},
                       len_of=lambda o: 3, getitem_of=lambda o, k: (f"in{k}", f"tg{k}") if o.cls == "self" else (_ for _ in ()).throw(Unknown("subscript")))
    ac._len = ac._make_len()
    cases = [([2, 0], [2, 0]), ([1], [1]), (None, [0, 1, 2]), ([0, 0, 2], [0, 0, 2])]
    bad, unk = [], []
    for idxs, order in cases:
        want = ("stack", [("stack", [f"in{k}" for k in order]), ("stack", [f"tg{k}" for k in order])])
        so = Obj("self", {"mazes": ["m0", "m1", "m2"]})
        try:
            got = ac.call(so, "get_batch", [idxs])
        except EvalRaised as e:
            got = f"raises {e.exc_name}"
        except Unknown as e:
            unk.append(str(e)[:120])
            continue
        if got != want:
            bad.append({"idxs": idxs, "found": repr(got)[:160], "expected": repr(want)[:160]})
    ctx.judge(b, False if bad else None if unk else True, {"cases": len(cases), "deviations": bad[:2], "undecided": unk[:2]},
              "a batch stacks the items of the requested indices in index order: [stack(inputs), stack(targets)]; None means all indices in order",
              "inputs and targets are swapped or items reordered in the batch")


def rule_Z6(ctx: Ctx) -> None:
    """the options reach the item as given: the three option fields of RasterizedMazeDatasetConfig are stored and loaded unchanged, and
    from_base_MazeDataset lets the requested options override whatever the base configuration carries"""
    from sa.fold import Closure, EvalRaised, Evaluator, Unknown

    c = ctx.index.cls(f"{RZ}.RasterizedMazeDatasetConfig")
    for name in ("remove_isolated_cells", "extend_pixels", "endpoints_as_open"):
        f = c.fields.get(name)
        if f is None:
            ctx.unknown(c, {"field": name}, "option field declared on RasterizedMazeDatasetConfig")
            continue
        bad, unk = [], []
        for kw in ("loading_fn", "serialization_fn", "deserialize_fn"):
            fn = f.kwarg(kw)
            if fn is None:
                continue
            for v in (True, False):
                arg = {name: v, "name": "<n>"} if kw == "loading_fn" else v
                try:
                    ev_ = Evaluator()
                    got = ev_.call(ev_.ev(fn, {}), [arg], {})
                except EvalRaised as e:
                    got = f"raises {e.exc_name}"
                except (Unknown, Exception) as e:
                    unk.append(f"{kw}: {e}"[:120])
                    continue
                if got is not v:
                    bad.append({kw: X.U(fn)[:80], "stored": v, "comes_back_as": got})
        ctx.judge(c, False if bad else None if unk else True, {"field": name, "deviations": bad[:2], "undecided": unk[:2]},
                  "an option field comes back from serialize / load exactly as it was set (True stays True, False stays False)",
                  "a dataset built through the configuration (from_base_MazeDataset, from_config_augmented) silently uses another option value than the one requested")
    fb = ctx.index.func(f"{RZ}.RasterizedMazeDataset.from_base_MazeDataset")
    loads = [x for x in X.calls(fb.node) if isinstance(x.func, ast.Attribute) and x.func.attr == "load" and x.args]
    exp = "from_base_MazeDataset loads the configuration from the base configuration's record overridden by the requested options (added_params win)"
    if len(loads) != 1:
        ctx.unknown(fb, {"load_calls": len(loads)}, exp)
        return
    base_p, add_p = fb.params()[1], fb.params()[2]

    def hook(ev_, node, env):
        if isinstance(node.func, ast.Attribute) and node.func.attr == "serialize" and X.U(node.func.value) == f"{base_p}.cfg":
            return {"name": "<n>", "remove_isolated_cells": "<base>", "extend_pixels": "<base>", "endpoints_as_open": "<base>"}
        return NotImplemented
    try:
        got = Evaluator({"__call__": hook}).ev(loads[0].args[0], {add_p: {"remove_isolated_cells": "<requested>", "endpoints_as_open": "<requested>"}, base_p: "<base dataset>"})
        ok = isinstance(got, dict) and got.get("remove_isolated_cells") == "<requested>" and got.get("endpoints_as_open") == "<requested>" and got.get("extend_pixels") == "<base>" \
            and got.get("name") == "<n>"
        shown = got
    except (Unknown, EvalRaised) as e:
        ok, shown = None, f"undecided: {e}"[:140]
    ctx.judge(fb, ok, {"record_loaded": shown}, exp,
              "re-rasterizing an already rasterized dataset with other options keeps the old options: images do not show what the options say", node=loads[0])


RULES = [
    Rule("C17.Z1", rule_Z1, floor=5, doc="colour maps"),
    Rule("C17.Z2", rule_Z2, floor=3, doc="no aliasing"),
    Rule("C17.Z3", rule_Z3, floor=1, doc="isolated-cell neighbourhood"),
    Rule("C17.Z4", rule_Z4, floor=1, doc="pixel extension"),
    Rule("C17.Z6", rule_Z6, floor=4, doc="option plumbing through the configuration: fields stored / loaded unchanged, requested options override the base record"),
    Rule("C17.Z5", rule_Z5, floor=6, doc="post-processing, item and batch plumbing"),
]

from sa import dims as _dims  # noqa: E402

RULES.append(Rule("C17.AX", _dims.make_rule("C17", "C17.AX"), floor=1,
                  doc="axis-extent agreement: coordinate components are bounded by the extent of their own axis (E13)"))

from sa import exits as _exits  # noqa: E402

RULES.append(Rule("C17.RX", _exits.make_rule("C17", "C17.RX", _exits.SCOPES["C17"]), floor=1,
                  doc="rejection conditions: the anchored functions refuse inputs only under the conditions confirmed on the pinned tree (E16)"))

from sa import exits as _exits_ms  # noqa: E402

RULES.append(Rule("C17.MS", _exits_ms.make_state_rule("C17", "C17.MS", _exits_ms.SCOPES.get("C17", [])), floor=1,
                  doc="no hidden module-level state on the anchored path: results do not depend on the history of the process (E17)"))

from sa import exits as _exits_nw  # noqa: E402

RULES.append(Rule("C17.NW", _exits_nw.make_narrowing_rule("C17", "C17.NW", _exits_nw.SCOPES.get("C17", [])), floor=1,
                  doc="no new narrowing cast (8/16-bit element types) on the anchored path: coordinates, lengths and indices do not wrap (E18)"))
