"""C17 -- rasterized input/target images show the problem and only the solution

Clauses: Z1 colour maps (the mask assignments composed over the 5-colour domain, both values of
endpoints_as_open); Z2 no aliasing between the two images; Z3 isolated-cell neighbourhood;
Z4 pixel extension; Z5 item / batch plumbing and post-processing order.
"""

from __future__ import annotations

import ast

from sa import astx as X
from sa import normal as N
from sa.index import AnalysisError, dotted_of
from sa.report import Ctx, Rule

RZ = "maze_dataset.dataset.rasterized"
LM = "maze_dataset.maze.lattice_maze"
COLS = ["WALL", "OPEN", "START", "END", "PATH"]

EXPLANATION = (
    "The colour rewriting of process_maze_rasterized_input_target is composed as finite maps over the five pixel colours "
    "(abstract interpretation of the mask assignments, for both values of endpoints_as_open) and compared with the maps the "
    "property states; copy/alias structure of the two images; slice offsets of the 4-neighbourhood test; repeat/pad arguments; "
    "forwarding of the three flags and stacking order."
)
ASSUMPTIONS = ["numpy boolean-mask assignment, np.pad, np.repeat, torch.stack semantics", "as_pixels(show_endpoints=True, show_solution=True) draws the full picture (C10)"]
TRUSTED = ["ast"]


def _colour(e: ast.AST, env: dict) -> str | None:
    d = dotted_of(e)
    if d and d.startswith("PixelColors."):
        return d.split(".", 1)[1]
    if isinstance(e, ast.Name) and e.id in env:
        return env[e.id]
    return None


def _apply(body: list[ast.stmt], maps: dict[str, dict[str, str]], flags: dict[str, bool], env: dict) -> None:
    for st in body:
        if isinstance(st, ast.Assign) and isinstance(st.targets[0], ast.Subscript) and X.U(st.targets[0].value) in maps:
            img = X.U(st.targets[0].value)
            mask = st.targets[0].slice
            # (img == C).all(axis=-1)
            src = None
            if isinstance(mask, ast.Call) and isinstance(mask.func, ast.Attribute) and mask.func.attr == "all" and isinstance(mask.func.value, ast.Compare):
                c = mask.func.value
                if X.U(c.left) == img and isinstance(c.ops[0], ast.Eq):
                    src = _colour(c.comparators[0], env)
                elif X.U(c.left) != img:
                    raise AnalysisError(f"mask of {img} is computed from another image: {X.U(mask)}")
            dst = _colour(st.value, env)
            if src is None or dst is None:
                raise AnalysisError(f"mask assignment of unfamiliar shape: {X.U(st)[:100]}")
            for k, v in maps[img].items():
                if v == src:
                    maps[img][k] = dst
        elif isinstance(st, ast.If):
            t = X.U(st.test)
            if t in flags:
                _apply(st.body if flags[t] else st.orelse, maps, flags, env)
            elif isinstance(st.test, ast.UnaryOp) and X.U(st.test.operand) in flags:
                _apply(st.orelse if flags[X.U(st.test.operand)] else st.body, maps, flags, env)
            else:
                raise AnalysisError(f"condition outside the flag domain: {t}")
        elif isinstance(st, ast.For) and isinstance(st.iter, (ast.Tuple, ast.List)) and isinstance(st.target, ast.Name):
            for e in st.iter.elts:
                c = _colour(e, env)
                if c is None:
                    raise AnalysisError("loop over non-colour")
                _apply(st.body, maps, flags, {**env, st.target.id: c})
        else:
            continue


def rule_Z1(ctx: Ctx) -> None:
    f = ctx.index.func(f"{RZ}.process_maze_rasterized_input_target")
    rets = X.returns_of(f.node)
    order = None
    if len(rets) == 1:
        lists = [n for n in ast.walk(rets[0].value) if isinstance(n, ast.List) and len(n.elts) == 2]
        if lists:
            order = [X.U(e) for e in lists[0].elts]
    if order is None:
        ctx.unknown(f, {}, "returns tensor([input_image, target_image])")
        return
    inp, tgt = order
    for eao in (False, True):
        maps = {inp: {c: c for c in COLS}, tgt: {c: c for c in COLS}}
        # only colour-rewriting statements; post-processing flags off (they are shape operations, Z3/Z4)
        flags = {"endpoints_as_open": eao, "remove_isolated_cells": False, "extend_pixels": False}
        _apply(X.body_wo_doc(f.node), maps, flags, {})
        want_in = {"WALL": "WALL", "OPEN": "OPEN", "START": "START", "END": "END", "PATH": "OPEN"}
        end = "OPEN" if eao else None
        want_tg = {"WALL": "WALL", "OPEN": "WALL", "PATH": "OPEN", "START": end or "START", "END": end or "END"}
        ctx.judge(f, maps[inp] == want_in, {"endpoints_as_open": eao, "image": "input", "colour_map": maps[inp]},
                  "input = the maze picture with the solution hidden: PATH -> OPEN, everything else unchanged (endpoints kept)",
                  "the solution leaks into the input image / walls or endpoints are altered")
        ctx.judge(f, maps[tgt] == want_tg, {"endpoints_as_open": eao, "image": "target", "colour_map": maps[tgt]},
                  "target = wall everywhere except the solution: OPEN -> WALL, PATH -> OPEN, endpoints kept coloured (or opened under endpoints_as_open)",
                  "the target shows open corridors, hides the path, or treats the endpoints against the option")
    ctx.judge(f, True, {"returned_order": order}, "the first returned image is the input (problem), the second the target (solution)") if "problem" in inp and "solution" in tgt \
        else ctx.violation(f, {"returned_order": order}, "the first returned image is the input (problem), the second the target (solution)", "input and target are swapped")


def rule_Z2(ctx: Ctx) -> None:
    f = ctx.index.func(f"{RZ}.process_maze_rasterized_input_target")
    src = X.assignments_to(f.node, "maze_pixels")
    ok_src = len(src) == 1 and isinstance(src[0], ast.Call) and X.U(src[0].func).endswith(".as_pixels") \
        and all(isinstance(N.kwarg(src[0], k), ast.Constant) and N.kwarg(src[0], k).value is True for k in ("show_endpoints", "show_solution"))
    ctx.judge(f, ok_src, {"source": X.U(src[0]) if src else None}, "both images start from as_pixels(show_endpoints=True, show_solution=True)")
    for name in ("problem_maze", "solution_maze"):
        d = X.assignments_to(f.node, name)
        first = d[0] if d else None
        ok = first is not None and X.U(first) == "maze_pixels.copy()"
        ctx.judge(f, ok, {"image": name, "initial": X.U(first) if first is not None else None},
                  "each image is its own copy of the rendered pixels (rewriting one must not touch the other)",
                  "input and target share one array: hiding the path in one erases it in the other")


def _offset(sl: ast.AST, axis_len: list[str]) -> int | None:
    """offset selected by a slice of an array padded by one on both sides: 1:-1 -> 0, 2: -> +1, :-2 -> -1, and the explicit forms
    (1+d):(1+d+n) for the unpadded axis length n (given by its accepted spellings)"""
    if not isinstance(sl, ast.Slice) or sl.step is not None:
        return None
    lo = N.affine(sl.lower) if sl.lower is not None else {}
    lo_c = N.aff_const(lo)
    if lo_c is None:
        return None
    lo_c = int(lo_c)
    if sl.upper is None:
        return 1 if lo_c == 2 else None
    up = N.affine(sl.upper)
    up_c = N.aff_const(up)
    if up_c is not None:
        return {(1, -1): 0, (0, -2): -1}.get((lo_c, int(up_c)))
    # upper = lower + n
    diff = N.aff_add(up, lo, -1)
    if any(N.aff_eq(diff, X.expr_of(n_)) for n_ in axis_len) and lo_c in (0, 1, 2):
        return lo_c - 1
    return None


def rule_Z3(ctx: Ctx) -> None:
    """symbolic straight-line walk of _remove_isolated_cells (loops over constant offset tables unrolled, temporaries substituted):
    the mask that is painted WALL is  ~wall & shifted(wall, each 4-neighbour offset)  on the one-pixel padded wall mask"""
    from sa import dtable as DT

    f = ctx.index.func(f"{LM}._remove_isolated_cells")
    img = f.params()[0]
    rows = DT.table(f.node, {}, module_consts=f.module.assigns)
    row = rows[0]
    exp_w = "walls = pixels equal to WALL; the mask is padded by one wall pixel on every side"
    if row["outcome"][0] == "unknown":
        ctx.unknown(f, {"why": row["outcome"][1]}, exp_w)
        return
    stores = [e for e in row["effects"] if e[0] == "store" and e[2] == "PixelColors.WALL"]
    if len(stores) != 1:
        ctx.judge(f, False if not stores else None, {"stores_of_WALL": [e[1][:80] for e in stores]}, "exactly one masked store paints pixels WALL")
        return
    tgt = ast.parse(stores[0][1], mode="eval").body
    base_ok = isinstance(tgt, ast.Subscript) and X.same_expr(tgt.value, f"{img}.copy()")
    mask = tgt.slice if isinstance(tgt, ast.Subscript) else None
    terms: list[ast.AST] = []

    def flat(e):
        if isinstance(e, ast.BinOp) and isinstance(e.op, ast.BitAnd):
            flat(e.left)
            flat(e.right)
        elif isinstance(e, ast.Call) and dotted_of(e.func) in ("np.logical_and", "numpy.logical_and") and len(e.args) == 2:
            flat(e.args[0])
            flat(e.args[1])
        else:
            terms.append(e)
    if mask is not None:
        flat(mask)
    wall = f"np.all({img} == PixelColors.WALL, axis=-1)"
    wall_alt = f"({img} == PixelColors.WALL).all(axis=-1)"
    offs, other, nonwall = [], [], 0
    pads_ok = True
    for t in terms:
        if isinstance(t, ast.UnaryOp) and isinstance(t.op, ast.Invert) and X.same_expr(t.operand, wall, wall_alt):
            nonwall += 1
        elif isinstance(t, ast.Call) and dotted_of(t.func) in ("np.logical_not", "numpy.logical_not") and len(t.args) == 1 and X.same_expr(t.args[0], wall, wall_alt):
            nonwall += 1
        elif isinstance(t, ast.Subscript) and isinstance(t.value, ast.Call) and dotted_of(t.value.func) in ("np.pad", "numpy.pad"):
            pc = t.value
            pw = pc.args[1] if len(pc.args) > 1 else N.kwarg(pc, "pad_width")
            cv = N.kwarg(pc, "constant_values")
            if not (pc.args and X.same_expr(pc.args[0], wall, wall_alt) and pw is not None and X.U(pw).replace(" ", "") in ("((1,1),(1,1))", "1", "(1,1)")
                    and isinstance(cv, ast.Constant) and cv.value is True):
                pads_ok = False
            p = N.subscript_parts(t)
            n_rows = [f"len({wall})", f"len({wall_alt})", f"{wall}.shape[0]", f"{wall_alt}.shape[0]", f"len({img})", f"{img}.shape[0]"]
            n_cols = [f"{wall}.shape[1]", f"{wall_alt}.shape[1]", f"{img}.shape[1]"]
            o = (_offset(p[0], n_rows), _offset(p[1], n_cols)) if len(p) == 2 else None
            if o is None or None in o:
                other.append(X.U(t)[-60:])
            else:
                offs.append(o)
        else:
            other.append(X.U(t)[:60])
    ctx.judge(f, pads_ok and bool(offs), {"conjuncts": len(terms), "padded_views": len(offs)}, exp_w)
    ctx.judge(f, (not other) and sorted(offs) == sorted([(0, 1), (0, -1), (1, 0), (-1, 0)]), {"neighbour_offsets": sorted(offs), "other_conjuncts": other[:3]},
              "a pixel is isolated iff its four 4-neighbours (0,+-1), (+-1,0) are all wall",
              "diagonal or missing neighbours: cells with an open neighbour are walled up, or isolated ones kept")
    ret_ok = row["outcome"][0] == "return" and X.same_expr(row["outcome"][1], f"{img}.copy()")
    ctx.judge(f, nonwall >= 1 and base_ok and ret_ok, {"non_wall_conjuncts": nonwall, "painted": X.U(tgt.value)[:60] if isinstance(tgt, ast.Subscript) else None,
                                                       "returns": DT.outcome_str(row["outcome"])[:80]},
              "only non-wall pixels change, they become WALL, and the result is a copy (the argument is not modified)")


def rule_Z4(ctx: Ctx) -> None:
    f = ctx.index.func(f"{RZ}._extend_pixels")
    img = f.params()[0]
    reps = [c for c in X.calls(f.node) if dotted_of(c.func) in ("np.repeat", "numpy.repeat")]
    axes = sorted(N.const_int(N.kwarg(c, "axis")) for c in reps if N.kwarg(c, "axis") is not None)
    counts = {X.U(c.args[1]) if len(c.args) > 1 else X.U(N.kwarg(c, "repeats")) for c in reps}
    ok_r = len(reps) == 2 and axes == [0, 1] and counts == {"n_mult"}
    pads = [c for c in X.calls(f.node) if dotted_of(c.func) in ("np.pad", "numpy.pad")]
    ok_p = False
    if len(pads) == 1:
        pw = N.kwarg(pads[0], "pad_width") or (pads[0].args[1] if len(pads[0].args) > 1 else None)
        cv = N.kwarg(pads[0], "constant_values")
        ok_p = X.U(pw).replace(" ", "") == "((n_bdry,n_bdry),(n_bdry,n_bdry),(0,0))" and X.U(cv) == "wall_fill"
    wf = X.assignments_to(f.node, "wall_fill")
    ok_w = len(wf) == 1 and X.U(wf[0]) == "PixelColors.WALL[0]"
    d_m, d_b = f.param_default("n_mult"), f.param_default("n_bdry")
    ok_d = N.const_int(d_m) == 2 and N.const_int(d_b) == 1
    ctx.judge(f, ok_r and ok_p and ok_w and ok_d, {"repeat_axes": axes, "repeat_counts": sorted(counts), "pad": X.U(pads[0])[:120] if pads else None,
                                                   "defaults": [X.U(d_m), X.U(d_b)]},
              "every pixel is repeated n_mult=2 times along rows and columns, then a frame of n_bdry=1 wall pixels is added on those two axes only",
              "pixels are stretched along one axis only / the colour axis is padded / the frame is not wall")


def rule_Z5(ctx: Ctx) -> None:
    f = ctx.index.func(f"{RZ}.process_maze_rasterized_input_target")
    # post-processing applies to both images, isolated-cell removal before extension
    body = X.body_wo_doc(f.node)
    ri = [n for n in body if isinstance(n, ast.If) and X.U(n.test) == "remove_isolated_cells"]
    ep = [n for n in body if isinstance(n, ast.If) and X.U(n.test) == "extend_pixels"]
    def both(n, fn):
        tg = {X.U(s.targets[0]): X.U(s.value) for s in n.body if isinstance(s, ast.Assign)}
        return tg == {"problem_maze": f"{fn}(problem_maze)", "solution_maze": f"{fn}(solution_maze)"}
    ok = len(ri) == 1 and len(ep) == 1 and both(ri[0], "_remove_isolated_cells") and both(ep[0], "_extend_pixels") and body.index(ri[0]) < body.index(ep[0])
    ctx.judge(f, ok, {"remove_isolated": [X.U(s) for s in ri[0].body] if ri else None, "extend": [X.U(s) for s in ep[0].body] if ep else None},
              "each optional post-processing step is applied to both images, isolated-cell removal first (on the un-stretched image)",
              "one image is post-processed and the other is not (shapes/contents disagree)")
    for p, want in (("remove_isolated_cells", True), ("extend_pixels", True), ("endpoints_as_open", False)):
        d = f.param_default(p)
        ctx.judge(f, isinstance(d, ast.Constant) and d.value is want, {"param": p, "default": X.U(d)}, "documented defaults of the three options")
    g = ctx.index.func(f"{RZ}.RasterizedMazeDataset.__getitem__")
    call = [c for c in X.calls(g.node) if dotted_of(c.func) == "process_maze_rasterized_input_target"]
    ok = len(call) == 1 and all(X.U(N.kwarg(call[0], k)) == f"self.cfg.{k}" for k in ("remove_isolated_cells", "extend_pixels", "endpoints_as_open"))
    mz = N.kwarg(call[0], "maze") if call else None
    md = X.assignments_to(g.node, X.U(mz)) if mz is not None and isinstance(mz, ast.Name) else []
    ok = ok and len(md) == 1 and X.U(md[0]) == f"self.mazes[{g.params()[1]}]"
    ctx.judge(g, ok, {"call": X.U(call[0])[:200] if call else None}, "item i rasterizes self.mazes[i] with the three options taken from the config, each by its own name",
              "an option is crossed with another one / another maze is rendered")
    b = ctx.index.func(f"{RZ}.RasterizedMazeDataset.get_batch")
    # abstract evaluation: the dataset has 3 symbolic items (in_i, tg_i); torch.stack is a symbolic constructor
    from sa.absobj import AbstractClass
    from sa.fold import EvalRaised, Obj, Unknown

    ac = AbstractClass(ctx.index, f"{RZ}.RasterizedMazeDataset",
                       extra_calls={"torch.stack": lambda xs, *a, **k: ("stack", list(xs))},
                       len_of=lambda o: 3, getitem_of=lambda o, k: (f"in{k}", f"tg{k}") if o.cls == "self" else (_ for _ in ()).throw(Unknown("subscript")))
    ac._len = ac._make_len()
    cases = [([2, 0], [2, 0]), ([1], [1]), (None, [0, 1, 2]), ([0, 0, 2], [0, 0, 2])]
    bad, unk = [], []
    for idxs, order in cases:
        want = ("stack", [("stack", [f"in{k}" for k in order]), ("stack", [f"tg{k}" for k in order])])
        so = Obj("self", {"mazes": ["m0", "m1", "m2"]})
        try:
            got = ac.call(so, "get_batch", [idxs])
        except EvalRaised as e:
            got = f"raises {e.exc_name}"
        except Unknown as e:
            unk.append(str(e)[:120])
            continue
        if got != want:
            bad.append({"idxs": idxs, "found": repr(got)[:160], "expected": repr(want)[:160]})
    ctx.judge(b, False if bad else None if unk else True, {"cases": len(cases), "deviations": bad[:2], "undecided": unk[:2]},
              "a batch stacks the items of the requested indices in index order: [stack(inputs), stack(targets)]; None means all indices in order",
              "inputs and targets are swapped or items reordered in the batch")


RULES = [
    Rule("C17.Z1", rule_Z1, floor=5, doc="colour maps"),
    Rule("C17.Z2", rule_Z2, floor=3, doc="no aliasing"),
    Rule("C17.Z3", rule_Z3, floor=3, doc="isolated-cell neighbourhood"),
    Rule("C17.Z4", rule_Z4, floor=1, doc="pixel extension"),
    Rule("C17.Z5", rule_Z5, floor=6, doc="post-processing, item and batch plumbing"),
]

from sa import dims as _dims  # noqa: E402

RULES.append(Rule("C17.AX", _dims.make_rule("C17", "C17.AX"), floor=1,
                  doc="axis-extent agreement: coordinate components are bounded by the extent of their own axis (E13)"))

from sa import exits as _exits  # noqa: E402

RULES.append(Rule("C17.RX", _exits.make_rule("C17", "C17.RX", _exits.SCOPES["C17"]), floor=1,
                  doc="rejection conditions: the anchored functions refuse inputs only under the conditions confirmed on the pinned tree (E16)"))
