"""C11 -- the on-disk dataset cache never serves wrong data

Clauses on GPTDataset.from_config: K1 read failures fall through; K2 config check on every path,
mismatch raises under the default flags (one tabulated exemption); K3 regenerate when nothing was
loaded, save iff not loaded from disk; K4 identity fields (exactly n_mazes is not compared);
K5 file name read == file name written, derived from the request; K6 what is written is what
was checked (no identity-field mutation between the check and the bytes written).
"""

from __future__ import annotations

import ast

from sa import astx as X
from sa import normal as N
from sa.callgraph import CallGraph
from sa.cfg import build_cfg
from sa.dcmodel import DataclassModel
from sa.fold import Evaluator, Unknown
from sa.index import AnalysisError, dotted_of
from sa.report import Ctx, Rule
from sa.rules.c05 import cfg_identity_mutations, identity_fields

DS = "maze_dataset.dataset.dataset"
MD = "maze_dataset.dataset.maze_dataset"
FC = f"{DS}.GPTDataset.from_config"

EXPLANATION = (
    "CFG of GPTDataset.from_config (statement level, exceptional edges for the try around the cache read): "
    "handler breadth, dominance of the config-diff node over every normal exit, default-flag walk from a non-empty "
    "diff to `raise`, the save guard, the path expression shared by read and save, the compare=False field table, "
    "and an effect scan of the save closure."
)
ASSUMPTIONS = [
    "zanj.read raises an Exception subclass on a missing, empty, truncated or corrupted archive (zipfile CRC / JSON "
    "parsing are dependency and runtime facts - fault enumeration is another technique family)",
    "SerializableDataclass.diff reports every differing compared field (read from the muutils source: it skips exactly compare=False fields)",
]
TRUSTED = ["ast", "muutils 0.6.21 source (read)"]

EXEMPTION_VALUE = {"applied_filters": {"self": [], "other": [{"name": "collect_generation_meta", "args": (), "kwargs": {}}]}}


def _fc(ctx: Ctx):
    f = ctx.index.func(FC)
    return f, build_cfg(f.node), X.parents_map(f.node)


def rule_K1(ctx: Ctx) -> None:
    f, g, par = _fc(ctx)
    reads = [c for c in X.calls(f.node) if isinstance(c.func, ast.Attribute) and c.func.attr == "read" and X.U(c.func.value) in ("cls", "self")]
    exp = "the cache read sits in a try whose handler catches Exception (or broader) and does not re-raise"
    if len(reads) != 1:
        ctx.unknown(f, {"read_calls": len(reads)}, exp)
        return
    rd = reads[0]
    n: ast.AST = rd
    tr = None
    while n in par:
        n = par[n]
        if isinstance(n, ast.Try):
            # the read must be in the try *body*
            if any(rd in list(ast.walk(s)) for s in n.body):
                tr = n
                break
    if tr is None:
        ctx.violation(f, {"read": X.U(rd), "enclosing_try": None}, exp,
                      "a damaged cache file makes from_config raise instead of regenerating", node=rd)
        return
    broad, narrow, reraises = [], [], []
    for h in tr.handlers:
        ty = "BaseException" if h.type is None else X.U(h.type)
        names = [X.U(e) for e in h.type.elts] if isinstance(h.type, ast.Tuple) else [ty]
        (broad if any(t in ("Exception", "BaseException") for t in names) else narrow).append(ty)
        if any(isinstance(s, ast.Raise) for s in ast.walk(ast.Module(body=h.body, type_ignores=[]))):
            reraises.append(ty)
    slot = {"read": X.U(rd), "handlers": [*broad, *narrow], "broad": broad, "re_raising": reraises}
    ctx.judge(f, bool(broad) and not reraises, slot, exp,
              "only some read errors fall through to regeneration (zanj/zipfile/json raise BadZipFile, KeyError, JSONDecodeError, EOFError, ...)", node=tr)
    # did_load_local = True only after the read, inside the try body
    sets = [n for n in ast.walk(f.node) if isinstance(n, ast.Assign) and X.U(n.targets[0]) == "did_load_local"
            and isinstance(n.value, ast.Constant) and n.value.value is True]
    ok = bool(sets)
    for s in sets:
        idx_read = next((i for i, st in enumerate(tr.body) if rd in list(ast.walk(st))), None)
        idx_set = next((i for i, st in enumerate(tr.body) if s is st), None)
        if idx_read is None or idx_set is None or idx_set <= idx_read:
            ok = False
    # no `did_load_local = True` statement at all: the flag is produced in a form this rule does not read (a helper's result); K7 decides it
    ctx.judge(f, ok if sets else None, {"did_load_local_true_sites": len(sets)},
              "did_load_local = True only in the try body after the successful read",
              "a failed read would be recorded as loaded: the regenerated dataset is never saved (or a broken file kept)")
    # handler falls through to the generate branch: output stays None
    bad = [n for h in tr.handlers for n in ast.walk(ast.Module(body=h.body, type_ignores=[]))
           if isinstance(n, ast.Assign) and X.U(n.targets[0]) in ("output", "did_load_local")]
    ctx.judge(f, not bad, {"handler_assignments": [X.U(b) for b in bad]}, "the handler leaves output = None so that generation follows")


def _diff_nodes(g, f):
    def is_diff(n):
        return isinstance(n, ast.Call) and isinstance(n.func, ast.Attribute) and n.func.attr == "diff"
    return g.nodes_containing(is_diff)


def rule_K2(ctx: Ctx) -> None:
    f, g, par = _fc(ctx)
    cfgp = f.params()[1]
    dn = _diff_nodes(g, f)
    exp = "every path to `return output` passes the cfg.diff(output.cfg) node"
    if not dn:
        ctx.violation(f, {"diff_nodes": 0}, exp, "the loaded/generated dataset's config is never compared with the request")
        return
    call = next(c for c in ast.walk(dn[0].ast) if isinstance(c, ast.Call) and isinstance(c.func, ast.Attribute) and c.func.attr == "diff")
    operands = {X.U(call.func.value), X.U(call.args[0]) if call.args else None}
    ok_ops = operands == {cfgp, "output.cfg"}
    passes = g.every_path_to_exit_passes(set(dn), normal_only=True)
    ctx.judge(f, passes and ok_ops, {"diff_call": X.U(call), "operands": sorted(str(o) for o in operands), "on_every_normal_path": passes}, exp,
              "a path returns a dataset whose stored configuration was never checked against the request", node=dn[0].ast)
    # what happens to a non-empty diff under the default flags
    tgt = dn[0].ast.targets[0].id if isinstance(dn[0].ast, ast.Assign) and isinstance(dn[0].ast.targets[0], ast.Name) else \
        (dn[0].ast.target.id if isinstance(dn[0].ast, ast.AnnAssign) else None)
    exp2 = ("with the default flags a non-empty diff reaches `raise ValueError` on every path except the one tabulated "
            "exemption (request filters == [] and stored filters == [collect_generation_meta])")
    if tgt is None:
        ctx.unknown(f, {"diff_var": tgt}, exp2)
        return

    class NonEmptyDiff:
        "abstract value: some non-empty diff dict (truthy; its content is unknown)"
        def __bool__(self):
            return True
        def __eq__(self, other):
            raise Unknown("content of the diff is unknown")
        __hash__ = None

    defaults = {tgt: NonEmptyDiff()}
    for p in f.params():
        try:
            d = f.param_default(p)
        except AnalysisError:
            d = None
        if isinstance(d, ast.Constant) and isinstance(d.value, bool):
            defaults[p] = d.value
    ev = Evaluator()
    exemptions = []
    reached_exit = []
    seen = set()
    stack = [s for s, _ in dn[0].succ]
    while stack:
        n = stack.pop()
        if n.id in seen:
            continue
        seen.add(n.id)
        if n is g.exit:
            reached_exit.append("exit")
            continue
        if n is g.raise_exit:
            continue
        succ = n.succ
        if n.kind == "test":
            try:
                v = ev.ev(n.ast, dict(defaults))
                succ = [(s, lab) for s, lab in n.succ if lab is bool(v)]
            except Unknown:
                has_cmp = any(isinstance(c, ast.Compare) and tgt in N.names_in(c) for c in ast.walk(n.ast))
                if has_cmp:
                    # candidate exemption: the branch on which the (un-negated) test holds is exempt, the other one must raise
                    neg = isinstance(n.ast, ast.UnaryOp) and isinstance(n.ast.op, ast.Not)
                    exemptions.append(n.ast.operand if neg else n.ast)
                    succ = [(s, lab) for s, lab in n.succ if lab is neg]
                # any other undecidable test: both branches
        for s, _ in succ:
            stack.append(s)
    flag_defaults = {k: v for k, v in defaults.items() if k != tgt}
    slot = {"default_flags": flag_defaults, "exemption_tests": [X.U(e)[:160] for e in exemptions],
            "non_exempt_paths_reaching_return": len(reached_exit)}
    if reached_exit:
        ctx.violation(f, slot, exp2, "a config mismatch does not raise under the default flags: a cache file of another configuration is served", node=dn[0].ast)
        return
    ok_ex, why = True, ""
    for e in exemptions:
        conj = e.values if isinstance(e, ast.BoolOp) and isinstance(e.op, ast.And) else [e]
        for c in conj:
            if isinstance(c, ast.Name):
                continue
            good = False
            if isinstance(c, ast.Compare) and len(c.ops) == 1 and isinstance(c.ops[0], ast.Eq) and X.U(c.left) == tgt:
                try:
                    good = Evaluator().ev(ctx.index.inline_module_constants(f.module.name, c.comparators[0], f.params()), {}) == EXEMPTION_VALUE
                except Unknown:
                    good = False
            if not good:
                ok_ex = False
                why = f"the exemption `{X.U(c)[:80]}` is wider than / different from the tabulated one"
    slot["exemption_matches_table"] = ok_ex
    ctx.judge(f, ok_ex, slot, exp2, why, node=dn[0].ast)


def rule_K3(ctx: Ctx) -> None:
    f, g, par = _fc(ctx)
    gens = [c for c in X.calls(f.node) if isinstance(c.func, ast.Attribute) and c.func.attr == "generate"]
    exp = "generate(cfg) runs exactly when nothing was loaded (`do_generate and output is None`) and its result goes through _apply_filters_from_config"
    if len(gens) != 1:
        ctx.unknown(f, {"generate_calls": len(gens)}, exp)
    else:
        n: ast.AST = gens[0]
        guard = None
        while n in par:
            n = par[n]
            if isinstance(n, ast.If):
                guard = n
                break
        ok, slot = (None, {})
        if guard is not None:
            ok, slot = X.same_relation(guard.test, "do_generate and output is None")
        arg_ok = gens[0].args and X.U(gens[0].args[0]) == f.params()[1]
        applies = guard is not None and any("_apply_filters_from_config" in X.U(s) for s in guard.body)
        slot.update({"generate": X.U(gens[0])[:80], "applies_filters_after": applies})
        ctx.judge(f, (ok and arg_ok and applies) if ok is not None else None, slot, exp,
                  "a damaged/missing cache does not lead to regeneration for the requested config", node=gens[0])
    saves = [c for c in X.calls(f.node) if isinstance(c.func, ast.Attribute) and c.func.attr == "save" and X.U(c.func.value) == "output"]
    exp = "output.save(path) runs iff `save_local and not did_load_local`, after the config check"
    if len(saves) != 1:
        ctx.judge(f, False if not saves else None, {"save_calls": len(saves)}, exp, "a regenerated dataset is never written: the broken file stays behind")
    else:
        n = saves[0]
        guard = None
        while n in par:
            n = par[n]
            if isinstance(n, ast.If):
                guard = n
                break
        ok, slot = (None, {})
        if guard is not None:
            ok, slot = X.same_relation(guard.test, "save_local and not did_load_local")
        dn = _diff_nodes(g, f)
        sn = g.nodes_containing(lambda x: x is saves[0])
        after = bool(dn) and bool(sn) and g.dominates(dn[0], sn[0])
        slot["after_config_check"] = after
        ctx.judge(f, (ok and after) if ok is not None else None, slot, exp,
                  "the file left behind is not the checked dataset / is not rewritten after regeneration", node=saves[0])


def rule_K4(ctx: Ctx) -> None:
    model = DataclassModel(ctx.index, ctx.deps)
    if not ctx.deps.sdc_diff_skips_noncompared():
        raise AnalysisError("SerializableDataclass.diff no longer skips exactly the compare=False fields")
    for q in (f"{MD}.MazeDatasetConfig", "maze_dataset.dataset.rasterized.RasterizedMazeDatasetConfig"):
        c = ctx.index.cls(q)
        allf = ctx.index.all_fields(c)
        cmp_ = {f.name for f in model.compared_fields(c)}
        not_cmp = sorted(set(allf) - cmp_)
        ctx.judge(c, not_cmp == ["n_mazes"], {"fields": list(allf), "compare_false": not_cmp},
                  "exactly n_mazes is excluded from config comparison (filters legitimately change it); every other field identifies the dataset",
                  "a field that identifies the dataset is ignored by the cache check: a cache file of a different configuration is accepted")
        # `diff` starts with `if self == other: return {}`: equality of configurations must be the field-wise one of the dataclass machinery
        eq = model.effective(c, "__eq__")
        ctx.judge(c, eq.kind != "explicit", {"effective___eq__": eq.to_json()},
                  "configuration classes define no __eq__ of their own: the cache check's `diff` short-cuts on ==, which must be field-wise equality",
                  "two different configurations that an explicit __eq__ calls equal (same file name, same hash digits ...) pass the cache check: the file of one is served for the other")


def rule_K5(ctx: Ctx) -> None:
    f, g, par = _fc(ctx)
    cfgp = f.params()[1]
    reads = [c for c in X.calls(f.node) if isinstance(c.func, ast.Attribute) and c.func.attr == "read" and X.U(c.func.value) == "cls"]
    saves = [c for c in X.calls(f.node) if isinstance(c.func, ast.Attribute) and c.func.attr == "save" and X.U(c.func.value) == "output"]
    exists = [c for c in X.calls(f.node) if isinstance(c.func, ast.Attribute) and c.func.attr == "exists"]
    exp = "the path tested, read and written is one expression built from local_base_path and cfg.to_fname()"
    if len(reads) != 1 or len(saves) != 1:
        ctx.unknown(f, {"reads": len(reads), "saves": len(saves)}, exp)
        return
    pr, pw = X.U(reads[0].args[0]), X.U(saves[0].args[0])
    pe = X.U(exists[0].func.value) if exists else None

    def expand(name: str, depth=0) -> str:
        d = X.assignments_to(f.node, name)
        if len(d) != 1 or depth > 4:
            return name
        txt = X.U(d[0])
        for nm in N.names_in(d[0]):
            if nm != name and X.assignments_to(f.node, nm) and nm not in f.params():
                txt = txt.replace(nm, "(" + expand(nm, depth + 1) + ")")
        return txt
    full = expand(pr) if pr.isidentifier() else pr
    ok = pr == pw and (pe is None or pe == pr) and f"{cfgp}.to_fname()" in full and "local_base_path" in full
    ctx.judge(f, ok, {"read": pr, "written": pw, "exists_tested": pe, "definition": full}, exp,
              "the cache is read from one name and written to another / not derived from the requested config")
    # to_fname components (C18.H3 covers the details): hash of the serialized config is part of the name
    tf = ctx.index.func(f"{MD}.MazeDatasetConfig.to_fname")
    ctx.judge(tf, "stable_hash_cfg" in X.U(tf.node), {"to_fname": X.U(X.returns_of(tf.node)[0].value)[:200]},
              "the file name contains the stable hash of the serialized configuration")


def rule_K6(ctx: Ctx) -> None:
    ident = identity_fields(ctx)
    cg = CallGraph(ctx.index)
    f, g, par = _fc(ctx)
    closure = cg.closure([f"{DS}.GPTDataset.save"])
    found = []
    for q, path in closure.items():
        fn = ctx.index.functions[q]
        for m in cfg_identity_mutations(fn.node, ident):
            found.append({"in": q, "stmt": X.U(m)[:100], "call_path": path})
    ctx.judge(ctx.index.func(f"{DS}.GPTDataset.save"), not found,
              {"reachable_functions": len(closure), "mutations": found[:4]},
              "between the config check and the bytes written by output.save(...) no identity field of output.cfg changes",
              "the file written carries a different configuration than the one checked: the next identical request is rejected "
              "(or a different one accepted)")
    # inside from_config itself, after the check
    dn = _diff_nodes(g, f)
    muts = cfg_identity_mutations(f.node, ident)
    late = []
    for m in muts:
        mn = g.nodes_containing(lambda x: x is m)
        if dn and mn and g.can_reach(dn[0], mn[0]):
            late.append(X.U(m)[:80])
    ctx.judge(f, not late, {"identity_mutations_after_check": late}, "from_config does not touch identity fields after the check")


class _AbsPath:
    "a symbolic file-system path of the abstract run"

    def __init__(self, t: str) -> None:
        self.t = t

    def __truediv__(self, o):
        return _AbsPath(f"{self.t}/{getattr(o, 't', o)}")

    def __eq__(self, o):
        return isinstance(o, _AbsPath) and o.t == self.t

    def __hash__(self):
        return hash(self.t)

    def __repr__(self):
        return f"Path({self.t})"

    def __str__(self):
        return self.t


_META_ONLY = {"applied_filters": {"self": [], "other": [{"name": "collect_generation_meta", "args": (), "kwargs": {}}]}}
_META_PLUS = {"applied_filters": {"self": [], "other": [{"name": "cut_percentile_shortest", "args": (10.0,), "kwargs": {}}, {"name": "collect_generation_meta", "args": (), "kwargs": {}}]}}
_READ_FAILURES = ("OSError", "EOFError", "KeyError", "ValueError", "RuntimeError", "NotImplementedError", "zipfile.BadZipFile", "zlib.error", "UnicodeDecodeError",
                  "json.JSONDecodeError", "AssertionError", "TypeError", "IndexError", "AttributeError")


def _from_config_run(index, f, world: dict, flags: dict):
    "interpret from_config in one abstract world (state of the cache file) under the given flags: (outcome, events)"
    from sa.fold import EvalRaised, Obj

    events: list = []
    file_ds = Obj("dataset", {"cfg": Obj("cfg", {"name": world.get("file_cfg", "req")}), "origin": "file", "__len__": 7})

    def hook(ev, node, env):
        d = dotted_of(node.func) or ""
        if d == "Path":
            a = ev.ev(node.args[0], env)
            return a if isinstance(a, _AbsPath) else _AbsPath(str(a))
        if d == "ZANJ":
            return "<zanj>"
        if d.endswith(".to_fname"):
            return "FNAME"
        if d.endswith(".exists"):
            p_ = ev.ev(node.func.value, env)
            events.append(("exists", str(p_)))
            return world["file"] != "absent"
        if d.endswith((".as_posix", ".resolve", ".absolute")):
            return ev.ev(node.func.value, env)
        if d.endswith(".read") and d.split(".")[0] in ("cls", "GPTDataset", "MazeDataset"):
            events.append(("read", str(ev.ev(node.args[0], env))))
            if world["file"] == "absent":
                raise EvalRaised("FileNotFoundError", "no such file")
            if world["file"] == "unreadable":
                raise EvalRaised(world["exc"], "damaged file")
            return file_ds
        if d.endswith(".download"):
            events.append(("download",))
            raise EvalRaised("NotImplementedError", "no download")
        if d.endswith(".generate"):
            events.append(("generate",))
            return Obj("dataset", {"cfg": Obj("cfg", {"name": "req"}), "origin": "generated", "__len__": world.get("generated_len", 7)})
        if d.endswith("._apply_filters_from_config"):
            o = ev.ev(node.func.value, env)
            events.append(("filters",))
            return Obj("dataset", {"cfg": o.attrs["cfg"], "origin": o.attrs["origin"] + "+filters", "__len__": o.attrs.get("__len__", 7)})
        if d.endswith(".diff"):
            other = ev.ev(node.args[0], env)
            me = ev.ev(node.func.value, env)
            if isinstance(other, Obj) and isinstance(me, Obj) and "name" in other.attrs and "name" in me.attrs:
                return {} if other.attrs["name"] == me.attrs["name"] else world["diff"]
        if d.endswith(".save"):
            o = ev.ev(node.func.value, env)
            events.append(("save", str(ev.ev(node.args[0], env)), o.attrs.get("origin") if isinstance(o, Obj) else repr(o)))
            return None
        if d == "warnings.warn":
            events.append(("warn",))
            return None
        if d == "len":
            return 7
        if d == "print":
            return None
        return NotImplemented
    env = {"cls": Obj("cls", {}), f.params()[1]: Obj("cfg", {"name": "req"}), "kwargs": {}, "zanj": None, "local_base_path": _AbsPath("<base>"), "verbose": False,
           "do_generate": True, "load_local": True, "save_local": True, "do_download": True, "except_on_config_mismatch": True,
           "allow_generation_metadata_filter_mismatch": True}
    env.update(flags)
    from sa.absobj import make_name_hook

    name_hook = make_name_hook(index, f.module, lambda: {"__call__": hook})
    try:
        out = Evaluator({"__call__": hook, "__name__": name_hook}).run_body(X.body_wo_doc(f.node), env)
        return ("return", out.attrs.get("origin") if isinstance(out, Obj) else repr(out)[:40]), events
    except EvalRaised as e:
        return ("raise", e.exc_name), events


def rule_K7(ctx: Ctx) -> None:
    """bounded semantic check (E15) of the cache protocol: from_config is interpreted in abstract worlds - cache file absent / readable and
    matching / readable with another configuration / readable with only the tolerated metadata-filter difference / that difference plus another
    filter / unreadable with each of 14 exception classes - and its outcome and its file events are compared with the statement"""
    f = ctx.index.func(f"{DS}.GPTDataset.from_config")
    worlds = [({"file": "absent"}, {}, "fresh"), ({"file": "readable"}, {}, "file"),
              ({"file": "readable", "file_cfg": "other", "diff": {"seed": {"self": 1, "other": 2}}}, {}, "mismatch"),
              ({"file": "readable", "file_cfg": "other", "diff": _META_ONLY}, {}, "file"),
              ({"file": "readable", "file_cfg": "other", "diff": _META_ONLY}, {"allow_generation_metadata_filter_mismatch": False}, "mismatch"),
              ({"file": "readable", "file_cfg": "other", "diff": _META_PLUS}, {}, "mismatch")]
    worlds += [({"file": "unreadable", "exc": e_}, {}, "fresh") for e_ in _READ_FAILURES]
    # the configured filters may legitimately leave no maze at all: an empty dataset (falsy: it has __len__) is still the dataset asked for
    worlds += [({"file": "absent", "generated_len": 0}, {}, "fresh"), ({"file": "absent", "generated_len": 0}, {"save_local": False, "load_local": False}, "fresh-nosave")]
    bad, unk = [], []
    for world, flags, want in worlds:
        try:
            out, ev_ = _from_config_run(ctx.index, f, world, flags)
        except Unknown as e:
            unk.append(f"{world}: {e}"[:160])
            continue
        kinds = [e_[0] for e_ in ev_]
        paths = {e_[1] for e_ in ev_ if e_[0] in ("exists", "read", "save")}
        why = []
        if want == "fresh-nosave":
            if out != ("return", "generated+filters"):
                why.append(f"outcome {out}, expected the freshly generated (here: empty) dataset")
        elif want == "fresh":
            if out != ("return", "generated+filters"):
                why.append(f"outcome {out}, expected the freshly generated dataset with the configured filters applied")
            if "save" not in kinds:
                why.append("no file is written: the missing / damaged cache file is not replaced by a loadable one")
            elif [e_ for e_ in ev_ if e_[0] == "save"][-1][2] != "generated+filters":
                why.append("what is saved is not the dataset that is returned")
            if kinds.count("generate") != 1 or ("filters" in kinds and kinds.index("filters") < kinds.index("generate")):
                why.append("generation / filters not run exactly once in order")
        elif want == "file":
            if out != ("return", "file"):
                why.append(f"outcome {out}, expected the cached dataset")
            if "generate" in kinds or "save" in kinds:
                why.append("a matching cache file is regenerated / overwritten")
        elif want == "mismatch":
            if out != ("raise", "ValueError"):
                why.append(f"outcome {out}, expected ValueError (config mismatch)")
            if "save" in kinds:
                why.append("the foreign file is overwritten before the mismatch is reported")
        if len(paths) > 1 or (paths and "FNAME" not in next(iter(paths))):
            why.append(f"the path tested / read / written is not one path derived from cfg.to_fname(): {sorted(paths)}")
        if why:
            bad.append({"cache_file": world, "flags": flags, "why": why, "events": kinds})
    ctx.judge(f, False if bad else None if unk else True, {"abstract_worlds": len(worlds), "deviations": bad[:3], "undecided": unk[:2]},
              "missing or unreadable cache file (any exception class): regenerate, apply the filters, save under the requested name, return that dataset; matching file: "
              "return it untouched; file of another configuration: ValueError, except for the single tolerated metadata-filter difference (when allowed)",
              "the cache serves other data, keeps a damaged file, or fails on a damaged file instead of regenerating")
    if not bad and not unk:
        ctx.cover([f.qualname], by="C11.K7", supersedes=["C11.K1", "C11.K2", "C11.K3", "C11.K5"], whole_rules=["C11.K1", "C11.K2", "C11.K3", "C11.K5"],
                  bound=f"{len(worlds)} abstract worlds of the cache file x flags")


RULES = [
    Rule("C11.K8", lambda ctx: __import__("sa.rules.c04", fromlist=["x"]).rule_E2(ctx), floor=2,
         doc="'returns the same mazes a fresh generation gives' rests on the re-seeding reload before every generation (C04.E2 re-judged)"),
    Rule("C11.K7", rule_K7, floor=1, doc="bounded semantic check of the cache protocol: from_config interpreted in abstract worlds of the cache file"),
    Rule("C11.K1", rule_K1, floor=3, doc="read failures fall through"),
    Rule("C11.K2", rule_K2, floor=2, doc="config check on every path; mismatch raises by default"),
    Rule("C11.K3", rule_K3, floor=2, doc="regenerate and overwrite"),
    Rule("C11.K4", rule_K4, floor=4, doc="identity fields"),
    Rule("C11.K5", rule_K5, floor=2, doc="file name from the request"),
    Rule("C11.K6", rule_K6, floor=2, doc="what is written is what was checked"),
    Rule("C11.E12", lambda ctx: __import__("sa.mypyx", fromlist=["x"]).cross_check(ctx, [f"{DS}.GPTDataset.save"], "C11.E12"), floor=1,
         doc="thorough: call graph over-approximates mypy's type-resolved edges on the save closure", tier="thorough"),
]

from sa import exits as _exits  # noqa: E402

RULES.append(Rule("C11.RX", _exits.make_rule("C11", "C11.RX", _exits.SCOPES["C11"]), floor=1,
                  doc="rejection conditions: the anchored functions refuse inputs only under the conditions confirmed on the pinned tree (E16)"))

from sa import exits as _exits_ms  # noqa: E402

RULES.append(Rule("C11.MS", _exits_ms.make_state_rule("C11", "C11.MS", _exits_ms.SCOPES.get("C11", [])), floor=1,
                  doc="no hidden module-level state on the anchored path: results do not depend on the history of the process (E17)"))

from sa import exits as _exits_nw  # noqa: E402

RULES.append(Rule("C11.NW", _exits_nw.make_narrowing_rule("C11", "C11.NW", _exits_nw.SCOPES.get("C11", [])), floor=1,
                  doc="no new narrowing cast (8/16-bit element types) on the anchored path: coordinates, lengths and indices do not wrap (E18)"))
