"""C15 -- tokenizer configuration space is enumerated exactly and identified uniquely

Clauses: N1 size of the space in closed form from the class declarations (5 878 656); N2 soundness
premises of the enumeration; N3 the two encodings of the step-tokenizer rule agree on all 340
tuples; N4 name-injectivity premises; N5 process-stable hashes; N6 load resolves the right
namespace; N7 legacy mapping covers exactly the legacy modes.
"""

from __future__ import annotations

import ast
import itertools

from sa import astx as X
from sa import normal as N
from sa.dcmodel import DataclassModel
from sa.fold import Closure, Obj, Unknown
from sa.index import AnalysisError, dotted_of
from sa.report import Ctx, Rule
from sa.tokspace import ELEMENT, MT, TokenizerSpace

AT = "maze_dataset.tokenization.all_tokenizers"
EXPECTED_SIZE = 5_878_656  # stated in the property: 9*216*2*1008 + 9*216*1008

EXPLANATION = (
    "A model of utils.all_instances evaluated over the *declarations* of the _TokenizerElement hierarchy (field annotations, "
    "abstractness per abc rules, mark_as_unsupported lambdas and is_valid bodies interpreted over the finite field domains) gives "
    "the size of the space and a per-class table; both encodings of the step-tokenizer permutation rule are evaluated on all 340 "
    "tuples of step-tokenizer instances; naming, hashing and loading code is checked structurally."
)
ASSUMPTIONS = [
    "utils.all_instances implements the documented semantics (bool, Literal, dataclass product, abstract union over direct subclasses, tuple, union, validation_funcs by MRO); its own structure is checked in N2",
    "blake2b collisions between distinct names are not considered",
]
TRUSTED = ["ast", "CPython abc / dataclasses semantics (update_abstractmethods, _hash_action)"]


def _space(ctx: Ctx) -> TokenizerSpace:
    sp = TokenizerSpace(ctx.index)
    at = ctx.index.module(AT)
    v = at.assigns.get("MAZE_TOKENIZER_MODULAR_DEFAULT_VALIDATION_FUNCS")
    if not (isinstance(v, ast.Call) and v.args and isinstance(v.args[0], ast.Dict)):
        raise AnalysisError("MAZE_TOKENIZER_MODULAR_DEFAULT_VALIDATION_FUNCS is not frozendict({...})")
    keys = {}
    for k, val in zip(v.args[0].keys, v.args[0].values):
        keys[X.U(k)] = val
    sp.validation_keys = keys
    for k, val in keys.items():
        if k.endswith("StepTokenizerPermutation"):
            sp.permutation_validator = val
    return sp


def rule_N1(ctx: Ctx) -> None:
    sp = _space(ctx)
    top = ctx.index.cls(f"{MT}.MazeTokenizerModular")
    n = sp.size(top)
    where = (top.relpath, top.qualname, top.node.lineno)
    ctx.judge(where, n == EXPECTED_SIZE, {"size": n, "expected": EXPECTED_SIZE, "per_class": dict(sorted(sp.table.items()))},
              "the space of valid tokenizers has exactly 5 878 656 members (9 coordinate x 216 adjacency-list x (2 target x 1008 path + 1008 path))",
              "a declaration or validity rule changed the size of the enumerated space: a family was added, lost or let through")
    want = {"CoordTokenizers._CoordTokenizer": 9, "AdjListTokenizers._AdjListTokenizer": 216, "TargetTokenizers._TargetTokenizer": 2,
            "PathTokenizers._PathTokenizer": 1008, "EdgeGroupings._EdgeGrouping": 3, "EdgePermuters._EdgePermuter": 3, "EdgeSubsets._EdgeSubset": 3,
            "StepSizes._StepSize": 2, "StepTokenizers._StepTokenizer": 4}
    for k, w in want.items():
        c = ctx.index.cls(f"{MT}.{k}")
        got = sp.size(c)
        ctx.judge(c, got == w, {"class": k, "valid_instances": got, "expected": w}, "per-element sizes predicted from the parameter space",
                  "this element family contributes another number of configurations than the product predicted from its parameters")
    ctx.stat("tokenizer_space_size", n)


def _abstract_run(fn, env: dict, call_hook=None, getattr_hook=None):
    "evaluate a function body over abstract values; returns (\"value\", v) | (\"raises\", name) | (\"unknown\", why)"
    from sa.fold import EvalRaised, Evaluator, Unknown

    hooks = {}
    if call_hook is not None:
        hooks["__call__"] = call_hook
    if getattr_hook is not None:
        hooks["__getattr__"] = getattr_hook
    try:
        return ("value", Evaluator(hooks).run_body(X.body_wo_doc(fn.node), dict(env)))
    except EvalRaised as e:
        return ("raises", e.exc_name)
    except Unknown as e:
        return ("unknown", str(e)[:160])


def _judge_apply_validation(ctx: Ctx, av) -> None:
    """abstract evaluation of _apply_validation_func over symbolic types T < S < O (an MRO chain), a union type U without MRO, and
    every relevant subset of keys in the validation map: exact match first, otherwise the *first* MRO class with a function, once"""
    from sa.fold import Obj, Unknown

    T, S, O, U = (Obj(f"type:{n}") for n in "TSOU")
    mro = {"type:T": (T, S, O), "type:S": (S, O), "type:O": (O,)}
    p_type, p_vals, p_funcs = av.params()[:3]

    def call_hook(ev, node, env):
        d = dotted_of(node.func) or ""
        if d == "hasattr" and len(node.args) == 2:
            o = ev.ev(node.args[0], env)
            a = ev.ev(node.args[1], env)
            return isinstance(o, Obj) and a == "__mro__" and o.cls in mro
        if d == "filter" and len(node.args) == 2:
            return ("filtered", ev.ev(node.args[0], env), ev.ev(node.args[1], env))
        if d == "get_origin":
            return None
        return NotImplemented

    def getattr_hook(o, attr):
        if attr == "__mro__" and o.cls in mro:
            return mro[o.cls]
        raise Unknown(f"attribute {attr}")

    cases = [
        ("no validation map", T, None, "VALS"),
        ("exact match wins over a base", T, {T: "fT", S: "fS"}, ("filtered", "fT", "VALS")),
        ("nearest base in the MRO", T, {S: "fS"}, ("filtered", "fS", "VALS")),
        ("only the first hit is applied", T, {S: "fS", O: "fO"}, ("filtered", "fS", "VALS")),
        ("farthest base", T, {O: "fO"}, ("filtered", "fO", "VALS")),
        ("no class of the MRO has a function", S, {T: "fT"}, "VALS"),
        ("union type found by exact match", U, {U: "fU", O: "fO"}, ("filtered", "fU", "VALS")),
        ("union type without a function", U, {O: "fO"}, "VALS"),
    ]
    bad, unk = [], []
    for label, ty, funcs, want in cases:
        res = _abstract_run(av, {p_type: ty, p_vals: "VALS", p_funcs: funcs, "Literal": "<Literal>"}, call_hook, getattr_hook)
        if res[0] == "unknown":
            unk.append({"case": label, "why": res[1]})
        elif res != ("value", want):
            bad.append({"case": label, "found": repr(res[1])[:120], "expected": repr(want)})
    ctx.judge(av, False if bad else None if unk else True, {"cases": len(cases), "deviations": bad[:3], "undecided": unk[:2]},
              "validation: exact type match first, otherwise the first class in the MRO that has a validation function, applied once; no function -> values unchanged",
              "instances are filtered by the wrong rule (a base's rule shadows the class's own, several rules are stacked, or none is applied): the enumeration gains or loses configurations")


def rule_N2(ctx: Ctx) -> None:
    sp = _space(ctx)
    concrete_with_subs = []
    for c in sp.element_classes():
        if not sp.is_abstract(c) and sp.direct_subclasses(c):
            concrete_with_subs.append(c.qualname)
    top = ctx.index.cls(ELEMENT)
    ctx.judge(top, not concrete_with_subs, {"concrete_classes_with_subclasses": concrete_with_subs},
              "no concrete element class has subclasses (all_instances only descends into subclasses of *abstract* classes: a subclass of a concrete class would never be enumerated)",
              "tokenizers using the subclass are silently missing from the enumeration")
    # every field annotation is in the supported fragment (type_values raises otherwise) - exercised by N1; record the count
    n_fields = sum(len(sp.fields_of(c)) for c in sp.element_classes() if not sp.is_abstract(c))
    ctx.judge(top, n_fields > 0, {"fields_in_concrete_elements": n_fields, "element_classes": len(sp.element_classes())},
              "all field annotations of concrete element classes are finite-valued (bool, Literal, element class, fixed tuple, union)")
    keys = set(sp.validation_keys)
    ctx.judge((ctx.index.module(AT).relpath, f"{AT}.MAZE_TOKENIZER_MODULAR_DEFAULT_VALIDATION_FUNCS", 0),
              keys == {"_TokenizerElement", "StepTokenizers.StepTokenizerPermutation"} and X.same_expr(sp.validation_keys["_TokenizerElement"], "lambda x: x.is_valid()"),
              {"validation_keys": sorted(keys)}, "validation map: every element is filtered by its own is_valid(); the permutation union by the permutation rule")
    ga = ctx.index.func(f"{AT}.get_all_tokenizers")
    call = [c for c in X.calls(ga.node) if dotted_of(c.func) == "all_instances"]
    ok = len(call) == 1 and X.U(call[0].args[0]) == "MazeTokenizerModular" and X.U(N.kwarg(call[0], "validation_funcs")) == "MAZE_TOKENIZER_MODULAR_DEFAULT_VALIDATION_FUNCS"
    ctx.judge(ga, ok, {"call": X.U(call[0]) if call else None}, "get_all_tokenizers = all_instances(MazeTokenizerModular, validation_funcs=<the default map>)")
    # the _type_ hack adds a singleton field: annotation Literal[repr(cls)] with that default (does not multiply the space)
    isc = ctx.index.func(f"{ELEMENT}.__init_subclass__")
    # locals bound once (a name for the repeated repr(cls)) are written back into their uses before the three statements are compared
    import copy as _copy

    node_ = _copy.deepcopy(isc.node)
    once = {}
    for st_ in node_.body:
        if isinstance(st_, (ast.Assign, ast.AnnAssign)) and getattr(st_, "value", None) is not None:
            tg_ = st_.targets[0] if isinstance(st_, ast.Assign) and len(st_.targets) == 1 else (st_.target if isinstance(st_, ast.AnnAssign) else None)
            if isinstance(tg_, ast.Name):
                once[tg_.id] = None if tg_.id in once else st_.value
    once = {k_: v_ for k_, v_ in once.items() if v_ is not None}

    class _Sub(ast.NodeTransformer):
        def visit_Name(self, n_):
            return _copy.deepcopy(once[n_.id]) if isinstance(n_.ctx, ast.Load) and n_.id in once else n_
    txt = X.U(_Sub().visit(node_))
    ok = "cls._type_ = serializable_field(" in txt and "default=repr(cls)" in txt and "cls.__annotations__['_type_'] = Literal[repr(cls)]" in txt
    ctx.judge(isc, ok, {}, "the hidden `_type_` field is a singleton Literal[repr(cls)] (one value: it cannot multiply or shrink the space)")
    # structure of all_instances itself
    ai = ctx.index.func("maze_dataset.utils.all_instances")
    t = X.U(ai.node)
    ok = all(k in t for k in ("type_ == bool", "is_abstract(type_)", "type_.__subclasses__()", "itertools.product", "type_origin == tuple", "type_origin is Literal", "UnionType"))
    ctx.judge(ai, ok, {}, "all_instances has the documented case structure (bool / abstract dataclass / concrete dataclass / tuple / union / Literal)")
    # every recursive call: which collection it ranges over, whether anything filters that collection, what it passes down
    from sa.callgraph import CallGraph

    reach = [q_ for q_ in CallGraph(ctx.index).closure([ai.qualname]) if q_.startswith("maze_dataset.utils.")]
    par = {}
    all_calls = []
    for q_ in reach:   # all_instances itself and the helpers of its module it delegates to
        fn_ = ctx.index.functions[q_]
        par.update(X.parents_map(fn_.node))
        all_calls += list(X.calls(fn_.node))
    sites = []
    for c in all_calls:
        if dotted_of(c.func) != "all_instances":
            continue
        var = c.args[0].id if c.args and isinstance(c.args[0], ast.Name) else None
        vf = c.args[1] if len(c.args) > 1 else N.kwarg(c, "validation_funcs")
        it, filters = None, []
        n_ = c
        while n_ in par and it is None:
            n_ = par[n_]
            if isinstance(n_, (ast.ListComp, ast.GeneratorExp, ast.SetComp)):
                for g in n_.generators:
                    if var in {x.id for x in ast.walk(g.target) if isinstance(x, ast.Name)}:
                        it = g.iter
                        filters += [X.U(i_) for i_ in g.ifs]
            elif isinstance(n_, ast.For) and var in {x.id for x in ast.walk(n_.target) if isinstance(x, ast.Name)}:
                it = n_.iter
            elif isinstance(n_, ast.If) and var is not None and var in {x.id for x in ast.walk(n_.test) if isinstance(x, ast.Name)}:
                filters.append(X.U(n_.test))
        sites.append({"call": X.U(c), "ranges_over": X.U(it) if it is not None else None, "filters": filters,
                      "passes_validation_funcs": vf is not None and X.U(vf) == "validation_funcs"})
    for st_ in sites:
        ctx.judge(ai, not st_["filters"] and st_["passes_validation_funcs"], st_,
                  "every recursive call of all_instances ranges over the whole collection (all subclasses of an abstract class, all field types, all "
                  "tuple items, all union members) - nothing filters it - and passes validation_funcs down",
                  "members of the filtered collection are never enumerated (e.g. everything below an abstract intermediate class), or nested elements "
                  "escape validation: the enumeration is not exactly the valid configurations")
    ctx.judge(ai, len(sites) >= 4 and any("__subclasses__" in (s_["ranges_over"] or "") for s_ in sites), {"recursive_call_sites": len(sites)},
              "all_instances recurses into subclasses, field types, tuple items and union members (4 recursive call sites)")
    # the enumeration validates elements, never the assembled tokenizer: MazeTokenizerModular.is_valid must be exactly "every element is valid"
    # (a special case of its own would make enumerated tokenizers report themselves invalid)
    tv = ctx.index.func(f"{MT}.MazeTokenizerModular.is_valid")
    rets = X.returns_of(tv.node)
    one = len(rets) == 1 and X.same_expr(rets[0].value, "all([el.is_valid() for el in self.tokenizer_elements])", "all(el.is_valid() for el in self.tokenizer_elements)")
    extra = [X.U(r_.value)[:60] for r_ in rets if isinstance(r_.value, ast.Constant)]
    ctx.judge(tv, True if one else False if extra else None, {"returns": [X.U(r_.value)[:80] for r_ in rets]},
              "MazeTokenizerModular.is_valid() is all(el.is_valid() for el in self.tokenizer_elements) and nothing else",
              "tokenizers that the enumeration yields (it validates element by element) report themselves invalid: 'every configuration that satisfies the validity rules ... and nothing else' fails")
    av = ctx.index.func("maze_dataset.utils._apply_validation_func")
    _judge_apply_validation(ctx, av)
    # the enumeration is recomputed on every call: validity is not a pure function of (type, validation map) - `mark_as_unsupported`
    # and new subclasses change it - so a memo that outlives one call replays stale results
    CACHE = ("cache", "functools.cache", "lru_cache", "functools.lru_cache", "cached", "memoize")
    aw = ctx.index.func("maze_dataset.utils._all_instances_wrapper")
    shared = []

    def scan(body, per_call: bool):
        for st_ in body:
            if isinstance(st_, (ast.FunctionDef, ast.AsyncFunctionDef)):
                decos = [(dotted_of(d.func) if isinstance(d, ast.Call) else dotted_of(d)) or "" for d in st_.decorator_list]
                if any(d in CACHE for d in decos) and not per_call:
                    shared.append(st_.name)
                scan(st_.body, True)
            elif isinstance(st_, (ast.If, ast.For, ast.While, ast.With, ast.Try)):
                for fld in ("body", "orelse", "finalbody"):
                    scan(getattr(st_, fld, []) or [], per_call)
    scan(aw.node.body, False)
    ai_decos = [d.name.rsplit(".", 1)[-1] for d in ctx.index.func("maze_dataset.utils.all_instances").decorators]
    ok = not shared and not any(d in ("cache", "lru_cache") for d in ai_decos)
    ctx.judge(aw, ok, {"memoised_across_calls": shared, "all_instances_decorators": ai_decos},
              "no memo of the enumeration outlives one call (a cached helper may only live inside the per-call wrapper)",
              "after `mark_as_unsupported` (or any change of the validity rules) the enumeration still yields the old, now invalid configurations")


def rule_N3(ctx: Ctx) -> None:
    sp = _space(ctx)
    steps = sp.instances(ctx.index.cls(f"{MT}.StepTokenizers._StepTokenizer"))
    seq = ctx.index.cls(f"{MT}.PathTokenizers.StepSequence")
    kind, node, owner = sp.is_valid_impl(seq)
    ev = sp.evaluator(owner.outer)
    lam = sp.permutation_validator
    if lam is None:
        raise AnalysisError("permutation validation lambda not found")
    ev2 = sp.evaluator(ctx.index.cls(f"{MT}.StepTokenizers"))
    n = 0
    disagree = []
    n_valid = 0
    for k in range(1, 5):
        for tup in itertools.product(steps, repeat=k):
            n += 1
            a = bool(ev2.call(Closure(lam, {}), [tup], {}))
            inst = Obj(seq.qualname, {"step_tokenizers": tup})
            b = bool(ev.run_body(node.body, {"self": inst})) if kind == "def" else bool(ev.call(Closure(node, {}), [inst], {}))
            n_valid += a
            if a != b:
                disagree.append([repr(x) for x in tup])
    ctx.judge(seq, n == 340 and not disagree and n_valid == 63, {"tuples_evaluated": n, "valid_by_validation_lambda": n_valid, "disagreements": disagree[:5]},
              "the validation lambda used for pruning and StepSequence.is_valid accept exactly the same 63 of the 340 step-tokenizer tuples "
              "(no repeats; not Distance alone)",
              "enumeration and is_valid disagree: get_all_tokenizers contains tokenizers that report invalid, or misses valid ones")


def rule_N4(ctx: Ctx) -> None:
    sp = _space(ctx)
    names = {}
    for c in sp.element_classes():
        if not sp.is_abstract(c):
            names.setdefault(c.name, []).append(c.qualname)
    dup = {k: v for k, v in names.items() if len(v) > 1}
    top = ctx.index.cls(ELEMENT)
    ctx.judge(top, not dup, {"concrete_element_classes": len(names), "duplicate_simple_names": dup},
              "concrete element classes have pairwise distinct __name__ (the name renders only type(self).__name__)",
              "two different configurations render to the same name and hence the same hash")
    nm = ctx.index.func(f"{ELEMENT}.name")
    comp = [n for n in ast.walk(nm.node) if isinstance(n, ast.ListComp)]
    ok = len(comp) == 1 and X.same_expr(comp[0].generators[0].iter, "self.__dict__.items()") and len(comp[0].generators[0].ifs) == 1 \
        and X.same_expr(comp[0].generators[0].ifs[0], "k != '_type_'") and X.same_expr(comp[0].elt, "self._stringify(k, v)")
    ok = ok and "type(self).__name__" in X.U(nm.node)
    ctx.judge(nm, ok, {"members": X.U(comp[0]) if comp else None}, "name renders the class name and *every* field except `_type_`, in declaration order",
              "a field is left out of the name: configurations differing only in it share name and hash")
    sf = ctx.index.func(f"{ELEMENT}._stringify")
    from sa.fold import Obj

    def sf_call(ev, node, env):
        d = dotted_of(node.func) or ""
        if d == "isinstance" and len(node.args) == 2:
            v = ev.ev(node.args[0], env)
            kinds = [X.U(x) for x in (node.args[1].elts if isinstance(node.args[1], ast.Tuple) else [node.args[1]])]
            return any((k == "bool" and isinstance(v, bool)) or (k == "tuple" and isinstance(v, tuple)) or (k == "int" and isinstance(v, int) and not isinstance(v, bool))
                       or (k == "str" and isinstance(v, str)) or (k.endswith("_TokenizerElement") and isinstance(v, Obj)) for k in kinds)
        return NotImplemented
    pk, pv = sf.params()[-2:]
    cases = [(True, "key=T"), (False, "key=F"), (Obj("Element", {"name": "Elem(a=T)"}), "Elem(a=T)"), (("x", "y"), "key=(x, y, )"), ((), "key=()"), ("plain", "key=plain"), (3, "key=3")]
    bad, unk = [], []
    for v, want in cases:
        res = _abstract_run(sf, {pk: "key", pv: v}, sf_call)
        if res[0] == "unknown":
            unk.append(res[1])
        elif res != ("value", want):
            bad.append({"value": repr(v), "found": repr(res[1]), "expected": want})
    ctx.judge(sf, False if bad else None if unk else True, {"cases": len(cases), "deviations": bad[:3], "undecided": unk[:2]},
              "field rendering: bools as k=T/F, nested elements by their own name, tuples element by element, anything else k=v (all injective on the finite domains)",
              "two different field values render to the same text (or the key is dropped): distinct tokenizers share a name and hash")
    tn = ctx.index.func(f"{MT}.MazeTokenizerModular.name")
    r = X.returns_of(tn.node)
    ok = len(r) == 1 and X.same_expr(r[0].value, "'-'.join([type(self).__name__, self.prompt_sequencer.name])")
    ctx.judge(tn, ok, {"returns": X.U(r[0].value) if r else None}, "the tokenizer's name is its class name plus the prompt sequencer's (recursive) name")


def rule_N5(ctx: Ctx) -> None:
    model = DataclassModel(ctx.index, ctx.deps)
    c = ctx.index.cls(f"{MT}.MazeTokenizerModular")
    h = model.effective(c, "__hash__")
    ctx.judge(c, h.kind == "explicit" and h.owner == c.qualname, {"effective___hash__": h.to_json()},
              "MazeTokenizerModular's explicit __hash__ survives its decorator", "hash(tokenizer) falls back to a generated field hash (PYTHONHASHSEED dependent)")
    for fn in ("hash_int", "__hash__", "hash_b64"):
        f = ctx.index.func(f"{MT}.MazeTokenizerModular.{fn}")
        builtin = [x for x in X.calls(f.node) if dotted_of(x.func) == "hash"]
        ctx.judge(f, not builtin, {"builtin_hash_calls": [X.U(b) for b in builtin]}, "no builtin hash() (of str) on the tokenizer's identity path")
    hi = ctx.index.func(f"{MT}.MazeTokenizerModular.hash_int")
    r = X.returns_of(hi.node)
    ok = len(r) == 1 and X.same_expr(r[0].value, "int.from_bytes(hashlib.blake2b(self.name.encode('utf-8')).digest(), byteorder='big')")
    ctx.judge(hi, ok, {"returns": X.U(r[0].value)[:140] if r else None}, "hash_int = blake2b digest of the full name, as a big-endian integer")
    hh = ctx.index.func(f"{MT}.MazeTokenizerModular.__hash__")
    r = X.returns_of(hh.node)
    ctx.judge(hh, len(r) == 1 and X.same_expr(r[0].value, "self.hash_int()"), {"returns": X.U(r[0].value) if r else None}, "__hash__ is hash_int()")
    # width of the file-name hash: with N = 5,878,656 configurations the chance of *any* two colliding is about N^2 / 2^(bits+1); 64 bits keep
    # it near 1e-6, 32 bits make thousands of collisions certain
    hb = ctx.index.func(f"{MT}.MazeTokenizerModular.hash_b64")
    nb = hb.param_default("n_bytes")
    nb_v = N.const_int(nb) if nb is not None else None
    ctx.judge(hb, None if nb_v is None else nb_v >= 8, {"default_n_bytes": nb_v, "bits": None if nb_v is None else 8 * nb_v},
              "hash_b64 keeps at least 64 bits of the digest by default: distinct tokenizers of the 5.9 million get distinct stable hashes",
              "with fewer bits the birthday bound is passed: different tokenizers share a stable hash / file name")
    nm = ctx.index.func(f"{ELEMENT}.name")
    builtin = [x for x in X.calls(nm.node) if dotted_of(x.func) == "hash"]
    ctx.judge(nm, not builtin, {"builtin_hash_calls": len(builtin)}, "names never involve builtin hash()")


def rule_N6(ctx: Ctx) -> None:
    sp = _space(ctx)
    ns_keys = {}
    for c in ctx.index.classes.values():
        if c.module.name == MT and c.outer is None and "key" in c.assigns and isinstance(c.assigns["key"], ast.Constant):
            ns_keys[c.name] = c.assigns["key"].value
    n = 0
    for c in [*sp.element_classes(), ctx.index.cls(f"{MT}.MazeTokenizerModular")]:
        for name, f in c.fields.items():
            lf = f.kwarg("loading_fn")
            if lf is None:
                continue
            n += 1
            ok = None
            slot = {"class": c.qualname.replace(MT + ".", ""), "field": name, "loading_fn": X.U(lf)[:100]}
            if isinstance(lf, ast.Lambda):
                arg = lf.args.args[0].arg
                b = lf.body
                if isinstance(b, ast.Call) and dotted_of(b.func) == "_load_tokenizer_element" and len(b.args) == 2 and X.U(b.args[0]) == arg:
                    ns = X.U(b.args[1])
                    slot["namespace"] = ns
                    slot["namespace_key"] = ns_keys.get(ns)
                    ok = ns_keys.get(ns) == name
                    # the field's annotation lives in that namespace
                    ann = X.U(f.annotation)
                    ok = ok and ann.startswith(ns + ".")
                elif X.same_expr(b, f"tuple({arg}[StepTokenizers.key])"):
                    ok = ns_keys.get("StepTokenizers") == name
                else:
                    ok = False
            ctx.judge(c, ok, slot, "the loader of an element-typed field looks the element up under data[<namespace>.key] with key == the field's own name, in the namespace of the field's type",
                      "saving then loading a tokenizer yields another element (or KeyError)")
    ctx.stat("element_loading_fns", n)
    lt = ctx.index.func(f"{MT}._load_tokenizer_element")
    from sa.fold import Obj as _Obj

    class _Cls:
        def __init__(self, name):
            self.name = name

    def lt_call(ev, node, env):
        d = dotted_of(node.func) or ""
        if d == "load_item_recursive" and node.args:
            return ("loaded", ev.ev(node.args[0], env))
        if d == "getattr" and len(node.args) == 2:
            o, a = ev.ev(node.args[0], env), ev.ev(node.args[1], env)
            if isinstance(o, _Obj) and a in o.attrs:
                return o.attrs[a]
        f_ = None
        if isinstance(node.func, ast.Name) and isinstance(env.get(node.func.id), _Cls):
            f_ = env[node.func.id]
        if f_ is not None:
            kw = {}
            for k in node.keywords:
                if k.arg is None:
                    kw.update(ev.ev(k.value, env))
                else:
                    kw[k.arg] = ev.ev(k.value, env)
            return ("construct", f_.name, kw, len(node.args))
        return NotImplemented
    pd, pn = lt.params()[:2]
    ns = _Obj("Namespace", {"key": "coord_tokenizer", "UT": _Cls("UT"), "CTT": _Cls("CTT")})
    data = {"coord_tokenizer": {"__format__": "CTT(pre=T, intra=F)", "pre": True, "intra": [False]}, "path_tokenizer": {"__format__": "UT()", "x": 1}}
    res = _abstract_run(lt, {pd: data, pn: ns}, lt_call)
    want = ("value", ("construct", "CTT", {"pre": ("loaded", True), "intra": ("loaded", [False])}, 0))
    ctx.judge(lt, None if res[0] == "unknown" else res == want, {"result": repr(res)[:200]},
              "_load_tokenizer_element: class name = text before '(' of data[namespace.key]['__format__'], looked up in the namespace, constructed from the remaining keys (each loaded recursively)",
              "a saved tokenizer element is reloaded as another class / from another element's data / with the format marker passed as a field")


def rule_N7(ctx: Ctx) -> None:
    f = ctx.index.func(f"{MT}.MazeTokenizerModular.from_legacy")
    r = X.returns_of(f.node)
    enum = ctx.index.cls(f"{MT}.TokenizationMode")
    members = set(enum.assigns)
    from sa import dtable as DT

    p1 = f.params()[1]
    rows = DT.table(f.node, {"given_a_tokenizer": [f"isinstance({p1}, MazeTokenizer)"]})
    slot = {"members": sorted(members)}

    def expected(a):
        def pred(o):
            if o[0] != "return" or not (isinstance(o[1], ast.Subscript) and isinstance(o[1].value, ast.Dict)):
                return False
            d_ = o[1].value
            keys = {X.U(k).split(".")[-1] for k in d_.keys}
            slot["mapped"] = sorted(keys)
            vals = {X.U(k).split(".")[-1]: v for k, v in zip(d_.keys, d_.values)}
            key_ok = X.U(o[1].slice) == (f"{p1}.tokenization_mode" if a["given_a_tokenizer"] else p1)
            return keys == members and key_ok and X.same_expr(vals.get("AOTP_UT_uniform"), "MazeTokenizerModular()") \
                and X.same_expr(vals.get("AOTP_UT_rasterized"), "MazeTokenizerModular()") \
                and X.same_expr(vals.get("AOTP_CTT_indexed"), "MazeTokenizerModular(prompt_sequencer=PromptSequencers.AOTP(coord_tokenizer=CoordTokenizers.CTT()))")
        return pred
    ok, rep = DT.judge_table(rows, expected)
    slot["table"] = rep
    ctx.judge(f, ok, slot, "from_legacy maps every TokenizationMode member: the two UT modes to the default tokenizer, CTT_indexed to AOTP(coord_tokenizer=CTT()); a legacy tokenizer is mapped through its mode",
              "a legacy mode has no (or the wrong) modular equivalent")
    le = ctx.index.func(f"{MT}.MazeTokenizerModular.is_legacy_equivalent")

    def le_call(ev, node, env):
        d = dotted_of(node.func) or ""
        if d.endswith("from_legacy") and len(node.args) == 1:
            return ("image", ev.ev(node.args[0], env))
        return NotImplemented
    modes = ["mode1", "mode2", "mode3"]
    bad, unk = [], []
    for self_v, want in [(("image", m_), True) for m_ in modes] + [(("image", "no such mode"), False), ("another tokenizer", False)]:
        res = _abstract_run(le, {le.params()[0]: self_v, "TokenizationMode": list(modes)}, le_call)
        if res[0] == "unknown":
            unk.append(res[1])
        elif res != ("value", want):
            bad.append({"self": repr(self_v), "found": repr(res[1]), "expected": want})
    uses_mapping = any(isinstance(c_, ast.Call) and (dotted_of(c_.func) or "").endswith("from_legacy") for c_ in ast.walk(le.node))
    if unk and not bad and not uses_mapping:
        bad.append({"reason": "the legacy mapping (from_legacy) is not consulted at all: equivalence is decided by another criterion", "undecided": unk[0]})
    ctx.judge(le, False if bad else None if unk else True, {"deviations": bad[:3], "undecided": unk[:2]},
              "a tokenizer is legacy-equivalent iff it equals the image of some legacy mode",
              "a tokenizer that is not the image of a legacy mode reports itself legacy-equivalent (or an image does not)")
    model = DataclassModel(ctx.index, ctx.deps)
    c = ctx.index.cls(f"{MT}.MazeTokenizerModular")
    eq = model.effective(c, "__eq__")
    ctx.judge(c, eq.kind == "generated", {"effective___eq__": eq.to_json()}, "tokenizer equality is field-wise (generated): equal iff all elements are equal")


RULES = [
    Rule("C15.N1", rule_N1, floor=10, doc="size in closed form"),
    Rule("C15.N2", rule_N2, floor=8, doc="enumeration soundness premises"),
    Rule("C15.N3", rule_N3, floor=1, doc="two encodings of one rule agree on 340 tuples"),
    Rule("C15.N4", rule_N4, floor=4, doc="name injectivity premises"),
    Rule("C15.N5", rule_N5, floor=8, doc="process-stable hashes"),
    Rule("C15.N6", rule_N6, floor=10, doc="load resolves the right namespace"),
    Rule("C15.N7", rule_N7, floor=3, doc="legacy mapping"),
]

from sa import exits as _exits_ms  # noqa: E402

RULES.append(Rule("C15.MS", _exits_ms.make_state_rule("C15", "C15.MS", _exits_ms.SCOPES.get("C15", [])), floor=1,
                  doc="no hidden module-level state on the anchored path: results do not depend on the history of the process (E17)"))

from sa import exits as _exits_nw  # noqa: E402

RULES.append(Rule("C15.NW", _exits_nw.make_narrowing_rule("C15", "C15.NW", _exits_nw.SCOPES.get("C15", [])), floor=1,
                  doc="no new narrowing cast (8/16-bit element types) on the anchored path: coordinates, lengths and indices do not wrap (E18)"))
