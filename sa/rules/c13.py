"""C13 -- all graph queries on a maze agree with its connection structure

Clauses: V1 one convention ("dim d <-> +1 along axis d, stored at the lesser endpoint") extracted
site by site and compared; V2 neighbours / component expansion; V3 path validation; V4 forking /
path-following partition by construction; V5 adjacency list lists each connection once; V6 node
list.
"""

from __future__ import annotations

import ast

from sa import astx as X
from sa import lattice as L
from sa import normal as N
from sa.fold import Evaluator, Unknown
from sa.index import AnalysisError, dotted_of
from sa.report import Ctx, Rule

LM = "maze_dataset.maze.lattice_maze"
TU = "maze_dataset.token_utils"
UT = "maze_dataset.utils"
MT = "maze_dataset.tokenization.maze_tokenizer"

EXPLANATION = (
    "Each function that reads or writes the connection list is reduced to a descriptor of the convention it uses "
    "(which array axis a unit step of layer d moves along, and which endpoint holds the bit); all descriptors must equal the "
    "canonical one.  Idiom-specific extractors: lesser-endpoint conditional (nodes_connected), shifted slice accumulation "
    "(coord_degrees), folded tuple arithmetic (connection_list_to_adj_list), argmax/compare (from_adj_list), sorted-edge "
    "indexing (is_connection), boundary clears (ConnectionEdges), edge construction (lattice_connection_array).  Plus "
    "structural rules for neighbour expansion, path validation, and the fork partition."
)
ASSUMPTIONS = ["numpy slicing / np.sort / np.delete / np.meshgrid semantics"]
TRUSTED = ["ast"]

CANON = {"layer0": "step (+1, 0): down, bit at the upper cell", "layer1": "step (0, +1): right, bit at the left cell"}


def judge_is_connection(ctx: Ctx, exp: str) -> None:
    # is_connection: sorted-edge indexing
    f = ctx.index.func(f"{TU}.is_connection")
    rets = X.returns_of(f.node)
    ok = None
    slot = {}
    if len(rets) == 1 and isinstance(rets[0].value, ast.Subscript):
        parts = N.subscript_parts(rets[0].value)
        srt = None
        for s in ast.walk(f.node):
            if isinstance(s, ast.Assign) and isinstance(s.value, ast.Call) and dotted_of(s.value.func) in ("np.sort", "numpy.sort"):
                srt = (X.U(s.targets[0]), N.const_int(N.kwarg(s.value, "axis")))
        ddef = X.assignments_to(f.node, X.U(parts[0])) if X.U(parts[0]).isidentifier() else [parts[0]]
        slot = {"index": X.U(rets[0].value), "sorted": srt, "direction": X.U(ddef[0])[:120] if ddef else None}
        if srt and len(ddef) == 1:
            s_ = srt[0]
            dtxt = X.U(ddef[0]).replace(" ", "")
            # direction = 1 iff the row difference is zero (horizontal edge)
            dir_ok = dtxt in (f"(({s_}[:,1,:]-{s_}[:,0,:])[:,0]==0).astype(np.int8)", f"({s_}[:,1,0]-{s_}[:,0,0]==0).astype(np.int8)",
                              f"({s_}[:,1,0]=={s_}[:,0,0]).astype(np.int8)")
            dir_bad = dtxt in (f"(({s_}[:,1,:]-{s_}[:,0,:])[:,1]==0).astype(np.int8)", f"(({s_}[:,1,:]-{s_}[:,0,:])[:,0]!=0).astype(np.int8)")
            idx_ok = len(parts) == 3 and X.U(parts[1]).replace(" ", "") == f"{s_}[:,0,0]" and X.U(parts[2]).replace(" ", "") == f"{s_}[:,0,1]" and srt[1] == 1
            ok = True if (dir_ok and idx_ok) else (False if (dir_bad or (dir_ok and not idx_ok)) else None)
            if ok is None and len(parts) == 3:
                ok = False  # located slot with an unaccepted direction / index expression
    ctx.judge(f, ok, slot, exp + "; edges are looked up at their (elementwise) lesser endpoint, layer 1 iff the rows are equal",
              "the batch edge test disagrees with nodes_connected for some orientation of an edge")
    # a query does not change what it is asked about: no in-place operation on the parameters (callers tokenize the same edge array afterwards)
    params = set(f.params())
    INPLACE = {"sort", "fill", "put", "resize", "partition", "itemset", "setfield", "byteswap"}
    muts = [X.U(c)[:60] for c in X.calls(f.node) if isinstance(c.func, ast.Attribute) and c.func.attr in INPLACE and isinstance(c.func.value, ast.Name) and c.func.value.id in params]
    muts += [X.U(s_)[:60] for s_ in ast.walk(f.node) if isinstance(s_, (ast.Assign, ast.AugAssign))
             for t_ in (s_.targets if isinstance(s_, ast.Assign) else [s_.target]) if isinstance(t_, ast.Subscript) and isinstance(t_.value, ast.Name) and t_.value.id in params]
    muts += [X.U(c)[:60] for c in X.calls(f.node) if any(k.arg == "out" and isinstance(k.value, ast.Name) and k.value.id in params for k in c.keywords)]
    ctx.judge(f, not muts, {"in_place_operations_on_parameters": muts}, "is_connection leaves its arguments unchanged (np.sort returns a sorted copy)",
              "the caller's edge array is re-ordered under its feet: the orientation chosen by the edge permuter is undone before the edges are tokenized")


def rule_V1(ctx: Ctx) -> None:
    exp = f"canonical convention: {CANON}"
    # 1. nodes_connected
    f = ctx.index.func(f"{LM}.LatticeMaze.nodes_connected")
    uses = [u for u in L.lesser_endpoint_use(f.node) if not u["store"]]
    if len(uses) != 1:
        ctx.unknown(f, {"uses": len(uses)}, exp)
    else:
        u = uses[0]
        ok = None if u["node_ok"] is None or u["dim_ok"] is None else u["node_ok"] and u["dim_ok"]
        ctx.judge(f, ok, u, exp, "connectivity is read from the greater endpoint / the other layer: walls and passages are confused")
        rets = X.returns_of(f.node)
        ok_ret = any(any(sub is not None and X.U(sub) == u["use"] for sub in ast.walk(r.value)) for r in rets if r.value is not None)
        guard = [n for n in ast.walk(f.node) if isinstance(n, ast.If) and "sum()" in X.U(n.test)]
        gok = None
        if guard:
            gok, gs = X.relation_in(guard[0].test, ["np.abs(delta).sum() != 1", "np.abs(delta).sum() == 1", "np.sum(np.abs(delta)) != 1"])
            pos = "== 0" not in X.U(guard[0].test)
            # polarity: != 1 -> return False in body
            if isinstance(N.boolean_nf(guard[0].test), N.Atom) and N.boolean_nf(guard[0].test).op == "!=":
                gok = gok and any(isinstance(s, ast.Return) and isinstance(s.value, ast.Constant) and s.value.value is False for s in guard[0].body)
            else:
                gok = gok and any(isinstance(s, ast.Return) and isinstance(s.value, ast.Constant) and s.value.value is False for s in guard[0].orelse)
        # no guard of the known form located: the form is unrecognised (decided by V8), not a located slot with a rejected value
        # nodes_connected is decided on every cell pair of every small maze by V8: a guard / lookup form this rule rejects is handed to V8
        ctx.judge(f, True if (guard and ok_ret and bool(gok)) else None, {"adjacency_guard": X.U(guard[0].test) if guard else None},
                  "non-adjacent (L1 distance != 1) pairs are reported unconnected; adjacent pairs return the stored bit")
    # 2. coord_degrees
    f = ctx.index.func(f"{LM}.LatticeMaze.coord_degrees")
    augs = [n for n in ast.walk(f.node) if isinstance(n, ast.AugAssign) and isinstance(n.target, ast.Subscript) and isinstance(n.value, ast.Subscript)]
    seen_layers = set()
    for a in augs:
        tp = [N.slice_form(p) for p in N.subscript_parts(a.target)]
        sp = N.subscript_parts(a.value)
        layer = N.const_int(sp[0])
        src = [N.slice_form(p) for p in sp[1:]]
        one_up = ("slice", N.aff_key(N.affine(ast.Constant(1))), None, None)
        to_m1 = ("slice", None, N.aff_key(N.affine(ast.Constant(-1))), None)
        full = ("slice", None, None, None)
        shifted_axis = [i for i in range(2) if len(tp) == 2 and len(src) == 2 and tp[i] == one_up and src[i] == to_m1]
        other_full = len(tp) == 2 and all(tp[i] == full and src[i] == full for i in range(2) if i not in shifted_axis)
        ok = isinstance(a.op, ast.Add) and len(shifted_axis) == 1 and other_full and shifted_axis[0] == layer
        seen_layers.add(layer)
        ctx.judge(f, ok, {"statement": X.U(a), "layer": layer, "shifted_axis": shifted_axis}, exp + "; the incoming edge of layer d arrives along axis d",
                  "west/north degree contributions are taken from the wrong layer or shifted along the wrong axis", node=a)
    base = [n for n in ast.walk(f.node) if X.np_method(n, "sum") and N.const_int(N.kwarg(n, "axis")) == 0]
    ctx.judge(f, seen_layers == {0, 1} and len(augs) == 2 and len(base) == 1, {"layers_accumulated": sorted(x for x in seen_layers if x is not None), "outgoing_sum": X.U(base[0]) if base else None},
              "degrees = outgoing edges (sum over layers) + one shifted accumulation per layer")
    # 3. connection_list_to_adj_list
    f = ctx.index.func(f"{TU}.connection_list_to_adj_list")
    loops = [n for n in ast.walk(f.node) if isinstance(n, ast.For) and isinstance(n.iter, ast.Call) and dotted_of(n.iter.func) in ("np.ndindex", "numpy.ndindex")]
    if len(loops) != 1 or not isinstance(loops[0].target, ast.Tuple) or len(loops[0].target.elts) != 3:
        ctx.unknown(f, {"ndindex_loops": len(loops)}, exp)
    else:
        lp = loops[0]
        d, x, y = (e.id for e in lp.target.elts)
        defs = {}
        for s in ast.walk(lp):
            if isinstance(s, (ast.Assign, ast.AnnAssign)) and isinstance(s.targets[0] if isinstance(s, ast.Assign) else s.target, ast.Name) and s.value is not None:
                defs[(s.targets[0] if isinstance(s, ast.Assign) else s.target).id] = s.value
        ev = Evaluator()
        res = {}
        try:
            for dv in (0, 1):
                for (xv, yv) in ((1000, 2000), (7, 11)):
                    env = {d: dv, x: xv, y: yv}
                    cs = ev.ev(defs["c_start"], env)
                    ce = ev.ev(defs["c_end"], env)
                    res[(dv, xv)] = (cs[0] - xv, cs[1] - yv, ce[0] - cs[0], ce[1] - cs[1])
            ok = all(v == (0, 0, 1, 0) for k, v in res.items() if k[0] == 0) and all(v == (0, 0, 0, 1) for k, v in res.items() if k[0] == 1)
        except (Unknown, KeyError):
            ok = None
        guard = [n for n in lp.body if isinstance(n, ast.If) and X.U(n.test) == f"conn_list[{d}, {x}, {y}]"]
        ctx.judge(f, ok if guard else None, {"c_start": X.U(defs.get("c_start")), "c_end": X.U(defs.get("c_end")), "offsets": {str(k): v for k, v in res.items()}}, exp,
                  "the adjacency list names other cell pairs than the connection list connects", node=lp)
    # 4. from_adj_list
    f = ctx.index.func(f"{LM}.LatticeMaze.from_adj_list")
    st = [s for s in ast.walk(f.node) if isinstance(s, ast.Assign) and isinstance(s.targets[0], ast.Subscript) and X.U(s.targets[0].value) == "connection_list"]
    ok = None
    slot = {}
    if len(st) == 1:
        parts = [X.U(p) for p in N.subscript_parts(st[0].targets[0])]
        ddef = X.assignments_to(f.node, parts[0])
        slot = {"store": X.U(st[0]), "direction": [X.U(x) for x in ddef]}
        # direction = index of the differing coordinate
        dir_ok = len(ddef) == 1 and X.same_expr(ddef[0], "(c_start!=c_end).argmax()", "int((c_start!=c_end).argmax())", "(c_end!=c_start).argmax()", "int((c_end!=c_start).argmax())")
        # lesser endpoint in direction d
        # normalised shape: `x, y = A if A[d] < B[d] else B`
        sel = [n for n in ast.walk(f.node) if isinstance(n, ast.Assign) and isinstance(n.value, ast.IfExp) and isinstance(n.value.test, ast.Compare)
               and f"[{parts[0]}]" in X.U(n.value.test)]
        les_ok = None
        if len(sel) == 1:
            t = sel[0].value.test
            a = N.compare_atom(t.left, t.ops[0], t.comparators[0])
            lt = N.compare_atom(X.expr_of(f"c_start[{parts[0]}]"), ast.Lt(), X.expr_of(f"c_end[{parts[0]}]"))
            le = N.compare_atom(X.expr_of(f"c_start[{parts[0]}]"), ast.LtE(), X.expr_of(f"c_end[{parts[0]}]"))
            gt = N.compare_atom(X.expr_of(f"c_start[{parts[0]}]"), ast.Gt(), X.expr_of(f"c_end[{parts[0]}]"))
            ge = N.compare_atom(X.expr_of(f"c_start[{parts[0]}]"), ast.GtE(), X.expr_of(f"c_end[{parts[0]}]"))
            then_src = [X.U(sel[0].value.body)]
            else_src = [X.U(sel[0].value.orelse)]
            tgt_ok = X.U(sel[0].targets[0]).replace(" ", "") in (f"{parts[1]},{parts[2]}", f"({parts[1]},{parts[2]})")
            if a.key() in (lt.key(), le.key()):
                les_ok = then_src == ["c_start"] and else_src == ["c_end"] and tgt_ok
            elif a.key() in (gt.key(), ge.key()):
                les_ok = then_src == ["c_end"] and else_src == ["c_start"] and tgt_ok
            else:
                les_ok = False
            slot["selection"] = X.U(t)
        elif [n for n in ast.walk(f.node) if isinstance(n, ast.If) and f"[{parts[0]}]" in X.U(n.test)]:
            les_ok = False
            slot["selection"] = "endpoint selection in an unfamiliar statement shape"
        val_ok = isinstance(st[0].value, ast.Constant) and st[0].value.value is True
        ok = None if les_ok is None else (dir_ok and les_ok and val_ok)
    ctx.judge(f, ok, slot, exp, "rebuilding a maze from its adjacency list stores the bit at the greater endpoint / in the wrong layer")
    judge_is_connection(ctx, exp)
    # 7. ConnectionEdges._get_edges boundary clears (negated list)
    f = ctx.index.func(f"{MT}.EdgeSubsets.ConnectionEdges._get_edges")
    clears = [s for s in ast.walk(f.node) if isinstance(s, ast.Assign) and isinstance(s.targets[0], ast.Subscript) and isinstance(s.value, ast.Constant) and s.value.value is False]
    forms = sorted(tuple(N.slice_form(p) for p in N.subscript_parts(s.targets[0])) for s in clears)
    full = ("slice", None, None, None)
    m1 = ("idx", N.aff_key(N.affine(ast.Constant(-1))))
    want = sorted([(("idx", N.aff_key(N.affine(ast.Constant(0)))), m1, full), (("idx", N.aff_key(N.affine(ast.Constant(1)))), full, m1)])
    neg = [c for c in X.calls(f.node) if dotted_of(c.func) in ("np.logical_not", "numpy.logical_not")]
    ctx.judge(f, forms == want and len(neg) == 1, {"clears": [X.U(s) for s in clears], "negation": X.U(neg[0]) if neg else None},
              "the wall list = not(connection_list) with [0, -1, :] and [1, :, -1] cleared (a fresh array: logical_not copies)",
              "walls outside the grid are listed / real walls on the last row or column are dropped")
    # 11. lattice_connection_array
    f = ctx.index.func(f"{UT}.lattice_connection_array")
    stacks = [c for c in X.calls(f.node) if dotted_of(c.func) in ("np.column_stack", "numpy.column_stack")]
    n_ok = 0
    kinds = set()
    for c in stacks:
        el = [X.U(e).replace(" ", "") for e in c.args[0].elts] if c.args and isinstance(c.args[0], ast.Tuple) else []
        if el == ["row_coords[:,:-1].ravel()", "col_coords[:,:-1].ravel()", "row_coords[:,1:].ravel()", "col_coords[:,1:].ravel()"]:
            kinds.add("horizontal")
        elif el == ["row_coords[:-1,:].ravel()", "col_coords[:-1,:].ravel()", "row_coords[1:,:].ravel()", "col_coords[1:,:].ravel()"]:
            kinds.add("vertical")
    mg = [c for c in X.calls(f.node) if dotted_of(c.func) in ("np.meshgrid", "numpy.meshgrid")]
    ij = bool(mg) and isinstance(N.kwarg(mg[0], "indexing"), ast.Constant) and N.kwarg(mg[0], "indexing").value == "ij"
    # a form this rule does not read (helpers, index tuples, another construction) is unrecognised, not rejected: V9 decides the function on every n up to its bound
    ctx.judge(f, (True if ij else False) if kinds == {"horizontal", "vertical"} and len(stacks) == 2 else None, {"edge_kinds": sorted(kinds), "meshgrid_ij": ij},
              "all lattice edges = every (r, c)-(r, c+1) and (r, c)-(r+1, c) pair, lesser endpoint first, 'ij' indexing",
              "AllLatticeEdges tokenizers enumerate non-edges or miss a row/column of edges")


def rule_V2(ctx: Ctx) -> None:
    from sa.rules.c02 import rule_S2 as _s2  # get_coord_neighbors filter (same extractor)
    _s2(ctx)
    f = ctx.index.func(f"{LM}.LatticeMaze.gen_connected_component_from")
    loops = [n for n in f.node.body if isinstance(n, ast.While)]
    exp = ("component search: stack starts as [c]; each popped node is added to visited; its get_coord_neighbors are pushed iff not visited; "
           "all visited nodes are returned")
    if len(loops) != 1:
        ctx.unknown(f, {"loops": len(loops)}, exp)
        return
    lp = loops[0]
    subj = X.nonempty_subject(lp.test)
    st = X.U(subj) if subj is not None else X.U(lp.test)
    pop = [s for s in lp.body if isinstance(s, (ast.Assign, ast.AnnAssign)) and X.U(s.value) == f"{st}.pop()"]
    cur = X.U(pop[0].targets[0] if isinstance(pop[0], ast.Assign) else pop[0].target) if pop else None
    vis_add = [s for s in lp.body if isinstance(s, ast.Expr) and isinstance(s.value, ast.Call) and X.U(s.value.func).endswith(".add") and cur and f"tuple({cur})" == X.U(s.value.args[0])]
    vname = X.U(vis_add[0].value.func)[:-4] if vis_add else None
    # expansion: a loop over self.get_coord_neighbors(cur) (directly or through a local) that pushes exactly the unvisited ones
    nb = []
    push_ok = False
    for n in ast.walk(lp):
        if isinstance(n, ast.For) and cur and X.same_expr_x(n.iter, f.node, f"self.get_coord_neighbors({cur})", keep=(cur,)):
            nb.append(n)
            v = X.U(n.target)
            if len(n.body) == 1 and isinstance(n.body[0], ast.If) and not n.body[0].orelse and X.U(n.body[0].test) == f"tuple({v}) not in {vname}" \
                    and [X.U(s) for s in n.body[0].body] == [f"{st}.append({v})"]:
                push_ok = True
    init = X.assignments_to(f.node, st)
    init_ok = len(init) == 1 and X.U(init[0]) == f"[{f.params()[1]}]"
    rets = X.returns_of(f.node)
    ret_ok = len(rets) == 1 and vname is not None and X.same_expr(rets[0].value, f"np.array(list({vname}))")
    ctx.judge(f, bool(pop) and bool(vis_add) and bool(nb) and push_ok and init_ok and ret_ok,
              {"stack": st, "visited": vname, "expands_via": X.U(nb[0].iter) if nb else None, "push_guard_ok": push_ok, "returns": X.U(rets[0].value) if rets else None}, exp,
              "the component misses reachable cells or includes unreachable ones")


def rule_V3(ctx: Ctx) -> None:
    """is_valid_path by abstract evaluation: an abstract 2x3 maze whose connectivity is a symbolic oracle; candidate paths that are
    empty, single-cell, valid, broken at the first / middle / last step, and out of bounds on one axis only (low and high)"""
    from sa.absnp import MODELS, Arr
    from sa.fold import EvalRaised, Evaluator, Obj, Unknown

    f = ctx.index.func(f"{LM}.LatticeMaze.is_valid_path")
    pp = f.params()
    connected = {((0, 0), (0, 1)), ((0, 1), (1, 1)), ((1, 1), (1, 2)), ((1, 1), (1, 0))}

    def conn(a, b):
        a, b = tuple(a.data if isinstance(a, Arr) else a), tuple(b.data if isinstance(b, Arr) else b)
        return (a, b) in connected or (b, a) in connected

    def hook(ev, node, env):
        d = dotted_of(node.func) or ""
        if d in MODELS:
            args = [ev.ev(a, env) for a in node.args]
            kw = {k.arg: ev.ev(k.value, env) for k in node.keywords if k.arg}
            try:
                return MODELS[d](*args, **kw)
            except (ValueError, IndexError) as e:
                raise EvalRaised(type(e).__name__, str(e))
            except Exception as e:
                raise Unknown(f"model of {d}: {e}")
        if d.endswith("nodes_connected") and len(node.args) == 2:
            return conn(ev.ev(node.args[0], env), ev.ev(node.args[1], env))
        return NotImplemented
    me = Obj("maze", {"grid_shape": (2, 3), "grid_n": 2})
    P = lambda *cs: Arr([list(c) for c in cs])
    cases = [("empty", Arr([]), None), ("single cell", P((1, 1)), True), ("valid", P((0, 0), (0, 1), (1, 1), (1, 2)), True), ("valid, revisiting", P((1, 1), (1, 0), (1, 1)), True),
             ("broken first step", P((0, 0), (1, 0), (1, 1)), False), ("broken middle step", P((0, 0), (0, 1), (0, 2), (1, 2)), False),
             ("broken last step", P((0, 0), (0, 1), (1, 1), (0, 1), (0, 2)), False), ("non-adjacent jump", P((0, 0), (1, 1)), False),
             ("row too large", P((1, 1), (2, 1)), False), ("column too large (oblong)", P((1, 2), (1, 3)), False), ("row index 2 is outside although a column index 2 exists", P((2, 2),), False),
             ("negative row", P((-1, 0), (0, 0)), False), ("negative column", P((0, -1), (0, 0)), False), ("single cell with a negative row", P((-1, 1)), False),
             ("single cell with a negative column", P((1, -2)), False), ("single cell beyond the last column", P((0, 3)), False)]
    bad, unk = [], []
    for label, path, want in cases:
        for eiv in (False, True):
            w = eiv if want is None else want
            try:
                got = Evaluator({"__call__": hook}).run_body(X.body_wo_doc(f.node), {pp[0]: me, pp[1]: path.copy(), pp[2]: eiv})
            except EvalRaised as e:
                got = f"raises {e.exc_name}"
            except Unknown as e:
                unk.append(f"{label}: {e}"[:140])
                continue
            if isinstance(got, str) or bool(got) is not w:
                bad.append({"path": label, "empty_is_valid": eiv, "found": got, "expected": w})
    ctx.judge(f, False if bad else None if unk else True, {"cases": 2 * len(cases), "deviations": bad[:3], "undecided": unk[:2]},
              "is_valid_path: empty -> empty_is_valid; any coordinate outside [0, grid_shape) on its own axis -> False; every consecutive pair must be connected; else True",
              "a path with an out-of-grid cell or a step along a wall is accepted (or a valid one rejected)")


def rule_V4(ctx: Ctx) -> None:
    """forking / path-following points by abstract evaluation: solutions of 1..4 symbolic cells, every vector of cell degrees in
    {1,2,3}^len, both settings of always_include_endpoints; the neighbour query is a symbolic oracle returning `degree` rows"""
    import itertools

    from sa.absnp import MODELS, Arr
    from sa.fold import EvalRaised, Evaluator, Obj, Unknown

    f = ctx.index.func(f"{LM}.SolvedMaze.get_solution_forking_points")
    g = ctx.index.func(f"{LM}.SolvedMaze.get_solution_path_following_points")

    def np_delete(arr, idxs, axis=0):
        d = arr.data if isinstance(arr, Arr) else list(arr)
        drop = set(idxs.data if isinstance(idxs, Arr) else idxs)
        return Arr([x for i, x in enumerate(d) if i not in drop])
    models = {**MODELS, "np.delete": np_delete, "np.arange": lambda n, *a, **k: Arr(list(range(int(n))))}

    def run(fn, self_obj, args, degrees, depth=0):
        def hook(ev, node, env):
            d = dotted_of(node.func) or ""
            if d in models:
                a_ = [ev.ev(x, env) for x in node.args]
                kw = {k.arg: ev.ev(k.value, env) for k in node.keywords if k.arg}
                try:
                    return models[d](*a_, **kw)
                except (ValueError, IndexError) as e:
                    raise EvalRaised(type(e).__name__, str(e))
                except Exception as e:
                    raise Unknown(f"model of {d}: {e}")
            if d.endswith(".get_coord_neighbors") and len(node.args) == 1:
                c = ev.ev(node.args[0], env)
                key = tuple(c.data) if isinstance(c, Arr) else tuple(c)
                return Arr([[0, 0]] * degrees[key])
            if d.endswith(".get_solution_forking_points") and depth < 2:
                a_ = [ev.ev(x, env) for x in node.args]
                kw = {k.arg: ev.ev(k.value, env) for k in node.keywords if k.arg}
                pf = f.params()
                dflt = f.param_default(pf[1])
                v = a_[0] if a_ else kw.get(pf[1], dflt.value if isinstance(dflt, ast.Constant) else False)
                return run(f, self_obj, [v], degrees, depth + 1)
            return NotImplemented
        env = dict(zip(fn.params(), [self_obj, *args]))
        return Evaluator({"__call__": hook}).run_body(X.body_wo_doc(fn.node), env)

    bad_f, bad_g, unk = [], [], []
    n_cases = 0
    for n in (1, 2, 3, 4):
        cells = [(k, k + 10) for k in range(n)]
        for degs in itertools.product((1, 2, 3), repeat=n):
            degrees = dict(zip(cells, degs))
            me = Obj("self", {"solution": Arr([list(c) for c in cells])})
            for always in (False, True):
                n_cases += 1
                want = [i for i in range(n) if degs[i] > (1 if i in (0, n - 1) else 2) or (i in (0, n - 1) and always)]
                try:
                    got = run(f, me, [always], degrees)
                    gi = got[0] if isinstance(got, (tuple, list)) and len(got) == 2 else got
                    gi = list(gi.data if isinstance(gi, Arr) else gi)
                    gc = got[1]
                    gc = gc.data if isinstance(gc, Arr) else gc
                    okc = [tuple(x.data if isinstance(x, Arr) else x) for x in (gc or [])] == [cells[i] for i in want]
                except EvalRaised as e:
                    gi, okc = f"raises {e.exc_name}", False
                except Unknown as e:
                    unk.append(str(e)[:140])
                    continue
                if (gi != want or not okc) and len(bad_f) < 3:
                    bad_f.append({"degrees": list(degs), "always_include_endpoints": always, "fork_indices": gi, "expected": want})
            try:
                got = run(g, me, [], degrees)
                fi = got[0]
                fi = list(fi.data if isinstance(fi, Arr) else fi)
                want_f = [i for i in range(n) if not (degs[i] > (1 if i in (0, n - 1) else 2))]
                fc = got[1]
                fc = [tuple(x) for x in (fc.data if isinstance(fc, Arr) else fc)]
                if (fi != want_f or fc != [cells[i] for i in want_f]) and len(bad_g) < 3:
                    bad_g.append({"degrees": list(degs), "following_indices": fi, "expected": want_f})
            except EvalRaised as e:
                if len(bad_g) < 3:
                    bad_g.append({"degrees": list(degs), "raises": e.exc_name})
            except Unknown as e:
                unk.append("following: " + str(e)[:120])
    u_f = [u for u in unk if not u.startswith("following")]
    u_g = [u for u in unk if u.startswith("following")]
    ctx.judge(f, False if bad_f else None if u_f else True, {"cases": n_cases, "deviations": bad_f, "undecided": u_f[:2]},
              "a solution cell is a fork iff it has more than (1 if endpoint else 2) connected neighbours, i.e. more than one onward choice (endpoints also when forced in)",
              "forks are counted with the wrong threshold: dead-end corridors become forks or real forks are missed")
    ctx.judge(g, False if bad_g else None if u_g else True, {"deviations": bad_g, "undecided": u_g[:2]},
              "path-following points = the solution with exactly the forking indices (default arguments) deleted: a partition by construction",
              "the two index sets overlap or leave cells out")


def rule_V5(ctx: Ctx) -> None:
    f = ctx.index.func(f"{TU}.connection_list_to_adj_list")
    n = X.assignments_to(f.node, "n_connections")
    alloc = X.assignments_to(f.node, "adj_list")
    loops = [x for x in ast.walk(f.node) if isinstance(x, ast.For) and isinstance(x.iter, ast.Call) and dotted_of(x.iter.func) in ("np.ndindex", "numpy.ndindex")]
    ok = None
    slot = {}
    if len(loops) == 1:
        lp = loops[0]
        guard = [g for g in lp.body if isinstance(g, ast.If)]
        inc = [a for a in ast.walk(lp) if isinstance(a, ast.AugAssign) and isinstance(a.target, ast.Name)]
        ctr = inc[0].target.id if inc else None
        init = X.assignments_to(f.node, ctr) if ctr else []
        init0 = [d for d in init if not isinstance(d, ast.BinOp)]
        in_guard = bool(guard) and bool(inc) and inc[0] in list(ast.walk(guard[0])) and inc[0] in guard[0].body
        rows = [s for s in ast.walk(lp) if isinstance(s, ast.Assign) and isinstance(s.targets[0], ast.Subscript) and X.U(s.targets[0].value) == "adj_list"]
        rows_ok = all(X.U(N.subscript_parts(s.targets[0])[0]) == ctr for s in rows)
        ok = len(inc) == 1 and isinstance(inc[0].op, ast.Add) and N.const_int(inc[0].value) == 1 and in_guard and len(init0) == 1 and N.const_int(init0[0]) == 0 \
            and rows_ok and X.U(lp.iter.args[0]) == "conn_list.shape" and len(n) == 1 and X.U(n[0]) in ("conn_list.sum()", "np.sum(conn_list)")
        slot = {"counter": ctr, "increment": X.U(inc[0]) if inc else None, "increment_inside_guard": in_guard, "n_connections": X.U(n[0]) if n else None}
    ctx.judge(f, ok, slot, "one adjacency row per true entry of the connection list: the row counter starts at 0 and advances by exactly one per listed connection",
              "connections are skipped or listed twice (rows left at the -1 fill value)")
    flips = [x for x in ast.walk(f.node) if isinstance(x, ast.If) and "flip_d1" in X.U(x.test)]
    ctx.judge(f, all("shuffle_d1" in X.U(x.test) for x in flips) and len(flips) == 1, {"flip_guards": [X.U(x.test) for x in flips]},
              "the orientation flip only happens under shuffle_d1 (either orientation lists the same edge)")


def rule_V6(ctx: Ctx) -> None:
    f = ctx.index.func(f"{LM}.LatticeMaze.get_nodes")
    mg = [c for c in X.calls(f.node) if dotted_of(c.func) in ("np.meshgrid", "numpy.meshgrid")]
    ok = None
    slot = {}
    if len(mg) == 1:
        a = [X.U(x) for x in mg[0].args]
        ij = N.kwarg(mg[0], "indexing")
        ok = a == ["range(self.grid_shape[0])", "range(self.grid_shape[1])"] and isinstance(ij, ast.Constant) and ij.value == "ij"
        slot = {"meshgrid": X.U(mg[0])}
        st = [c for c in X.calls(f.node) if dotted_of(c.func) in ("np.vstack", "numpy.vstack", "np.column_stack", "np.stack")]
        ok = ok and len(st) == 1 and "rows.ravel()" in X.U(st[0]) and X.U(st[0]).index("rows.ravel()") < X.U(st[0]).index("cols.ravel()")
    ctx.judge(f, ok, slot, "get_nodes lists every (row, col) with row < grid_shape[0], col < grid_shape[1] exactly once, rows first",
              "the node list is transposed or misses a row/column on oblong grids")


def rule_V7(ctx: Ctx) -> None:
    f = ctx.index.func(f"{UT}.manhattan_distance")
    rs = X.returns_of(f.node)
    ok = len(rs) == 2 and X.same_expr(rs[0].value, "np.linalg.norm(edges[:, 0, :] - edges[:, 1, :], axis=1, ord=1).astype(np.int8)") \
        and X.same_expr(rs[1].value, "np.linalg.norm(edges[0, :] - edges[1, :], ord=1).astype(np.int8)")
    ctx.judge(f, True if ok else None, {"returns": [X.U(r.value)[:90] for r in rs]}, "manhattan_distance = L1 norm (ord=1) of the difference of the two coordinates, per edge (axis 1) or for a single edge",
              "another norm / axis: distances of diagonal or multi-edge arrays are wrong")
    g = ctx.index.func(f"{UT}.lattice_max_degrees")
    init = X.assignments_to(g.node, "out")
    augs = [a for a in ast.walk(g.node) if isinstance(a, ast.AugAssign)]
    forms = sorted((tuple(N.slice_form(p) for p in N.subscript_parts(a.target)) for a in augs if isinstance(a.target, ast.Subscript)), key=repr)
    inner = ("slice", N.aff_key(N.affine(ast.Constant(1))), N.aff_key(N.affine(ast.Constant(-1))), None)
    full = ("slice", None, None, None)
    ok = len(init) == 1 and X.same_expr(init[0], "np.full((n, n), 2)") and forms == sorted([(inner, full), (full, inner)], key=repr) \
        and all(isinstance(a.op, ast.Add) and N.const_int(a.value) == 1 for a in augs)
    ctx.judge(g, True if ok else None, {"init": X.U(init[0]) if init else None, "increments": [X.U(a) for a in augs]},
              "maximum degree: 2 at corners, +1 for every axis along which the cell is interior")   # another form: unrecognised, decided by V9


def _query_deviations(ac, shape, es, limit=3, which=None, component_once=False):
    """interpret the graph queries of LatticeMaze on one abstract maze and compare each answer with the edge set (sa.absmaze oracles);
    returns (number of interpreted calls, deviations, undecided)"""
    from sa import absmaze as AM
    from sa.absnp import Arr
    from sa.fold import EvalRaised, Unknown

    me = AM.maze_obj(shape, es)
    adj = AM.adjacency(es)
    cells = AM.cells(shape)
    bad: list = []
    unk: list = []
    n = 0

    def run(name, args, want, show=None, conv=lambda v: v):
        nonlocal n
        if unk or (which is not None and name not in which):
            return
        n += 1
        try:
            got = conv(ac.call(me, name, args))
        except EvalRaised as e:
            got = f"raises {e.exc_name}"
        except Unknown as e:
            unk.append(f"{name}: {e}"[:160])
            return
        except Exception as e:   # a conversion of an unexpected result shape
            got = f"unexpected result ({type(e).__name__})"
        if got != want and len(bad) < limit:
            bad.append({"grid": list(shape), "edges": sorted(es), "query": f"{name}({show if show is not None else ''})", "found": repr(got)[:100], "expected": repr(want)[:100]})
    for a in cells:
        for b in cells:
            want = (a, b) in es or (b, a) in es
            run("nodes_connected", [AM.coord(a), AM.coord(b)], want, f"{a}, {b}", conv=lambda v: bool(v) if isinstance(v, (bool, int)) else v)
        run("get_coord_neighbors", [AM.coord(a)], sorted(adj.get(a, ())), f"{a}", conv=lambda v: sorted(AM.as_cells(v)))
        comp = sorted(AM.bfs(es, a))
        run("gen_connected_component_from", [AM.coord(a)], comp, f"{a}", conv=(lambda v: sorted(AM.as_cells(v))) if component_once else (lambda v: sorted(set(AM.as_cells(v)))))
    run("coord_degrees", [], [[len(adj.get((i, j), ())) for j in range(shape[1])] for i in range(shape[0])], conv=lambda v: v.data if isinstance(v, Arr) else v)
    run("get_nodes", [], cells, conv=lambda v: sorted(AM.as_cells(v)))
    run("as_adj_list", [False, False], sorted(tuple(sorted(e)) for e in es), "False, False", conv=lambda v: sorted(tuple(sorted(map(tuple, pair))) for pair in (v.data if isinstance(v, Arr) else v)))
    # rebuilding from the adjacency list (square grids; precondition of the statement: the highest row and column index occur in a connection)
    if shape[0] == shape[1] and es and max(max(a[0], b[0]) for a, b in es) == shape[0] - 1 and max(max(a[1], b[1]) for a, b in es) == shape[1] - 1:
        adj_arr = Arr([[list(a), list(b)] for a, b in sorted(es)])
        run("from_adj_list", [adj_arr], AM.connection_list(shape, es).data, "as_adj_list()",
            conv=lambda v: [[[bool(c_) for c_ in r_] for r_ in l_] for l_ in v.attrs["connection_list"].data] if hasattr(v, "attrs") else v)
    # candidate paths: empty, single cells, every ordered pair, walks of three cells, cells outside the grid
    r, c = shape
    paths = [([], None)] + [([a], True) for a in cells[:2]]
    for a in cells:
        for b in cells:
            paths.append(([a, b], (a, b) in es or (b, a) in es))
    for a in cells:
        for b in sorted(adj.get(a, ())):
            for d in cells[:4]:
                paths.append(([a, b, d], (b, d) in es or (d, b) in es))
    outside = [(-1, 0), (0, -1), (r, 0), (0, c), (r - 1, c), (r, c - 1)]
    for o in outside:
        paths.append(([o, (0, 0)], False))
        paths.append(([(r - 1, c - 1), o], False))
        paths.append(([o], False))
    for pth, want in paths:
        if not pth:
            run("is_valid_path", [Arr([]), True], True, "[], empty_is_valid=True")
            run("is_valid_path", [Arr([]), False], False, "[], empty_is_valid=False")
            continue
        run("is_valid_path", [Arr([list(x) for x in pth])], want, f"{pth}", conv=lambda v: bool(v) if isinstance(v, (bool, int)) else v)
    return n, bad, unk


def neighbour_queries_rule(rule_id: str, supersedes: list[str], whole_rules: list[str], component_once: bool = False, which: set | None = None):
    """for properties that rely on the neighbour / component queries (C02 solver expansion, C03 endpoint sampling): the same bounded
    semantic check restricted to nodes_connected / get_coord_neighbors / gen_connected_component_from, superseding their structural re-judgements"""
    def run(ctx: Ctx) -> None:
        from sa import absmaze as AM
        from sa.absnp import MODELS
        from sa.absobj import AbstractClass

        graphs = list(AM.all_graphs(2, 2)) + list(AM.all_graphs(2, 3)) + list(AM.all_graphs(3, 2)) + AM.sampled_graphs(3, 3, 48 if ctx.tier != "thorough" else 600)
        ac = AbstractClass(ctx.index, f"{LM}.LatticeMaze", extra_calls={**MODELS, **{k_: (lambda **kw: __import__("sa.fold", fromlist=["Obj"]).Obj("LatticeMaze", dict(kw))) for k_ in ("cls", "LatticeMaze")}}, max_steps=60_000)
        qs = which or {"nodes_connected", "get_coord_neighbors", "gen_connected_component_from"}
        res = AM.parallel_map(lambda g: _query_deviations(ac, g[0], g[1], which=qs, component_once=component_once), graphs)
        n_calls = sum(r[0] for r in res)
        bad = [b for r in res for b in r[1]]
        unk = [u for r in res for u in r[2]]
        c = ctx.index.cls(f"{LM}.LatticeMaze")
        ctx.judge(c, False if bad else None if unk else True, {"abstract_mazes": len(graphs), "interpreted_queries": n_calls, "deviations": bad[:3], "undecided": unk[:2]},
                  f"on every abstract maze, {', '.join(sorted(qs))} answer exactly what the edge set says"
                  + (" (each reachable cell listed exactly once)" if component_once else ""),
                  "the neighbour / component query describes another graph than the connection structure")
        if not bad and not unk:
            q = f"{LM}.LatticeMaze."
            ctx.cover([q + n_ for n_ in sorted(qs)], by=ctx.current_rule, supersedes=sorted({*supersedes, ctx.current_rule}), whole_rules=whole_rules,
                      bound=f"{len(graphs)} abstract mazes (every edge set of 2x2, 2x3, 3x2; sampled 3x3), {n_calls} interpreted queries")
    return run


def rule_V8(ctx: Ctx) -> None:
    """bounded semantic check (E15): the graph queries are interpreted on abstract mazes - every edge set of the 2x2 grid, of the 2x3 and of the 3x2 grid (oblong both ways)
    and a structured sample on 3x3 (thorough tier: every edge set of 3x3 as well, and samples on 2x4 / 4x2 / 4x3 / 3x4) - and each answer is compared with the edge set itself"""
    from sa import absmaze as AM
    from sa.absnp import MODELS
    from sa.absobj import AbstractClass

    thorough = ctx.tier == "thorough"
    graphs = list(AM.all_graphs(2, 2)) + list(AM.all_graphs(2, 3)) + list(AM.all_graphs(3, 2))
    if thorough:
        graphs += list(AM.all_graphs(3, 3)) + AM.sampled_graphs(2, 4, 120) + AM.sampled_graphs(4, 2, 120) + AM.sampled_graphs(4, 3, 120) + AM.sampled_graphs(3, 4, 120)
    else:
        graphs += AM.sampled_graphs(3, 3, 48)
    ac = AbstractClass(ctx.index, f"{LM}.LatticeMaze", extra_calls={**MODELS, **{k_: (lambda **kw: __import__("sa.fold", fromlist=["Obj"]).Obj("LatticeMaze", dict(kw))) for k_ in ("cls", "LatticeMaze")}}, max_steps=60_000)
    res = AM.parallel_map(lambda g: _query_deviations(ac, g[0], g[1]), graphs)
    n_calls = sum(r[0] for r in res)
    bad = [b for r in res for b in r[1]]
    unk = [u for r in res for u in r[2]]
    c = ctx.index.cls(f"{LM}.LatticeMaze")
    ctx.judge(c, False if bad else None if unk else True, {"abstract_mazes": len(graphs), "interpreted_queries": n_calls, "deviations": bad[:3], "undecided": unk[:2]},
              "on every abstract maze: nodes_connected (all ordered cell pairs), get_coord_neighbors, gen_connected_component_from, coord_degrees, get_nodes, as_adj_list and "
              "is_valid_path (empty, single, all pairs, three-cell walks, cells outside the grid) answer exactly what the edge set says",
              "a query describes another graph than the connection structure (a direction, a boundary, the lesser-endpoint rule or adjacency test is off)")
    if not bad and not unk:
        q = f"{LM}.LatticeMaze."
        ctx.cover([q + n_ for n_ in ("nodes_connected", "get_coord_neighbors", "gen_connected_component_from", "coord_degrees", "get_nodes", "is_valid_path")],
                  by="C13.V8", supersedes=["C13.V1", "C13.V2", "C13.V3", "C13.V6"], whole_rules=["C13.V2", "C13.V3", "C13.V6"],
                  bound=f"{len(graphs)} abstract mazes (every edge set of 2x2, 2x3, 3x2{', 3x3' if thorough else ''}; samples beyond), {n_calls} interpreted queries")


def rule_V9(ctx: Ctx) -> None:
    """bounded semantic check of the module-level lattice helpers: `lattice_connection_array(n)` and `lattice_max_degrees(n)` are interpreted on abstract
    arrays for every n up to the bound and compared with the lattice itself (every horizontal and vertical neighbour pair once, lesser endpoint first;
    number of in-grid neighbours of each cell)"""
    from sa.absnp import MODELS, Arr
    from sa.absobj import make_name_hook
    from sa.fold import EvalRaised, Evaluator, Unknown

    top = 7 if ctx.tier == "thorough" else 5
    fe = ctx.index.func(f"{UT}.lattice_connection_array")
    fd = ctx.index.func(f"{UT}.lattice_max_degrees")

    def hooks_for(fn):
        h: dict = {}

        def call_hook(ev, node, env):
            d = dotted_of(node.func) or ""
            if d in MODELS:
                try:
                    return MODELS[d](*ev._elts(node.args, env), **{k.arg: ev.ev(k.value, env) for k in node.keywords if k.arg})
                except (Unknown, EvalRaised):
                    raise
                except Exception as e:
                    raise Unknown(f"model of {d}: {e}")
            return NotImplemented
        h["__call__"] = call_hook
        h["__name__"] = make_name_hook(ctx.index, fn.module, lambda: h)
        return h

    def interpret(fn, n):
        try:
            return Evaluator(hooks_for(fn), max_steps=400_000).run_body(X.body_wo_doc(fn.node), {fn.params()[0]: n}), None
        except EvalRaised as e:
            return f"raises {e.exc_name}", None
        except Unknown as e:
            return None, str(e)[:160]

    bad, unk, runs = [], [], 0
    for n in range(1, top + 1):
        got, u = interpret(fe, n)
        runs += 1
        if u is not None:
            unk.append(f"lattice_connection_array({n}): {u}")
            break
        want = sorted([((r, c), (r, c + 1)) for r in range(n) for c in range(n - 1)] + [((r, c), (r + 1, c)) for r in range(n - 1) for c in range(n)])
        try:
            rows = got.data if isinstance(got, Arr) else got
            found = sorted((tuple(int(x) for x in e[0]), tuple(int(x) for x in e[1])) for e in rows)
            if any(len(e) != 2 or len(e[0]) != 2 or len(e[1]) != 2 for e in rows):
                found = "not an array of shape (edges, 2, 2)"
        except Exception:
            found = repr(got)[:80]
        if found != want:
            bad.append({"call": f"lattice_connection_array({n})", "found": repr(found)[:140], "expected": repr(want)[:140]})
            break
    ctx.judge(fe, False if bad else None if unk else True, {"interpreted_n": list(range(1, top + 1)), "deviations": bad[:2], "undecided": unk[:1]},
              "lattice_connection_array(n) lists every horizontal and vertical neighbour pair of the n x n grid exactly once, lesser endpoint first, and nothing else",
              "AllLatticeEdges tokenizers enumerate non-edges, repeat an edge or miss a row / column of edges")
    e_ok = not bad and not unk
    bad, unk = [], []
    for n in range(2, top + 1):   # n = 1 is outside the function's documented domain (a 1 x 1 grid has no neighbours)
        got, u = interpret(fd, n)
        runs += 1
        if u is not None:
            unk.append(f"lattice_max_degrees({n}): {u}")
            break
        want = [[sum(1 for dr, dc in ((0, 1), (0, -1), (1, 0), (-1, 0)) if 0 <= r + dr < n and 0 <= c + dc < n) for c in range(n)] for r in range(n)]
        found = got.data if isinstance(got, Arr) else got
        if found != want:
            bad.append({"call": f"lattice_max_degrees({n})", "found": repr(found)[:140], "expected": repr(want)[:140]})
            break
    ctx.judge(fd, False if bad else None if unk else True, {"interpreted_n": list(range(2, top + 1)), "deviations": bad[:2], "undecided": unk[:1]},
              "lattice_max_degrees(n)[r, c] = number of neighbours of (r, c) inside the n x n grid",
              "degree-based classifications (dead ends, forks, full-degree cells) are taken against the wrong maximum")
    d_ok = not bad and not unk
    # manhattan_distance: one edge (shape (2, 2)) and arrays of edges (shape (k, 2, 2)) over every ordered pair of cells of a 3 x 4 window
    fm = ctx.index.func(f"{UT}.manhattan_distance")
    bad, unk = [], []
    cells_ = [(r, c) for r in range(3) for c in range(4)]
    pairs = [(a, b) for a in cells_ for b in cells_]

    def interp_m(arg):
        try:
            return Evaluator(hooks_for(fm), max_steps=400_000).run_body(X.body_wo_doc(fm.node), {fm.params()[0]: arg}), None
        except EvalRaised as e:
            return f"raises {e.exc_name}", None
        except Unknown as e:
            return None, str(e)[:160]

    def num(v):
        v = v.data if isinstance(v, Arr) else v
        return [num(x) for x in v] if isinstance(v, list) else (int(v) if isinstance(v, (int, float)) and v == int(v) else v)
    for a, b in pairs[:: 1 if ctx.tier == "thorough" else 5]:
        got, u = interp_m(Arr([list(a), list(b)]))
        runs += 1
        if u is not None:
            unk.append(f"manhattan_distance([{a}, {b}]): {u}")
            break
        want = abs(a[0] - b[0]) + abs(a[1] - b[1])
        if num(got) != want:
            bad.append({"call": f"manhattan_distance([{a}, {b}])", "found": repr(num(got))[:60], "expected": want})
            break
    if not bad and not unk:
        got, u = interp_m(Arr([[list(a), list(b)] for a, b in pairs]))
        runs += 1
        want = [abs(a[0] - b[0]) + abs(a[1] - b[1]) for a, b in pairs]
        if u is not None:
            unk.append(f"manhattan_distance(<{len(pairs)} edges>): {u}")
        elif num(got) != want:
            bad.append({"call": f"manhattan_distance(<all {len(pairs)} ordered cell pairs of a 3 x 4 window>)", "found": repr(num(got))[:100], "expected": repr(want)[:100]})
    ctx.judge(fm, False if bad else None if unk else True, {"cell_pairs": len(pairs), "deviations": bad[:2], "undecided": unk[:1]},
              "manhattan_distance = |row difference| + |column difference|, for one edge and per edge of an array of edges",
              "step sizes / distances between cells are measured in another norm or along the wrong axis")
    m_ok = not bad and not unk
    cov = ([f"{UT}.lattice_connection_array"] if e_ok else []) + ([f"{UT}.lattice_max_degrees"] if d_ok else []) + ([f"{UT}.manhattan_distance"] if m_ok else [])
    if cov:
        ctx.cover(cov, by="C13.V9", supersedes=["C13.V1", "C13.V7"], bound=f"every n from 1 to {top}, {runs} interpreted calls")


RULES = [
    Rule("C13.V1", rule_V1, floor=9, doc="one convention, site by site"),
    Rule("C13.V2", rule_V2, floor=3, doc="neighbours and component expansion"),
    Rule("C13.V3", rule_V3, floor=1, doc="path validation"),
    Rule("C13.V4", rule_V4, floor=2, doc="fork partition"),
    Rule("C13.V5", rule_V5, floor=2, doc="adjacency list once per edge"),
    Rule("C13.V6", rule_V6, floor=1, doc="node list"),
    Rule("C13.V7", rule_V7, floor=2, doc="manhattan_distance and lattice_max_degrees"),
    Rule("C13.V8", rule_V8, floor=1, doc="bounded semantic check: graph queries interpreted on abstract mazes vs the edge set"),
    Rule("C13.V9", rule_V9, floor=3, doc="bounded semantic check: lattice_connection_array / lattice_max_degrees interpreted for every small n vs the lattice; manhattan_distance on every cell pair of a window"),
]

from sa import dims as _dims  # noqa: E402

RULES.append(Rule("C13.AX", _dims.make_rule("C13", "C13.AX"), floor=1,
                  doc="axis-extent agreement: coordinate components are bounded by the extent of their own axis (E13)"))

from sa import exits as _exits  # noqa: E402

RULES.append(Rule("C13.RX", _exits.make_rule("C13", "C13.RX", _exits.SCOPES["C13"]), floor=1,
                  doc="rejection conditions: the anchored functions refuse inputs only under the conditions confirmed on the pinned tree (E16)"))

from sa import exits as _exits_ms  # noqa: E402

RULES.append(Rule("C13.MS", _exits_ms.make_state_rule("C13", "C13.MS", _exits_ms.SCOPES.get("C13", [])), floor=1,
                  doc="no hidden module-level state on the anchored path: results do not depend on the history of the process (E17)"))

from sa import exits as _exits_nw  # noqa: E402

RULES.append(Rule("C13.NW", _exits_nw.make_narrowing_rule("C13", "C13.NW", _exits_nw.SCOPES.get("C13", [])), floor=1,
                  doc="no new narrowing cast (8/16-bit element types) on the anchored path: coordinates, lengths and indices do not wrap (E18)"))
