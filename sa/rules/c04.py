"""C04 -- serial dataset generation is a pure function of the configuration

Clauses: E1 RNG source discipline over the call-graph closure of the generation helper (only
sources that a config reseeds); E2 the reseed dominates generation; E3 nothing consumes randomness
between the reseed and the first draw; E4 ownership of the configuration (the caller's cfg is never
mutated, the dataset gets the fresh copy); E5 filters from the config applied in order.
"""

from __future__ import annotations

import ast
import os

from sa import astx as X
from sa import normal as N
from sa.callgraph import CallGraph
from sa.cfg import build_cfg
from sa.dcmodel import DataclassModel
from sa.effects import Effects
from sa.index import AnalysisError, SourceIndex, dotted_of
from sa.report import VERIF_DIR, Ctx, Rule

MD = "maze_dataset.dataset.maze_dataset"
DS = "maze_dataset.dataset.dataset"
HELPER = f"{MD}._generate_maze_helper"
GENERATE = f"{MD}.MazeDataset.generate"

EXPLANATION = (
    "Effect analysis over the call-graph closure of _generate_maze_helper (maze_ctor -> the 5 GENERATORS_MAP targets; "
    "generate_random_path -> solver): every nondeterminism source must be in the class that set_reproducibility (read "
    "from muutils' source) reseeds; CFG dominance of the load(serialize()) reseed over both generation branches and "
    "post-dominance of set_reproducibility in __post_init__; RNG-freedom of the segment in between; parameter-ownership "
    "scan of generate/from_config; order of filter application."
)
ASSUMPTIONS = [
    "numpy legacy global RNG, python `random` and torch are deterministic functions of their seed",
    "sets on the generation path hold tuples of ints (iteration order independent of PYTHONHASHSEED)",
    "the serial branch runs in a process whose multiprocessing identity is () (otherwise _maze_gen_init_worker adds the worker id to the seed)",
]
TRUSTED = ["ast", "muutils 0.6.21 mlutils.set_reproducibility and serializable_dataclass sources (read)"]


def _effects(ctx: Ctx, index: SourceIndex | None = None) -> Effects:
    return Effects(index or ctx.index, ctx.deps.reseeded_rngs())


def _rng_sites(cg: CallGraph, eff: Effects, closure: dict[str, list[str]]):
    for q, path in closure.items():
        for s in cg.sites(q):
            if s.external is None or not isinstance(s.node, ast.Call):
                continue
            cls, detail = eff.classify(s.external)
            if cls in ("RESEEDED", "UNSEEDED"):
                yield q, path, s, cls, detail


def rule_E1(ctx: Ctx) -> None:
    cg = CallGraph(ctx.index)
    eff = _effects(ctx)
    closure = cg.closure([HELPER])
    ctx.stat("functions_reachable_from_generation_helper", len(closure))
    ctx.stat("generators_in_registry", len(cg._generators))
    exp = ("every nondeterminism source reachable from _generate_maze_helper is one that MazeDatasetConfig's reseed covers "
           f"({sorted(eff.reseeded_ns)} global RNGs)")
    for q, path, s, cls, detail in _rng_sites(cg, eff, closure):
        f = ctx.index.functions[q]
        slot = {"call": X.U(s.node)[:90], "callee": s.external, "class": cls, "call_path": [p.rsplit(".", 1)[-1] for p in path]}
        ctx.judge(f, cls == "RESEEDED", slot, exp,
                  f"{detail}: the generated mazes depend on process history, not only on the configuration", node=s.node)
    if len(cg._generators) < 5:
        ctx.unknown(ctx.index.func(HELPER), {"generators": cg._generators}, "GENERATORS_MAP registry with >= 5 targets")
    ctx.stat("callgraph_name_fallbacks", cg.fallbacks)
    # positive fixture: the expected-zero half of the rule must fire on a known-bad example on every run
    fx = SourceIndex(os.path.join(VERIF_DIR, "fixtures", "c04_pkg"), package="fixture_pkg")
    fcg = CallGraph(fx)
    feff = Effects(fx, ctx.deps.reseeded_rngs())
    got = [(s.external, cls) for q, path, s, cls, _ in _rng_sites(fcg, feff, fcg.closure(["fixture_pkg.gen_fixture"]))]
    bad = [g for g in got if g[1] == "UNSEEDED"]
    good = [g for g in got if g[1] == "RESEEDED"]
    if len(bad) < 2 or len(good) != 1:
        raise AnalysisError(f"positive fixture not classified as expected: {got}")
    ctx.note(f"positive fixture fixtures/c04_pkg: {len(bad)} unseeded sources flagged, {len(good)} reseeded accepted")


def rule_E2(ctx: Ctx) -> None:
    f = ctx.index.func(GENERATE)
    g = build_cfg(f.node)
    cfgp = f.params()[1]
    # the reseed statement: X = MazeDatasetConfig.load(cfg.serialize())  (or copy via load/serialize of the same class)
    def is_reload(n):
        return (isinstance(n, ast.Call) and isinstance(n.func, ast.Attribute) and n.func.attr == "load" and n.args
                and X.U(n.args[0]) == f"{cfgp}.serialize()")
    rn = g.nodes_containing(is_reload)
    exp = "a statement `cfg_cpy = <ConfigClass>.load(cfg.serialize())` dominates both generation branches"
    gen_nodes = g.nodes_containing(lambda n: isinstance(n, ast.Name) and n.id == HELPER.rsplit(".", 1)[-1])
    if not rn:
        ctx.violation(f, {"reload_statements": 0}, exp,
                      "generation no longer re-creates the config immediately before drawing: results depend on RNG use since the config was built")
        return
    if len(gen_nodes) < 2:
        ctx.unknown(f, {"generation_sites": len(gen_nodes)}, exp, "expected a serial and a parallel map over the helper")
        return
    dom = all(g.dominates(rn[0], n) for n in gen_nodes)
    call = next(c for c in ast.walk(rn[0].ast) if is_reload(c))
    cls_q = ctx.index.resolve(f.module, dotted_of(call.func.value) or "?", f.cls)
    ctx.judge(f, dom, {"reload": X.U(rn[0].ast)[:100], "generation_sites": len(gen_nodes), "dominates_all": dom, "class": cls_q}, exp,
              "a generation branch can run without the reseeding reload before it", node=rn[0].ast)
    # load -> cls(**kw) -> generated __init__ -> __post_init__ -> set_reproducibility(self.seed) on every normal path
    if not ctx.deps.sdc_load_constructs_with_cls():
        raise AnalysisError("muutils generated `load` no longer ends in cls(**ctor_kwargs)")
    model = DataclassModel(ctx.index, ctx.deps)
    base = ctx.index.cls(cls_q) if cls_q in ctx.index.classes else ctx.index.cls(f"{MD}.MazeDatasetConfig")
    for c in [base, *ctx.index.subclasses(base.qualname)]:
        init = model.effective(c, "__init__")
        pi = model.post_init(c)
        exp2 = "config class: generated __init__ and a __post_init__ that calls set_reproducibility(self.seed) on every non-raising path"
        if init.kind != "generated" or pi is None:
            ctx.violation(c, {"__init__": init.to_json(), "__post_init__": pi.qualname if pi else None}, exp2,
                          "constructing/loading this config does not reseed the RNGs")
            continue
        pg = build_cfg(pi.node)
        def is_seed(n):
            return isinstance(n, ast.Call) and (dotted_of(n.func) or "").endswith("set_reproducibility") and n.args and X.U(n.args[0]) == "self.seed"
        sn = pg.nodes_containing(is_seed)
        sup = pg.nodes_containing(lambda n: isinstance(n, ast.Call) and X.U(n.func) == "super().__post_init__")
        ok = bool(sn or sup) and pg.every_path_to_exit_passes(set(sn + sup), normal_only=True)
        # the seed must be final when used: no store to self.seed after the call
        late = []
        for s_ in sn:
            for n2 in pg.nodes:
                if n2.ast is not None and n2 is not s_ and pg.can_reach(s_, n2) and any(
                        isinstance(t, ast.Assign) and X.U(t.targets[0]) == "self.seed" for t in ast.walk(n2.ast)):
                    late.append(X.U(n2.ast)[:60])
        # a configured seed is only ever replaced when it is None (0 is a seed)
        ppar = X.parents_map(pi.node)
        for st in [n for n in ast.walk(pi.node) if isinstance(n, (ast.Assign, ast.AugAssign)) and X.U(n.targets[0] if isinstance(n, ast.Assign) else n.target) == "self.seed"]:
            gd = ppar.get(st)
            under_none = isinstance(gd, ast.If) and st in gd.body and X.U(gd.test) in ("self.seed is None", "None is self.seed")
            ctx.judge(pi, under_none, {"class": c.qualname, "store": X.U(st)[:100], "guard": X.U(gd.test) if isinstance(gd, ast.If) else None},
                      "the configured seed is replaced by a fresh random one only under `self.seed is None`",
                      "a legitimate seed (e.g. 0, which is falsy) is silently replaced: the same configuration generates different mazes each time it is built", node=st)
        ctx.judge(pi, ok and not late, {"class": c.qualname, "seed_calls": len(sn), "super_calls": len(sup), "on_every_normal_path": ok,
                                        "seed_reassigned_after": late}, exp2,
                  "a path through __post_init__ skips the reseed (or seeds with a value that is changed afterwards)")
    eff = _effects(ctx)
    ctx.judge(f, {"random", "numpy.random"} <= eff.reseeded_ns, {"reseeded_namespaces": sorted(eff.reseeded_ns)},
              "set_reproducibility seeds python `random` and numpy's global RNG (both are drawn from by the generators)")


def rule_E3(ctx: Ctx) -> None:
    f = ctx.index.func(GENERATE)
    g = build_cfg(f.node)
    cg = CallGraph(ctx.index)
    eff = _effects(ctx)
    cfgp = f.params()[1]
    rn = g.nodes_containing(lambda n: isinstance(n, ast.Call) and isinstance(n.func, ast.Attribute) and n.func.attr == "load"
                            and n.args and X.U(n.args[0]) == f"{cfgp}.serialize()")
    helper = HELPER.rsplit(".", 1)[-1]
    serial = [n for n in g.nodes_containing(lambda n: isinstance(n, ast.Call) and dotted_of(n.func) == "map"
                                            and n.args and X.U(n.args[0]) == helper)]
    exp = "no call between the reseed and the serial map(...) over the helper draws from (or replaces) an RNG"
    if not rn or not serial:
        ctx.unknown(f, {"reload": len(rn), "serial_map": len(serial)}, exp)
        return
    seg = [n for n in g.nodes if n.ast is not None and n is not rn[0] and g.can_reach(rn[0], n) and g.can_reach(n, serial[0]) and n is not serial[0]]
    offenders = []
    n_calls = 0
    for n in seg:
        for c in [x for x in ast.walk(n.ast) if isinstance(x, ast.Call)] if n.kind != "with" else [x for it in n.ast.items for x in ast.walk(it.context_expr) if isinstance(x, ast.Call)]:
            n_calls += 1
            d = dotted_of(c.func)
            r = ctx.index.resolve(f.module, d, f.cls) if d else None
            if r in ctx.index.functions:
                cl = cg.closure([r])
                for q, path, s, cls, detail in _rng_sites(cg, eff, cl):
                    offenders.append({"call": X.U(c)[:60], "draw": s.external, "in": q})
            elif r:
                cls, detail = eff.classify(r)
                if cls in ("RESEEDED", "UNSEEDED"):
                    offenders.append({"call": X.U(c)[:60], "draw": r})
    ctx.judge(f, not offenders, {"segment_nodes": len(seg), "calls_examined": n_calls, "rng_consumers": offenders[:5]}, exp,
              "randomness consumed between reseed and generation shifts every maze of the dataset")
    # the serial map iterates the helper over the index array in order (builtin map / list)
    m = next(c for c in ast.walk(serial[0].ast) if isinstance(c, ast.Call) and dotted_of(c.func) == "map")
    idx = m.args[1] if len(m.args) > 1 else None
    d = [X.expand_locals(idx, f.node, keep=("cfg_cpy",))] if idx is not None else []
    ok = len(d) == 1 and isinstance(d[0], ast.Call) and dotted_of(d[0].func) in ("np.arange", "numpy.arange", "range") and len(d[0].args) == 1 and X.U(d[0].args[0]) == "cfg_cpy.n_mazes"
    ctx.judge(f, ok, {"indices": X.U(d[0]) if d else None}, "the helper is mapped over arange(cfg_cpy.n_mazes): exactly n_mazes draws, in index order")


def rule_E4(ctx: Ctx) -> None:
    cg = CallGraph(ctx.index)
    for q in (GENERATE, f"{DS}.GPTDataset.from_config"):
        f = ctx.index.func(q)
        cfgp = f.params()[1]
        st = X.stores_through(f.node, cfgp)
        rebinds = [n for n in N.walk_no_nested_defs(f.node) if isinstance(n, ast.Assign) and any(isinstance(t, ast.Name) and t.id == cfgp for t in n.targets)]
        ctx.judge(f, not st, {"param": cfgp, "stores_through_param": [X.U(s)[:80] for s in st], "rebinds": len(rebinds)},
                  "the configuration object passed in is never the target of an attribute/subscript store or a mutating call",
                  "the caller's configuration object is modified")
        # no callee receives the caller's cfg and mutates it: callees that get `cfg` positionally and store through their param
        for s in cg.sites(q):
            if not isinstance(s.node, ast.Call):
                continue
            passed = [i for i, a in enumerate(s.node.args) if isinstance(a, ast.Name) and a.id == cfgp]
            for t in s.targets:
                tf = ctx.index.functions.get(t)
                if tf is None or not passed:
                    continue
                params = tf.params()
                off = 1 if (tf.cls is not None and not tf.is_static and tf.parent is None) else 0
                for i in passed:
                    if i + off < len(params):
                        pst = X.stores_through(tf.node, params[i + off])
                        if pst and tf.qualname != q:
                            ctx.violation(tf, {"receives": cfgp, "as": params[i + off], "stores": [X.U(x)[:80] for x in pst]},
                                          "callees that receive the caller's configuration do not mutate it",
                                          f"called from {q.rsplit('.', 1)[-1]} with the caller's config")
    # the generated dataset carries the fresh copy
    f = ctx.index.func(GENERATE)
    cfgp = f.params()[1]
    rets = X.returns_of(f.node)
    ok = None
    slot = {}
    if len(rets) == 1 and isinstance(rets[0].value, ast.Call):
        c = N.kwarg(rets[0].value, "cfg") or (rets[0].value.args[0] if rets[0].value.args else None)
        slot["dataset_cfg"] = X.U(c)
        if isinstance(c, ast.Name):
            d = X.assignments_to(f.node, c.id)
            slot["definition"] = [X.U(x)[:80] for x in d]
            ok = c.id != cfgp and len(d) == 1 and isinstance(d[0], ast.Call) and X.U(d[0].func).endswith(".load") and f"{cfgp}.serialize()" in X.U(d[0])
        elif c is not None:
            ok = False if X.U(c) == cfgp else None
    ctx.judge(f, ok, slot, "the returned dataset's cfg is the fresh load(serialize()) copy, never the caller's object",
              "the dataset shares its configuration with the caller: later filters rewrite the caller's config")
    # inner alias: maze_ctor_kwargs is serialised by identity, so the copy shares that dict
    cl = cg.closure([GENERATE, f"{DS}.GPTDataset.from_config"])
    hits = []
    for fq in cl:
        fn = ctx.index.functions[fq]
        for n in N.walk_no_nested_defs(fn.node):
            tg = n.targets if isinstance(n, ast.Assign) else [n.target] if isinstance(n, ast.AugAssign) else []
            for t in tg:
                if isinstance(t, ast.Subscript) and X.U(t.value).endswith((".maze_ctor_kwargs", ".endpoint_kwargs")):
                    hits.append({"in": fq, "stmt": X.U(n)[:80]})
            if isinstance(n, ast.Call) and isinstance(n.func, ast.Attribute) and n.func.attr in ("update", "pop", "setdefault", "clear") \
                    and X.U(n.func.value).endswith((".maze_ctor_kwargs", ".endpoint_kwargs")):
                hits.append({"in": fq, "stmt": X.U(n)[:80]})
    ctx.judge(ctx.index.func(GENERATE), not hits, {"reachable_functions": len(cl), "stores_into_shared_kwargs": hits[:3]},
              "no store into cfg.maze_ctor_kwargs / endpoint_kwargs is reachable from generate/from_config (those dicts are shared with the caller's config by the identity serialization_fn)")


def rule_E6(ctx: Ctx) -> None:
    """config-driven filter application by abstract evaluation (E15): _apply_filters_from_config interpreted on symbolic filter histories (empty,
    repeated names, positional and keyword arguments, unknown and custom names): every recorded filter is applied once, in order, with its own
    arguments, each to the result of the previous one; unknown names raise; the result is the last dataset"""
    from sa.fold import Closure, EvalRaised, Evaluator, Obj, Unknown

    f = ctx.index.func(f"{DS}.GPTDataset._apply_filters_from_config")
    known = {"path_length": 1, "truncate_count": 1, "cut_percentile_shortest": 1, "collect_generation_meta": 1}
    hists = [[], [{"name": "truncate_count", "args": (5,), "kwargs": {}}],
             [{"name": "path_length", "args": (), "kwargs": {"min_length": 3}}, {"name": "cut_percentile_shortest", "args": (10.0,), "kwargs": {}},
              {"name": "path_length", "args": (4,), "kwargs": {}}, {"name": "cut_percentile_shortest", "args": (10.0,), "kwargs": {}}],
             [{"name": "collect_generation_meta", "args": (), "kwargs": {}}, {"name": "truncate_count", "args": (2,), "kwargs": {}}],
             [{"name": "truncate_count", "args": (5,), "kwargs": {}}, {"name": "no_such_filter", "args": (), "kwargs": {}}],
             [{"name": "__custom__:mine", "args": (), "kwargs": {}}]]
    bad, unk = [], []
    for hist in hists:
        events: list = []
        import copy as _copy

        start = Obj("dataset", {"cfg": Obj("cfg", {"applied_filters": _copy.deepcopy(hist)}), "_FILTER_NAMESPACE": Obj("ns", dict(known)), "n": 0, "filter_by": "<filter_by of #0>"})

        def hook(ev, node, env, events=events):
            d = dotted_of(node.func) or ""
            if isinstance(node.func, ast.Call) and dotted_of(node.func.func) == "getattr" and len(node.func.args) == 2:
                recv = ev.ev(node.func.args[0], env)
                name = ev.ev(node.func.args[1], env)
                args = ev._elts(node.args, env)
                kwargs = {}
                for kw in node.keywords:
                    kwargs.update(ev.ev(kw.value, env) if kw.arg is None else {kw.arg: ev.ev(kw.value, env)})
                events.append(("apply", recv, name, tuple(args), dict(kwargs)))
                n = len([e for e in events if e[0] == "apply"])
                prev = [e for e in events if e[0] == "apply"]
                recs = [{"name": e[2], "args": e[3], "kwargs": e[4]} for e in prev]
                return Obj("dataset", {"cfg": Obj("cfg", {"applied_filters": recs}), "_FILTER_NAMESPACE": Obj("ns", dict(known)), "n": n, "filter_by": f"<filter_by of #{n}>"})
            if d.endswith(".update_self_config"):
                return None
            if d.endswith(".to_fname"):
                return "FNAME"
            if d == "_check_filter_equality":
                a, b = [ev.ev(x, env) for x in node.args[:2]]
                events.append(("check", a == b))
                return None
            return NotImplemented

        from sa.absobj import make_name_hook

        name_hook = make_name_hook(ctx.index, f.module, lambda hook=hook: {"__call__": hook})
        try:
            out = Evaluator({"__call__": hook, "__name__": name_hook}).run_body(X.body_wo_doc(f.node), {f.params()[0]: start})
            res = ("return", out.attrs.get("n") if isinstance(out, Obj) else repr(out)[:40])
        except EvalRaised as e:
            res = ("raise", e.exc_name)
        except Unknown as e:
            unk.append(str(e)[:160])
            continue
        applies = [e for e in events if e[0] == "apply"]
        bad_name = next((h["name"] for h in hist if h["name"] not in known), None)
        why = []
        if bad_name is not None:
            if res != ("raise", "ValueError"):
                why.append(f"outcome {res} for the unknown filter {bad_name!r}, expected ValueError")
        else:
            want = [(f"<filter_by of #{i}>", h["name"], tuple(h["args"]), dict(h["kwargs"])) for i, h in enumerate(hist)]
            got = [e[1:] for e in applies]
            if got != want:
                why.append(f"applied {[(g[0], g[1]) for g in got]}, recorded {[(w[0], w[1]) for w in want]} (each filter once, in order, on the previous result, with its own arguments)")
            if res != ("return", len(hist)):
                why.append(f"outcome {res}, expected the dataset produced by the last filter")
        if why:
            bad.append({"recorded_filters": [h["name"] for h in hist], "why": why})
    ctx.judge(f, False if bad else None if unk else True, {"abstract_histories": len(hists), "deviations": bad[:3], "undecided": unk[:2]},
              "every recorded filter is applied exactly once, in recorded order, with its recorded arguments, each to the previous result; an unknown or custom name raises "
              "ValueError; the dataset returned is the last result",
              "the config-driven entry point returns a dataset filtered differently from what the configuration says")
    if not bad and not unk:
        ctx.cover([f.qualname], by=ctx.current_rule, supersedes=["C04.E5", "C08.G7", ctx.current_rule], whole_rules=["C04.E5", "C08.G7"], bound=f"{len(hists)} symbolic filter histories")


def rule_E5(ctx: Ctx) -> None:
    f = ctx.index.func(f"{DS}.GPTDataset._apply_filters_from_config")
    loops = [n for n in f.node.body if isinstance(n, ast.For)]
    exp = ("filters are taken from the saved list in order (plain for), the config's list is reset before the loop, each filter is "
           "applied as getattr(output.filter_by, name)(*args, **kwargs) and rebinds output")
    if len(loops) != 1:
        ctx.unknown(f, {"loops": len(loops)}, exp)
        return
    lp = loops[0]
    it = lp.iter
    if isinstance(it, ast.Call) and dotted_of(it.func) in ("reversed", "sorted", "set", "frozenset", "random.sample", "np.random.permutation"):
        ctx.violation(f, {"iterates": X.U(it)}, exp, "the saved filters are not applied in their recorded order", node=lp)
        return
    saved = it.id if isinstance(it, ast.Name) else None
    d = X.assignments_to(f.node, saved) if saved else []
    src_ok = len(d) == 1 and X.U(d[0]) in ("self.cfg.applied_filters", "output.cfg.applied_filters", "list(self.cfg.applied_filters)", "self.cfg.applied_filters.copy()")
    resets = [n for n in f.node.body if isinstance(n, ast.Assign) and X.U(n.targets[0]).endswith(".cfg.applied_filters")
              and X.U(n.value) in ("list()", "[]")]  # canonical: []
    reset_ok = len(resets) == 1 and f.node.body.index(resets[0]) < f.node.body.index(lp)
    info = lp.target.id if isinstance(lp.target, ast.Name) else None
    call = None
    for n in ast.walk(lp):
        if isinstance(n, ast.Assign) and X.U(n.targets[0]) == "output" and isinstance(n.value, ast.Call) and isinstance(n.value.func, ast.Call) \
                and dotted_of(n.value.func.func) == "getattr":
            call = n.value
    call_ok = False
    slot = {"iterates": X.U(it), "source": [X.U(x) for x in d], "reset_before_loop": reset_ok}
    if call is not None and info:
        ga = call.func
        name_arg = ga.args[1] if len(ga.args) > 1 else None
        def comes_from(e, key):
            if e is None:
                return False
            forms = (f'{info}["{key}"]', f'{info}.get("{key}", [])', f'{info}.get("{key}", {{}})', f'{info}.get("{key}", ())')
            if isinstance(e, ast.Name):
                ds_ = X.assignments_to(lp, e.id)
                return len(ds_) == 1 and X.U(ds_[0]).replace("'", '"') in forms
            return X.U(e).replace("'", '"') in forms
        star = [a.value for a in call.args if isinstance(a, ast.Starred)]
        dstar = [k.value for k in call.keywords if k.arg is None]
        call_ok = X.U(ga.args[0]) == "output.filter_by" and comes_from(name_arg, "name") and len(star) == 1 and comes_from(star[0], "args") \
            and len(dstar) == 1 and comes_from(dstar[0], "kwargs")
        slot["apply"] = X.U(call)[:100]
    rets = X.returns_of(f.node)
    ret_ok = len(rets) == 1 and X.U(rets[0].value) == "output"
    ok = src_ok and reset_ok and call_ok and ret_ok and not lp.orelse
    ctx.judge(f, ok if (call is not None and saved) else None, slot, exp,
              "configured filters are applied in another order, with other arguments, doubled, or the result is dropped", node=lp)
    # every saved filter is applied: the loop has no exit other than `raise` (no break / continue / return inside it)
    early = []

    def _exits(node, depth=0):
        for ch in ast.iter_child_nodes(node):
            if isinstance(ch, (ast.FunctionDef, ast.Lambda, ast.AsyncFunctionDef)):
                continue
            if isinstance(ch, (ast.For, ast.While)):
                for r_ in ast.walk(ch):
                    if isinstance(r_, ast.Return):
                        early.append(r_)
                continue  # break / continue inside a nested loop belong to that loop
            if isinstance(ch, (ast.Break, ast.Continue, ast.Return)):
                early.append(ch)
            _exits(ch, depth + 1)
    _exits(lp)
    ctx.judge(f, not early, {"early_exits_in_loop": [X.U(e) for e in early]},
              "every filter of the saved list is applied: the loop is left only by `raise`",
              "some configured filters are skipped (e.g. once the dataset is empty): they are not recorded, the result differs from applying the filters by hand", node=lp)
    chk = [c for c in X.calls(f.node) if dotted_of(c.func) == "_check_filter_equality"]
    ctx.judge(f, len(chk) == 1, {"check_calls": len(chk)}, "the re-recorded provenance is compared with the requested filter list")


RULES = [
    Rule("C04.E1", rule_E1, floor=10, doc="RNG source discipline"),
    Rule("C04.E2", rule_E2, floor=3, doc="reseed dominates generation"),
    Rule("C04.E3", rule_E3, floor=2, doc="nothing consumes randomness between reseed and first draw"),
    Rule("C04.E4", rule_E4, floor=4, doc="ownership of the configuration"),
    Rule("C04.E7", lambda ctx: __import__("sa.rules.c11", fromlist=["x"]).rule_K7(ctx), floor=1,
         doc="the config-driven entry point without a cache returns the generated dataset with the filters applied, also when that dataset is empty (C11.K7 re-judged)"),
    Rule("C04.E6", rule_E6, floor=1, doc="config-driven filter application by abstract evaluation on symbolic filter histories"),
    Rule("C04.E5", rule_E5, floor=3, doc="filters in order, none skipped"),
    Rule("C04.E12", lambda ctx: __import__("sa.mypyx", fromlist=["x"]).cross_check(ctx, [HELPER, GENERATE, f"{DS}.GPTDataset.from_config"], "C04.E12"), floor=1,
         doc="thorough: call graph over-approximates mypy's type-resolved edges on the generation closure", tier="thorough"),
]

from sa import exits as _exits_ms  # noqa: E402

RULES.append(Rule("C04.MS", _exits_ms.make_state_rule("C04", "C04.MS", _exits_ms.SCOPES.get("C04", [])), floor=1,
                  doc="no hidden module-level state on the anchored path: results do not depend on the history of the process (E17)"))

from sa import exits as _exits_nw  # noqa: E402

RULES.append(Rule("C04.NW", _exits_nw.make_narrowing_rule("C04", "C04.NW", _exits_nw.SCOPES.get("C04", [])), floor=1,
                  doc="no new narrowing cast (8/16-bit element types) on the anchored path: coordinates, lengths and indices do not wrap (E18)"))
