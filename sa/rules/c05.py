"""C05 -- datasets survive serialization and disk round trips unchanged

Clauses: F1 format closure + zanj routing; F2 writer/reader key agreement; F3 slice agreement of
the padded / concatenated solution storage; F4 order; F5 storage capacity; F6 serializer totality
over metadata states; F7 threshold selection; F8 serialisation never mutates an identity field of
the configuration.
"""

from __future__ import annotations

import ast
import itertools

from sa import astx as X
from sa import normal as N
from sa.callgraph import CallGraph
from sa.cfg import build_cfg
from sa.dcmodel import DataclassModel
from sa.index import AnalysisError, FuncInfo, dotted_of
from sa.report import Ctx, Rule

MD = "maze_dataset.dataset.maze_dataset"
CD = "maze_dataset.dataset.collected_dataset"
DS = "maze_dataset.dataset.dataset"

EXPLANATION = (
    "Writer/reader agreement for every storage format MazeDataset / MazeDatasetCollection can emit: `__format__` "
    "literal closure and zanj handler routing (rule read from zanj's source), key sets, affine slice forms of the "
    "padded and concatenated solution arrays, enumeration order; a CFG 'missing-metadata world' walk for serializer "
    "totality; and an effect scan over the call-graph closure of serialize/save for stores to identity fields of cfg."
)
ASSUMPTIONS = [
    "zanj/npz store and return arrays and JSON values faithfully (byte-level fidelity is a dependency/runtime fact)",
    "numpy slicing, np.split and np.cumsum semantics",
]
TRUSTED = ["ast", "zanj 0.3.1 loading.py (read, not imported)", "muutils 0.6.21 source (read)"]

WRITERS = ["_serialize_full", "_serialize_minimal", "_serialize_minimal_soln_cat"]


def _format_of_writer(f: FuncInfo) -> tuple[str | None, ast.AST | None]:
    for r in X.returns_of(f.node):
        v = X.record_value(r.value, "__format__") if r.value is not None else None
        if isinstance(v, ast.Constant) and isinstance(v.value, str):
            return v.value, r.value
    return None, None


def _dispatch(f: FuncInfo, literals: list[str] | None = None, switch: bool = False) -> dict[str, str]:
    """literal -> loader method name `load` ends in for that literal (under the default threshold, i.e. not the profiling switch):
    a decision table over `data['__format__'] == <literal>` for every literal compared anywhere in the function"""
    from sa import dtable as DT

    data = f.params()[-1]
    lits = list(literals or [])
    for n in ast.walk(f.node):
        if isinstance(n, ast.Compare) and len(n.ops) == 1 and isinstance(n.ops[0], (ast.Eq, ast.NotEq)):
            for c_ in (n.left, n.comparators[0]):
                if isinstance(c_, ast.Constant) and isinstance(c_.value, str) and c_.value not in lits and c_.value.startswith("MazeDataset"):
                    lits.append(c_.value)
    if not lits:
        return {}
    atoms = {f"fmt={l}": [f"{data}['__format__'] == {l!r}"] for l in lits}
    atoms["profiling_switch"] = ["SERIALIZE_MINIMAL_THRESHOLD == -1"]
    if len(atoms) > 7:
        return {}
    out = {}
    for row in DT.table(f.node, atoms):
        a = row["assignment"]
        on = [l for l in lits if a[f"fmt={l}"]]
        if len(on) != 1 or a["profiling_switch"] != switch or any(v for k, v in a.items() if k.startswith("?")):
            continue  # exactly one literal matches at a time; the profiling switch is off by default
        o = row["outcome"]
        if o[0] == "return" and isinstance(o[1], ast.Call):
            out[on[0]] = X.U(o[1].func).split(".")[-1]
        elif o[0] == "raise":
            out.setdefault(on[0], f"<raises {o[1]}>")
    return out


def _assert_literal(f: FuncInfo) -> str | None:
    for n in f.node.body:
        if isinstance(n, ast.Assert) and isinstance(n.test, ast.Compare) and "__format__" in X.U(n.test.left):
            c = n.test.comparators[0]
            if isinstance(c, ast.Constant):
                return c.value
    return None


def _handlers(ctx: Ctx) -> list[dict]:
    "explicit LoaderHandler registrations of the package, in import order"
    out = []
    order = [MD, CD]  # collected_dataset imports maze_dataset, so MazeDataset's handler registers first
    cd = ctx.index.module(CD)
    if not any(v.startswith(MD) for v in cd.imports.values()):
        raise AnalysisError("collected_dataset no longer imports maze_dataset: handler registration order unknown")
    for modname in order:
        m = ctx.index.module(modname)
        for st in m.tree.body:
            if isinstance(st, ast.Expr) and isinstance(st.value, ast.Call) and dotted_of(st.value.func) == "register_loader_handler":
                h = st.value.args[0]
                if not (isinstance(h, ast.Call) and dotted_of(h.func) == "LoaderHandler"):
                    raise AnalysisError(f"{modname}: register_loader_handler argument of unfamiliar shape")
                uid = N.kwarg(h, "uid")
                check = N.kwarg(h, "check")
                load = N.kwarg(h, "load")
                prefix = None
                exact = None
                for n in ast.walk(check):
                    if isinstance(n, ast.Call) and isinstance(n.func, ast.Attribute) and n.func.attr == "startswith" and "__format__" in X.U(n.func.value):
                        if n.args and isinstance(n.args[0], ast.Constant):
                            prefix = n.args[0].value
                    if isinstance(n, ast.Compare) and "__format__" in X.U(n.left) and isinstance(n.ops[0], ast.Eq) and isinstance(n.comparators[0], ast.Constant):
                        exact = n.comparators[0].value
                tgt = None
                for n in ast.walk(load):
                    if isinstance(n, ast.Call) and isinstance(n.func, ast.Attribute) and n.func.attr == "load":
                        tgt = ctx.index.resolve(m, dotted_of(n.func.value) or "?")
                out.append({"module": modname, "uid": uid.value if isinstance(uid, ast.Constant) else None,
                            "prefix": prefix, "exact": exact, "loads": tgt, "line": st.lineno})
    return out


def _route(handlers: list[dict], literal: str) -> dict | None:
    for h in handlers:  # exact uid match first (zanj.get_item_loader)
        if h["uid"] == literal:
            return h
    for h in handlers:
        if h["prefix"] is not None and literal.startswith(h["prefix"]):
            return h
        if h["exact"] is not None and literal == h["exact"]:
            return h
    return None


def rule_F1(ctx: Ctx) -> None:
    if not (ctx.deps.zanj_exact_format_first() and ctx.deps.zanj_handlers_keyed_by_uid()):
        raise AnalysisError("zanj.loading.get_item_loader no longer has the (exact uid, then first accepting check) shape")
    handlers = _handlers(ctx)
    ctx.stat("loader_handlers", len(handlers))
    mdc = ctx.index.cls(f"{MD}.MazeDataset")
    load = ctx.index.func(f"{MD}.MazeDataset.load")
    disp = _dispatch(load)
    emitted = {}
    for w in WRITERS:
        f = ctx.index.func(f"{MD}.MazeDataset.{w}")
        lit, _ = _format_of_writer(f)
        emitted[w] = lit
        exp = "the writer's __format__ literal has a branch in MazeDataset.load whose loader asserts the same literal"
        if lit is None:
            ctx.unknown(f, {}, exp, "no literal __format__ in the returned record")
            continue
        loader = disp.get(lit)
        a = None
        if loader and ctx.index.has_func(f"{MD}.MazeDataset.{loader}"):
            a = _assert_literal(ctx.index.func(f"{MD}.MazeDataset.{loader}"))
        ok = loader is not None and (a == lit)
        ctx.judge(f, ok, {"writes": lit, "dispatch_branch": loader, "loader_asserts": a}, exp,
                  "a dataset written in this format cannot be loaded back (KeyError / AssertionError in load)")
        # under the profiling setting of the threshold (-1) serialize() always writes the compact format: its loaders must stay reachable
        loader_sw = _dispatch(load, switch=True).get(lit)
        a_sw = None
        if loader_sw and ctx.index.has_func(f"{MD}.MazeDataset.{loader_sw}"):
            a_sw = _assert_literal(ctx.index.func(f"{MD}.MazeDataset.{loader_sw}"))
        ctx.judge(f, loader_sw is not None and a_sw == lit, {"writes": lit, "dispatch_branch_with_threshold_minus_one": loader_sw, "loader_asserts": a_sw},
                  "with SERIALIZE_MINIMAL_THRESHOLD == -1 too, the format's branch in MazeDataset.load ends in a loader that asserts the same literal",
                  "under the profiling threshold every dataset is written in the compact format and then handed to a loader of another format: nothing serialize() writes loads back")
        # routing
        h = _route(handlers, lit)
        okr = h is not None and h["loads"] == f"{MD}.MazeDataset"
        ctx.judge(f, okr, {"literal": lit, "routed_to": h},
                  "zanj routes an item with this __format__ to the handler that calls MazeDataset.load",
                  "zanj would hand the stored item to another loader (or to none): read() returns the wrong type")
    extra = set(disp) - set(v for v in emitted.values() if v)
    ctx.judge(load, not extra, {"dispatch_literals": sorted(disp), "written_literals": sorted(v for v in emitted.values() if v)},
              "load dispatches exactly the literals the writers emit")
    # collection
    cs = ctx.index.func(f"{CD}.MazeDatasetCollection.serialize")
    lit, _ = _format_of_writer(cs)
    cl = ctx.index.func(f"{CD}.MazeDatasetCollection.load")
    a = _assert_literal(cl)
    ctx.judge(cs, lit is not None and a == lit, {"writes": lit, "loader_asserts": a}, "collection writer literal == loader assert literal")
    h = _route(handlers, lit) if lit else None
    ctx.judge(cs, h is not None and h["loads"] == f"{CD}.MazeDatasetCollection", {"literal": lit, "routed_to": h},
              "zanj routes the collection literal to the collection's handler (it must *equal* that handler's uid, because the "
              "MazeDataset handler's prefix check accepts it too and is registered first)",
              "a stored collection is handed to MazeDataset.load and fails with KeyError")


def _pairs(ctx: Ctx) -> list[tuple[FuncInfo, FuncInfo]]:
    load = ctx.index.func(f"{MD}.MazeDataset.load")
    disp = _dispatch(load)
    out = []
    for w in WRITERS:
        f = ctx.index.func(f"{MD}.MazeDataset.{w}")
        lit, _ = _format_of_writer(f)
        if lit in disp and ctx.index.has_func(f"{MD}.MazeDataset.{disp[lit]}"):
            out.append((f, ctx.index.func(f"{MD}.MazeDataset.{disp[lit]}")))
    if ctx.index.has_func(f"{MD}.MazeDataset._load_legacy"):
        out.append((ctx.index.func(f"{MD}.MazeDataset._serialize_full"), ctx.index.func(f"{MD}.MazeDataset._load_legacy")))
    return out


def _reader_keys(r: FuncInfo) -> set[str]:
    p = r.params()[1]
    ks = X.keys_read(r.node, p)
    # `for key in [..]: data[key]`
    for n in ast.walk(r.node):
        if isinstance(n, (ast.DictComp, ast.ListComp, ast.For)):
            gens = n.generators if not isinstance(n, ast.For) else []
            for g in gens:
                if isinstance(g.iter, ast.List) and all(isinstance(e, ast.Constant) for e in g.iter.elts):
                    ks |= {e.value for e in g.iter.elts}
    ks.discard("__format__")
    return ks


def rule_F2(ctx: Ctx) -> None:
    exp = "every key the reader subscripts is written by the writer of the same format"
    for w, r in _pairs(ctx):
        _, rec = _format_of_writer(w)
        wk = X.keys_written(rec)
        rk = _reader_keys(r)
        slot = {"writer": w.name, "reader": r.name, "writer_keys": sorted(wk or []), "reader_keys": sorted(rk)}
        if wk is None:
            ctx.unknown(w, slot, exp, "writer record is not a closed dict")
        else:
            ctx.judge(r, rk <= wk and bool(rk), slot, exp, f"reader needs {sorted(rk - wk)} which the writer never stores: KeyError on load")
    # nothing the writer stores is dropped by the reader, and the reader hands all three components to the constructor
    REDUNDANT = {"maze_endpoints": "endpoints are the two ends of the stored solution (SolvedMaze.__init__ derives them; C03.P5)"}
    init_params = set(ctx.index.func(f"{MD}.MazeDataset.__init__").params()[1:])
    for w, r in _pairs(ctx):
        _, rec = _format_of_writer(w)
        wk = X.keys_written(rec) or set()
        rk = _reader_keys(r)
        dropped = sorted(wk - rk - {"__format__"} - set(REDUNDANT))  # reported, not judged: an extra stored key is harmless
        ctor = [c for c in X.calls(r.node) if X.U(c.func) == "cls"]
        passed = set()
        dparam = r.params()[1]
        if len(ctor) == 1:
            for k in ctor[0].keywords:
                if k.arg and (dparam in N.names_in(k.value) or any(dparam in N.names_in(d) for nm in N.names_in(k.value) for d in X.assignments_to(r.node, nm))):
                    passed.add(k.arg)  # the component is computed from the stored data
                if k.arg is None and isinstance(k.value, ast.DictComp):
                    it = k.value.generators[0].iter
                    if isinstance(it, ast.List):
                        passed |= {e.value for e in it.elts if isinstance(e, ast.Constant)}
        # a component is read from the key of the same name (cfg <- "cfg", generation_metadata_collected <- same)
        crossed = []
        if len(ctor) == 1:
            for k in ctor[0].keywords:
                if k.arg in ("cfg", "generation_metadata_collected"):
                    ks = X.keys_read(k.value, dparam)
                    if ks and ks != {k.arg}:
                        crossed.append((k.arg, sorted(ks)))
        if crossed:
            ctx.violation(r, {"reader": r.name, "component_read_from_other_key": crossed}, "each constructor component is read from the stored key of the same name",
                          "the loaded dataset gets another component's value")
        ctx.judge(r, passed == init_params,
                  {"writer": w.name, "reader": r.name, "stored_but_never_read": dropped, "constructor_arguments_from_data": sorted(passed),
                   "constructor_parameters": sorted(init_params), "tabulated_redundant_keys": REDUNDANT},
                  "every stored component is read back and passed to the constructor (cfg, mazes, generation_metadata_collected)",
                  "a stored component (e.g. the collected generation metadata) silently disappears in the round trip")
    cs = ctx.index.func(f"{CD}.MazeDatasetCollection.serialize")
    cl = ctx.index.func(f"{CD}.MazeDatasetCollection.load")
    _, rec = _format_of_writer(cs)
    wk = X.keys_written(rec) or set()
    rk = _reader_keys(cl)
    init = ctx.index.func(f"{CD}.MazeDatasetCollection.__init__")
    ip = set(init.params()[1:])
    ctx.judge(cl, rk <= wk and rk <= ip and bool(rk), {"writer_keys": sorted(wk), "reader_keys": sorted(rk), "ctor_params": sorted(ip)},
              "collection reader keys are written by the writer and are constructor parameter names (it loads with cls(**{key: ...}))")


def _store_stmts(fn: ast.AST, arr: str) -> list[ast.Assign]:
    return [n for n in ast.walk(fn) if isinstance(n, ast.Assign) and isinstance(n.targets[0], ast.Subscript)
            and X.U(n.targets[0].value) == arr]


def rule_F3(ctx: Ctx) -> None:
    # ---- minimal (padded)
    w = ctx.index.func(f"{MD}.MazeDataset._serialize_minimal")
    r = ctx.index.func(f"{MD}.MazeDataset._load_minimal")
    loops = [n for n in ast.walk(w.node) if isinstance(n, ast.For) and isinstance(n.iter, ast.Call) and dotted_of(n.iter.func) == "enumerate"]
    if len(loops) != 1:
        raise AnalysisError("_serialize_minimal: expected one enumerate loop")
    lp = loops[0]
    idx, mz = lp.target.elts[0].id, lp.target.elts[1].id
    env = {}
    for n in lp.body:  # local definitions like soln_len = maze.solution.shape[0]
        if isinstance(n, (ast.Assign, ast.AnnAssign)):
            t = n.targets[0] if isinstance(n, ast.Assign) else n.target
            if isinstance(t, ast.Name) and n.value is not None and not any(isinstance(x, ast.Name) and x.id == t.id for x in ast.walk(n.value)):
                env[t.id] = N.affine(X.substitute_len(n.value), env)
    L = N.affine(X.expr_of(f"len({mz}.solution)"))
    sol_st = _store_stmts(lp, "maze_solutions")
    len_st = _store_stmts(lp, "maze_solution_lengths")
    exp = "writer stores solutions[idx, :L] = solution and lengths[idx] = L with the same L = len(solution)"
    if len(sol_st) != 1 or len(len_st) != 1:
        ctx.unknown(w, {"solution_stores": len(sol_st), "length_stores": len(len_st)}, exp)
    else:
        parts = N.subscript_parts(sol_st[0].targets[0])
        ok_idx = len(parts) >= 2 and X.U(parts[0]) == idx
        sl = parts[1] if len(parts) >= 2 else None
        ok_sl = isinstance(sl, ast.Slice) and sl.lower is None and sl.step is None and sl.upper is not None and \
            N.aff_eq(N.affine(X.substitute_len(sl.upper), env), L)
        ok_val = X.U(sol_st[0].value) == f"{mz}.solution"
        ok_len = X.U(N.subscript_parts(len_st[0].targets[0])[0]) == idx and N.aff_eq(N.affine(X.substitute_len(len_st[0].value), env), L)
        ctx.judge(w, ok_idx and ok_sl and ok_val and ok_len,
                  {"solution_store": X.U(sol_st[0]), "length_store": X.U(len_st[0])}, exp,
                  "stored length and stored prefix disagree: the reader cuts the solution at the wrong cell", node=sol_st[0])
    # reader: zip pairing + slice
    comps = [n for n in ast.walk(r.node) if isinstance(n, ast.ListComp) and isinstance(n.generators[0].iter, ast.Call) and dotted_of(n.generators[0].iter.func) == "zip"]
    exp = "reader zips (connection_lists, solution_lengths, solutions) in that role order and rebuilds SolvedMaze(clist, soln[:slen])"
    if len(comps) != 1:
        ctx.unknown(r, {"zip_comprehensions": len(comps)}, exp)
    else:
        c = comps[0]
        g = c.generators[0]
        names = [e.id for e in g.target.elts] if isinstance(g.target, ast.Tuple) else []
        keys = []
        for a in g.iter.args:
            k = X.keys_read(a, r.params()[1])
            keys.append(next(iter(k)) if len(k) == 1 else X.U(a))
        role = dict(zip(keys, names))
        call = c.elt
        ok = isinstance(call, ast.Call) and X.U(call.func).endswith("SolvedMaze")
        a0 = N.arg_or_kw(call, 0, "connection_list") if ok else None
        a1 = N.arg_or_kw(call, 1, "solution") if ok else None
        ok_c = a0 is not None and X.U(a0) == role.get("maze_connection_lists")
        ok_s = False
        if isinstance(a1, ast.Subscript) and X.U(a1.value) == role.get("maze_solutions"):
            p0 = N.subscript_parts(a1)[0]
            ok_s = isinstance(p0, ast.Slice) and p0.lower is None and p0.step is None and X.U(p0.upper) == role.get("maze_solution_lengths")
        # SolvedMaze.__init__ positional order
        init = ctx.index.func("maze_dataset.maze.lattice_maze.SolvedMaze.__init__")
        pos_ok = init.params()[1:3] == ["connection_list", "solution"]
        ctx.judge(r, ok and ok_c and ok_s and pos_ok, {"zip": dict(zip(keys, names)), "rebuild": X.U(call)[:120], "ctor_positional": init.params()[1:3]},
                  exp, "reader pairs arrays with the wrong role or cuts the padded solution at the wrong length", node=c)
    # ---- soln_cat
    w = ctx.index.func(f"{MD}.MazeDataset._serialize_minimal_soln_cat")
    r = ctx.index.func(f"{MD}.MazeDataset._load_minimal_soln_cat")
    loops = [n for n in ast.walk(w.node) if isinstance(n, ast.For) and isinstance(n.iter, ast.Call) and dotted_of(n.iter.func) == "enumerate"]
    if len(loops) != 1:
        raise AnalysisError("_serialize_minimal_soln_cat: expected one enumerate loop")
    lp = loops[0]
    idx, mz = lp.target.elts[0].id, lp.target.elts[1].id
    env = {}
    for n in lp.body:
        if isinstance(n, (ast.Assign, ast.AnnAssign)):
            t = n.targets[0] if isinstance(n, ast.Assign) else n.target
            if isinstance(t, ast.Name) and n.value is not None and not any(isinstance(x, ast.Name) and x.id == t.id for x in ast.walk(n.value)):
                env[t.id] = N.affine(X.substitute_len(n.value), env)
    L = N.affine(X.expr_of(f"len({mz}.solution)"))
    cat = _store_stmts(lp, "maze_solutions_concat")
    exp = "writer stores concat[run : run + L] = solution and then advances run by L (L = len(solution)), run starts at 0"
    if len(cat) != 1:
        ctx.unknown(w, {"concat_stores": len(cat)}, exp)
    else:
        sl = N.subscript_parts(cat[0].targets[0])[0]
        ok = False
        slot = {"store": X.U(cat[0])}
        if isinstance(sl, ast.Slice) and sl.lower is not None and sl.upper is not None and sl.step is None and isinstance(sl.lower, ast.Name):
            run = sl.lower.id
            width = N.aff_add(N.affine(X.substitute_len(sl.upper), env), N.affine(sl.lower), -1)
            # the advance: `run += d` or `run = run + d`
            aug = []
            for n in lp.body:
                if isinstance(n, ast.AugAssign) and isinstance(n.target, ast.Name) and n.target.id == run and isinstance(n.op, ast.Add):
                    aug.append((n, N.affine(X.substitute_len(n.value), env)))
                elif isinstance(n, ast.AugAssign) and isinstance(n.target, ast.Name) and n.target.id == run:
                    aug.append((n, None))
                elif isinstance(n, (ast.Assign, ast.AnnAssign)) and n.value is not None and X.U(n.targets[0] if isinstance(n, ast.Assign) else n.target) == run:
                    a_ = N.affine(X.substitute_len(n.value), env)
                    aug.append((n, N.aff_add(a_, N.affine(ast.Name(id=run, ctx=ast.Load())), -1)))
            init0 = [d for d in X.assignments_to(w.node, run) if not any(isinstance(x, ast.Name) and x.id == run for x in ast.walk(d))]
            ok_adv = len(aug) == 1 and aug[0][1] is not None and N.aff_eq(aug[0][1], L) \
                and lp.body.index(aug[0][0]) > [i for i, s in enumerate(lp.body) if s is cat[0]][0]
            aug = [a_[0] for a_ in aug]
            ok = N.aff_eq(width, L) and ok_adv and len(init0) == 1 and N.const_int(init0[0]) == 0 and X.U(cat[0].value) == f"{mz}.solution"
            slot.update({"slice_width": N.aff_str(width), "advance": X.U(aug[0]) if aug else None, "initial": X.U(init0[0]) if init0 else None})
        ctx.judge(w, ok, slot, exp, "solutions overlap or leave gaps in the concatenated array", node=cat[0])
        lens = _store_stmts(lp, "maze_solution_lengths")
        lens_def = X.assignments_to(w.node, "maze_solution_lengths")
        ok_l = (len(lens) == 1 and N.aff_eq(N.affine(X.substitute_len(lens[0].value), env), L)) or \
            (not lens and len(lens_def) == 1 and "solution" in X.U(lens_def[0]))
        ctx.judge(w, ok_l, {"length_stores": [X.U(s) for s in lens], "length_def": X.U(lens_def[0])[:100] if lens_def else None},
                  "lengths[idx] = len(solution) for every maze")
    splits = [c for c in X.calls(r.node) if dotted_of(c.func) in ("np.split", "numpy.split")]
    exp = "reader splits the concatenated array at np.cumsum(lengths)[:-1] along axis 0"
    if len(splits) != 1:
        ctx.unknown(r, {"np.split_calls": len(splits)}, exp)
    else:
        sp = splits[0]
        at = sp.args[1] if len(sp.args) > 1 else N.kwarg(sp, "indices_or_sections")
        ok = False
        slot = {"split": X.U(sp)}
        if isinstance(at, ast.Subscript) and X.np_method(at.value, "cumsum"):
            sf = N.slice_form(at.slice)
            ok = sf == ("slice", None, N.aff_key(N.affine(ast.Constant(-1))), None)
            src = X.np_method(at.value, "cumsum")[0]
            d = X.assignments_to(r.node, src.id) if isinstance(src, ast.Name) else [src]
            ok = ok and len(d) == 1 and X.keys_read(d[0], r.params()[1]) == {"maze_solution_lengths"}
            cat_src = sp.args[0]
            d2 = X.assignments_to(r.node, cat_src.id) if isinstance(cat_src, ast.Name) else [cat_src]
            ok = ok and len(d2) == 1 and X.keys_read(d2[0], r.params()[1]) == {"maze_solutions_concat"}
            ax = N.kwarg(sp, "axis") or (sp.args[2] if len(sp.args) > 2 else None)
            ok = ok and (ax is None or N.const_int(ax) == 0)
            slot["cut_points"] = X.U(at)
        elif at is not None and "cumsum" in X.U(at):
            ok = False
            slot["cut_points"] = X.U(at)
        else:
            ok = None
        ctx.judge(r, ok, slot, exp, "split points off by one: every solution after the first is shifted / an empty trailing piece appears", node=sp)


def rule_F4(ctx: Ctx) -> None:
    exp = "writers enumerate `.mazes` in order and store at [idx]; no sort/shuffle/set on the path"
    for wname in ("_serialize_minimal", "_serialize_minimal_soln_cat"):
        w = ctx.index.func(f"{MD}.MazeDataset.{wname}")
        loops = [n for n in ast.walk(w.node) if isinstance(n, ast.For) and isinstance(n.iter, ast.Call) and dotted_of(n.iter.func) == "enumerate"]
        bad = [c for c in X.calls(w.node) if (dotted_of(c.func) or "").split(".")[-1] in ("sorted", "shuffle", "set", "reversed", "sort")]
        ok = len(loops) == 1 and X.U(loops[0].iter.args[0]).endswith(".mazes") and len(loops[0].iter.args) == 1 and not bad
        if ok:
            idx = loops[0].target.elts[0].id
            for st in loops[0].body:
                if isinstance(st, ast.Assign) and isinstance(st.targets[0], ast.Subscript) and X.U(st.targets[0].value).startswith("maze_") \
                        and "concat" not in X.U(st.targets[0].value):
                    if X.U(N.subscript_parts(st.targets[0])[0]) != idx:
                        ok = False
        ctx.judge(w, ok, {"loop": X.U(loops[0].iter) if loops else None, "reordering_calls": [X.U(b) for b in bad]}, exp)
    f = ctx.index.func(f"{MD}.MazeDataset._serialize_full")
    _, rec = _format_of_writer(f)
    mz = X.record_value(rec, "mazes")
    ctx.judge(f, mz is not None and X.U(mz) in ("json_serialize(self.mazes)", "self.mazes"), {"mazes": X.U(mz)}, "full format stores self.mazes as is")
    cs = ctx.index.func(f"{CD}.MazeDatasetCollection.serialize")
    _, rec = _format_of_writer(cs)
    mds = X.record_value(rec, "maze_datasets")
    ok = isinstance(mds, ast.ListComp) and X.U(mds.generators[0].iter) == "self.maze_datasets" and not mds.generators[0].ifs and \
        X.U(mds.elt) == f"{mds.generators[0].target.id}.serialize()"
    ctx.judge(cs, ok, {"maze_datasets": X.U(mds)}, "collection stores every member's serialize() in member order")


def rule_F9(ctx: Ctx) -> None:
    "allocation sizes agree with what the loop enumerates"
    exp = ("the arrays are allocated for exactly the mazes the loop enumerates: first dimension = len(<enumerated list>), padded width = max "
           "solution length, concatenated height = sum of the lengths")
    for wname in ("_serialize_minimal", "_serialize_minimal_soln_cat"):
        w = ctx.index.func(f"{MD}.MazeDataset.{wname}")
        loops = [n for n in ast.walk(w.node) if isinstance(n, ast.For) and isinstance(n.iter, ast.Call) and dotted_of(n.iter.func) == "enumerate"]
        if len(loops) != 1:
            ctx.unknown(w, {"loops": len(loops)}, exp)
            continue
        lst = X.U(loops[0].iter.args[0])
        want = N.affine(X.expr_of(f"len({lst})"))
        for arr in ("maze_connection_lists", "maze_solution_lengths", "maze_solutions", "maze_endpoints"):
            d = X.assignments_to(w.node, arr)
            allocs = [x for x in d if isinstance(x, ast.Call) and dotted_of(x.func) in ("np.empty", "np.zeros", "np.full", "np.ones")]
            if not allocs:
                continue
            shp = allocs[0].args[0]
            first = shp.elts[0] if isinstance(shp, ast.Tuple) else shp
            env = {}
            if isinstance(first, ast.Name):
                fd = X.assignments_to(w.node, first.id)
                got = N.affine(X.substitute_len(fd[0])) if len(fd) == 1 else None
                txt = X.U(fd[0]) if len(fd) == 1 else None
            else:
                got, txt = N.affine(X.substitute_len(first)), X.U(first)
            ok = got is not None and N.aff_eq(got, want)
            ctx.judge(w, ok, {"array": arr, "first_dimension": txt, "enumerates": lst}, exp,
                      "rows are allocated from another count than the mazes written: uninitialised extra mazes on load, or IndexError when writing", node=allocs[0])
        # widths
        if wname == "_serialize_minimal":
            d = X.assignments_to(w.node, "max_solution_len")
            ok = len(d) == 1 and isinstance(d[0], ast.Call) and dotted_of(d[0].func) == "max" and isinstance(d[0].args[0], (ast.GeneratorExp, ast.ListComp)) \
                and X.U(d[0].args[0].generators[0].iter) == lst and X.U(X.substitute_len(d[0].args[0].elt)) == f"len({X.U(d[0].args[0].generators[0].target)}.solution)"
            ctx.judge(w, ok, {"max_solution_len": X.U(d[0]) if d else None}, exp, "the padded array is too narrow for the longest solution (ValueError) or lengths of another list are used")
        else:
            d = X.assignments_to(w.node, "total_solution_len")
            ok = len(d) == 1 and X.U(d[0]) in ("np.sum(maze_solution_lengths)", "maze_solution_lengths.sum()", "int(np.sum(maze_solution_lengths))")
            ctx.judge(w, ok, {"total_solution_len": X.U(d[0]) if d else None}, exp)


def _abstract_round_trip(ctx: Ctx, writer: str, reader: str, lens: list[int] | None = None) -> dict:
    """serialize an abstract dataset with `writer` and load the result with `reader`, both interpreted by the checker over
    symbolic mazes (opaque connection-list symbols, solutions as arrays of symbolic cells, lengths 2 / 1 / 3 / 2: ragged, with a
    one-cell and two two-cell solutions); returns the loaded components or what went wrong"""
    from sa.absnp import MODELS, UNINIT, Arr
    from sa.fold import EvalRaised, Evaluator, Obj, Unknown

    lens = list(lens or [2, 1, 3, 2])
    sols = [Arr([[f"s{k}.{i}r", f"s{k}.{i}c"] for i in range(n)]) for k, n in enumerate(lens)]
    mazes = [Obj("SolvedMaze", {"connection_list": f"CL{k}", "solution": sols[k], "start_pos": Arr(list(sols[k].data[0])), "end_pos": Arr(list(sols[k].data[-1])),
                                "generation_meta": None}) for k in range(len(lens))]
    # the config's own count is stale on purpose (it is compare=False because it drifts): sizes must come from the maze list
    cfg = Obj("cfg", {"grid_n": 2, "n_mazes": 7, "grid_shape": (2, 2)})
    ds = Obj("dataset", {"mazes": mazes, "cfg": cfg, "generation_metadata_collected": "GMC"})

    def call_hook(ev, node, env):
        d = dotted_of(node.func) or ""
        if d in MODELS:
            args = [ev.ev(a, env) for a in node.args]
            kwargs = {k.arg: ev.ev(k.value, env) for k in node.keywords if k.arg and k.arg not in ("dtype",)}
            try:
                return MODELS[d](*args, **kwargs)
            except (ValueError, IndexError) as e:
                raise EvalRaised(type(e).__name__, str(e))
            except Exception as e:
                raise Unknown(f"model of {d}: {e}")
        if d == "hash" and len(node.args) == 1:
            v = ev.ev(node.args[0], env)
            if isinstance(v, Obj) and v.cls == "SolvedMaze":
                return -mazes.index(v)  # an arbitrary, order-unrelated key: any sort on it reorders the mazes
            raise Unknown("hash of an untracked value")
        if d.endswith("_collect_generation_meta_unrecorded") and not node.args:
            return ev.ev(node.func.value, env)
        if d in ("json_serialize",) and len(node.args) == 1:
            return ("json", ev.ev(node.args[0], env))
        if d == "load_item_recursive" and node.args:
            v = ev.ev(node.args[0], env)
            return v[1] if isinstance(v, tuple) and len(v) == 2 and v[0] == "json" else v
        if d.endswith("Config.load") and len(node.args) == 1:
            v = ev.ev(node.args[0], env)
            return v[1] if isinstance(v, tuple) and len(v) == 2 and v[0] == "json" else ("loaded", v)
        if isinstance(node.func, ast.Attribute) and node.func.attr == "serialize" and not node.args:
            return ("json", ev.ev(node.func.value, env))
        if d == "SolvedMaze":
            args = [ev.ev(a, env) for a in node.args]
            kw = {k.arg: ev.ev(k.value, env) for k in node.keywords}
            cl = kw.get("connection_list", args[0] if args else None)
            so = kw.get("solution", args[1] if len(args) > 1 else None)
            return ("SolvedMaze", cl, so)
        if d == "cls" or d.endswith("MazeDataset"):
            kw = {}
            for k in node.keywords:
                if k.arg is None:
                    kw.update(ev.ev(k.value, env))
                else:
                    kw[k.arg] = ev.ev(k.value, env)
            return ("dataset", kw)
        return NotImplemented

    w = ctx.index.func(f"{MD}.MazeDataset.{writer}")
    r = ctx.index.func(f"{MD}.MazeDataset.{reader}")
    out: dict = {"writer": writer, "reader": reader, "solution_lengths": lens}
    try:
        from sa.fold import safe

        @safe
        def _hash(v):
            return -mazes.index(v) if v in mazes else 0
        stored = Evaluator({"__call__": call_hook}).run_body(X.body_wo_doc(w.node), {w.params()[0]: ds, "hash": _hash, "id": _hash})
        if not isinstance(stored, dict):
            out["problem"] = f"writer returned {type(stored).__name__}"
            return out
        out["stored_keys"] = sorted(stored)
        rp = r.params()
        env = {rp[-1]: stored}
        if len(rp) > 1:
            env[rp[0]] = "cls"
        loaded = Evaluator({"__call__": call_hook}).run_body(X.body_wo_doc(r.node), env)
    except EvalRaised as e:
        out["problem"] = f"raises {e.exc_name}: {str(e)[:100]}"
        return out
    except Unknown as e:
        out["undecided"] = str(e)[:160]
        return out
    if not (isinstance(loaded, tuple) and loaded[0] == "dataset"):
        out["problem"] = f"reader returned {loaded!r}"[:160]
        return out
    kw = loaded[1]
    problems = []
    lm = kw.get("mazes")
    if lm is None:
        problems.append("no mazes passed to the constructor")
    else:
        lm = [x[1] if isinstance(x, tuple) and len(x) == 2 and x[0] == "json" else x for x in (lm if isinstance(lm, list) else [lm])]
        if len(lm) == 1 and isinstance(lm[0], list):
            lm = lm[0]
        want = [("SolvedMaze", f"CL{k}", sols[k]) for k in range(len(lens))]
        got = []
        for x in lm:
            if isinstance(x, Obj) and x.cls == "SolvedMaze":
                got.append(("SolvedMaze", x.attrs["connection_list"], x.attrs["solution"]))
            else:
                got.append(x)
        if got != want:
            for k, (g_, w_) in enumerate(itertools.zip_longest(got, want)):
                if g_ != w_:
                    problems.append(f"maze {k}: loaded {g_!r}"[:200] + f" expected {w_!r}"[:120])
                    break
    c_ = kw.get("cfg")
    if c_ not in (cfg, ("loaded", cfg), ("json", cfg)):
        problems.append(f"cfg loaded as {c_!r}"[:120])
    g_ = kw.get("generation_metadata_collected")
    if g_ not in ("GMC", ("json", "GMC")):
        problems.append(f"collected metadata loaded as {g_!r}"[:120])
    if UNINIT in repr(kw):
        problems.append("uninitialised padding leaks into the loaded dataset")
    if problems:
        out["problem"] = problems[:3]
    return out


def rule_F10(ctx: Ctx) -> None:
    "abstract round trip of every format: the reader applied to what the writer produced returns the same mazes, in order"
    load = ctx.index.func(f"{MD}.MazeDataset.load")
    disp = _dispatch(load)
    for wname in WRITERS:
        wf = ctx.index.func(f"{MD}.MazeDataset.{wname}")
        lit, _ = _format_of_writer(wf)
        rname = disp.get(lit)
        exp = ("load(serialize(ds)) has the same mazes in the same order - each with its own connection list and its own solution, cut at its own "
               "length - the same config and collected metadata (abstract dataset with solution lengths 2, 1, 3, 2)")
        if rname is None or not ctx.index.has_func(f"{MD}.MazeDataset.{rname}"):
            ctx.unknown(wf, {"format": lit, "reader": rname}, exp)
            continue
        res = _abstract_round_trip(ctx, wname, rname)
        if ctx.tier == "thorough" and "problem" not in res and "undecided" not in res:
            # deeper bound: every vector of solution lengths in {1,2,3}^k, k <= 4 (120 abstract datasets per format)
            n_more = 0
            for k_ in range(1, 5):
                for lv in itertools.product((1, 2, 3), repeat=k_):
                    r2 = _abstract_round_trip(ctx, wname, rname, list(lv))
                    n_more += 1
                    if "problem" in r2 or "undecided" in r2:
                        res = r2
                        break
                if "problem" in res or "undecided" in res:
                    break
            res["abstract_datasets"] = 1 + n_more
        ok = None if "undecided" in res else ("problem" not in res)
        ctx.judge(wf, ok, res, exp, "a stored dataset is loaded back with solutions cut at the wrong length, attached to the wrong maze, reordered, or with components dropped")
    # the collection: every member is stored through its *own* serialize() (which picks the member's format) and reloaded in order
    from sa.fold import EvalRaised, Evaluator, Obj, Unknown

    cw = ctx.index.func(f"{CD}.MazeDatasetCollection.serialize")
    cr = ctx.index.func(f"{CD}.MazeDatasetCollection.load")
    members = [Obj("member", {"k": k}) for k in range(3)]
    coll = Obj("collection", {"cfg": Obj("ccfg"), "maze_datasets": members, "generation_metadata_collected": "CGMC"})

    def chook(ev, node, env):
        d = dotted_of(node.func) or ""
        if isinstance(node.func, ast.Attribute) and not node.args:
            recv = ev.ev(node.func.value, env)
            if isinstance(recv, Obj) and recv.cls == "member":
                return (node.func.attr, recv)  # which serializer of the member was chosen
            if isinstance(recv, Obj) and node.func.attr == "serialize":
                return ("json", recv)
        if d == "json_serialize" and len(node.args) == 1:
            return ("json", ev.ev(node.args[0], env))
        if d == "load_item_recursive" and node.args:
            v = ev.ev(node.args[0], env)

            def un(x):
                if isinstance(x, tuple) and len(x) == 2 and x[0] == "json":
                    return x[1]
                if isinstance(x, tuple) and len(x) == 2 and isinstance(x[1], Obj) and x[1].cls == "member":
                    return ("loaded via", x[0], x[1])
                if isinstance(x, list):
                    return [un(y) for y in x]
                return x
            return un(v)
        if d == "len" and len(node.args) == 1:
            v = ev.ev(node.args[0], env)
            if isinstance(v, Obj):
                return 5
        if d == "cls":
            kw = {}
            for k in node.keywords:
                if k.arg is None:
                    kw.update(ev.ev(k.value, env))
                else:
                    kw[k.arg] = ev.ev(k.value, env)
            return ("collection", kw)
        return NotImplemented
    res_c: dict = {}
    okc: bool | None
    try:
        def nhook(name, env):
            return 3 if name == "SERIALIZE_MINIMAL_THRESHOLD" else Obj("module:" + name)

        def ghook(o, attr):
            if attr == "SERIALIZE_MINIMAL_THRESHOLD":
                return 3  # a threshold between the members' lengths and the collection's length (5)
            raise Unknown(f"attribute {attr}")
        stored = Evaluator({"__call__": chook, "__name__": nhook, "__getattr__": ghook}).run_body(X.body_wo_doc(cw.node), {cw.params()[0]: coll})
        loaded = Evaluator({"__call__": chook}).run_body(X.body_wo_doc(cr.node), {cr.params()[0]: "cls", cr.params()[1]: stored})
        want = ("collection", {"cfg": coll.attrs["cfg"], "maze_datasets": [("loaded via", "serialize", m_) for m_ in members], "generation_metadata_collected": "CGMC"})
        okc = loaded == want
        res_c = {"loaded": repr(loaded)[:300]} if not okc else {"members": 3}
    except EvalRaised as e:
        okc, res_c = False, {"problem": f"raises {e.exc_name}"}
    except Unknown as e:
        okc, res_c = None, {"undecided": str(e)[:160]}
    ctx.judge(cw, okc, res_c, "a collection stores every member through the member's own serialize() (each picks its own format by its own length) and reloads cfg, members (in order) and collected metadata",
              "members are stored in a format chosen for the whole collection (an empty or short member is forced through the minimal writer and cannot be written), reordered or dropped")


def rule_F5(ctx: Ctx) -> None:
    exp = "coordinate storage dtype holds every coordinate of the supported grids (int8: grid_n <= 128); lengths int32"
    for wname in ("_serialize_minimal", "_serialize_minimal_soln_cat"):
        w = ctx.index.func(f"{MD}.MazeDataset.{wname}")
        for arr, allowed in (("maze_solutions", {"np.int8", "np.int16", "np.int32", "np.int64"}),
                             ("maze_solutions_concat", {"np.int8", "np.int16", "np.int32", "np.int64"}),
                             ("maze_solution_lengths", {"np.int32", "np.int64"}),
                             ("maze_connection_lists", {"np.bool_", "bool"})):
            d = X.assignments_to(w.node, arr)
            if not d:
                continue
            dt = N.kwarg(d[0], "dtype") if isinstance(d[0], ast.Call) else None
            ctx.judge(w, None if dt is None else X.U(dt) in allowed, {"array": arr, "dtype": X.U(dt)}, exp,
                      "narrower storage silently wraps coordinates / lengths")


def _meta_world_reach(fn: FuncInfo, target_calls: list[ast.Call], world: str = "none") -> tuple[bool, list[str]]:
    """can a call in `target_calls` execute in the given world?
      "none":  nothing collected, no maze carries generation_meta (strip_generation_meta / collect(clear_in_mazes) produce it)
      "mixed": nothing collected, the first maze carries generation_meta but a later one does not (fresh mazes followed by mazes
               read back from a minimal-format file)
    guard tests are classified; unknown tests take both branches"""
    g = build_cfg(fn.node)

    def per_maze(t: ast.AST, has_meta: bool) -> bool | None:
        "value of a test about one maze (the element variable of any/all) when that maze has / lacks metadata"
        if isinstance(t, ast.UnaryOp) and isinstance(t.op, ast.Not):
            v = per_maze(t.operand, has_meta)
            return None if v is None else not v
        if isinstance(t, ast.Compare) and len(t.ops) == 1 and isinstance(t.comparators[0], ast.Constant) and t.comparators[0].value is None \
                and X.U(t.left).endswith(".generation_meta"):
            return isinstance(t.ops[0], ast.Is) != has_meta
        return None

    def world_value(t: ast.AST) -> bool | None:
        if isinstance(t, ast.UnaryOp) and isinstance(t.op, ast.Not):
            v = world_value(t.operand)
            return None if v is None else not v
        if isinstance(t, ast.Compare) and len(t.ops) == 1 and isinstance(t.comparators[0], ast.Constant) and t.comparators[0].value is None:
            left = X.U(t.left)
            if left.endswith("generation_metadata_collected"):
                return isinstance(t.ops[0], ast.Is)
            if left.endswith(".generation_meta"):
                if world == "none":
                    return isinstance(t.ops[0], ast.Is)
                base = t.left.value if isinstance(t.left, ast.Attribute) else None
                first = isinstance(base, ast.Subscript) and isinstance(base.slice, ast.Constant) and base.slice.value == 0
                return (not isinstance(t.ops[0], ast.Is)) if first else None  # the first maze has metadata in the mixed world
            return None
        if isinstance(t, ast.Call) and dotted_of(t.func) in ("any", "all") and t.args and isinstance(t.args[0], (ast.GeneratorExp, ast.ListComp)):
            lacks, has = per_maze(t.args[0].elt, False), per_maze(t.args[0].elt, True)
            if lacks is None or has is None:
                return None
            vals = [lacks] if world == "none" else [lacks, has]
            return any(vals) if dotted_of(t.func) == "any" else all(vals)
        if isinstance(t, ast.BoolOp):
            vals = [world_value(v) for v in t.values]
            if isinstance(t.op, ast.And):
                if any(v is False for v in vals):
                    return False
                return True if all(v is True for v in vals) else None
            if any(v is True for v in vals):
                return True
            return False if all(v is False for v in vals) else None
        return None

    seen = {g.entry.id}
    stack = [g.entry]
    guards = []
    while stack:
        n = stack.pop()
        succ = n.succ
        if n.kind == "test":
            v = world_value(n.ast)
            if v is not None:
                guards.append(f"{X.U(n.ast)[:70]} -> {v}")
                succ = [(s, lab) for s, lab in n.succ if lab is v]
        for s, _ in succ:
            if s.id not in seen:
                seen.add(s.id)
                stack.append(s)
    hit = False
    for n in g.nodes:
        if n.id in seen and n.ast is not None:
            for sub in ast.walk(n.ast):
                if sub in target_calls:
                    hit = True
    return hit, guards


def rule_F6(ctx: Ctx) -> None:
    cg = CallGraph(ctx.index)
    entries = [f"{MD}.MazeDataset.serialize", f"{MD}.MazeDataset._serialize_minimal", f"{MD}.MazeDataset._serialize_minimal_soln_cat"]
    closure = cg.closure(entries)
    # does any repo function store None into generation_meta?  (contradiction premise)
    storers = []
    for f in ctx.index.functions.values():
        for n in ast.walk(f.node):
            if isinstance(n, ast.Assign) and "generation_meta" in X.U(n.targets[0]) and "collected" not in X.U(n.targets[0]) \
                    and isinstance(n.value, ast.Constant) and n.value.value is None:
                storers.append(f.qualname)
    storers = sorted(set(storers))
    # functions in the closure that demand per-maze metadata
    demanding = {}
    for q in closure:
        f = ctx.index.functions[q]
        for n in N.walk_no_nested_defs(f.node):
            if isinstance(n, ast.Assert) and ".generation_meta is not None" in X.U(n.test):
                demanding.setdefault(q, []).append(X.U(n.test))
    ctx.stat("functions_on_serialize_path", len(closure))
    exp = ("a function that asserts `generation_meta is not None` is called from the serialization path only under a guard "
           "that excludes the no-metadata state (which strip_generation_meta / collect(clear_in_mazes) produce)")
    if not demanding:
        for e in entries[1:]:
            ctx.holds(ctx.index.functions[e], {"metadata_demanding_callees": [], "none_storers": storers}, exp)
        return
    for q in closure:
        f = ctx.index.functions[q]
        if q in demanding and q not in entries:
            pass
        calls_to_demanding = []
        for s in cg.sites(q):
            if isinstance(s.node, ast.Call) and any(t in demanding for t in s.targets):
                calls_to_demanding.append(s.node)
        if not calls_to_demanding:
            continue
        hit, guards = _meta_world_reach(f, calls_to_demanding)
        hit_m, guards_m = _meta_world_reach(f, calls_to_demanding, world="mixed")
        slot = {"calls": [X.U(c)[:80] for c in calls_to_demanding], "guards_evaluated_in_no_metadata_world": guards,
                "reachable_without_metadata": hit, "guards_evaluated_in_mixed_world": guards_m, "reachable_with_mixed_metadata": hit_m,
                "asserting_callee": sorted(demanding), "none_storers": storers}
        ctx.judge(f, (not hit and not hit_m) if storers else True, slot, exp + "; the guard must hold for every maze, not only the first",
                  "serializing a dataset whose per-maze metadata was stripped (from all mazes, or from some but not the first) reaches code that demands that metadata")


def rule_F7(ctx: Ctx) -> None:
    f = ctx.index.func(f"{MD}.MazeDataset.serialize")
    ifs = [n for n in f.node.body if isinstance(n, ast.If)]
    exp = "minimal format iff threshold is not None and len(self) >= threshold; otherwise the full format"
    if len(ifs) != 1:
        ctx.unknown(f, {"ifs": len(ifs)}, exp)
        return
    r1 = [s for s in ifs[0].body if isinstance(s, ast.Return)]
    r2 = [s for s in f.node.body if isinstance(s, ast.Return)]
    t1 = X.U(r1[0].value) if r1 else None
    t2 = X.U(r2[-1].value) if r2 else None
    MIN = ("self._serialize_minimal()", "self._serialize_minimal_soln_cat()")
    swapped = t1 == "self._serialize_full()" and t2 in MIN  # `if <full condition>: return full` ; `return minimal`
    ok, slot = X.same_relation(ifs[0].test, "SERIALIZE_MINIMAL_THRESHOLD is not None and len(self) >= SERIALIZE_MINIMAL_THRESHOLD", neg=swapped)
    slot.update({"then": t1, "else": t2})
    good = ok is True and ((t1 in MIN and t2 == "self._serialize_full()") or swapped)
    ctx.judge(f, good if ok is not None else None, slot, exp, "threshold comparison differs: a boundary-size dataset takes the other format")


IDENTITY_EXCLUDED = {"n_mazes"}


def identity_fields(ctx: Ctx) -> set[str]:
    model = DataclassModel(ctx.index, ctx.deps)
    c = ctx.index.cls(f"{MD}.MazeDatasetConfig")
    return {f.name for f in model.compared_fields(c)}


def cfg_identity_mutations(fn: ast.AST, ident: set[str]) -> list[ast.AST]:
    "stores / mutating calls whose target chain contains `.cfg.<identity field>` (or a name *cfg*.<field>)"
    MUT = {"append", "extend", "insert", "pop", "remove", "clear", "update", "setdefault", "sort", "reverse", "popitem"}
    out = []

    def chain(n):
        parts = []
        while isinstance(n, (ast.Attribute, ast.Subscript)):
            if isinstance(n, ast.Attribute):
                parts.append(n.attr)
            else:
                parts.append("[]")
            n = n.value
        if isinstance(n, ast.Name):
            parts.append(n.id)
        return list(reversed(parts))

    def hits(ch):
        for i in range(len(ch) - 1):
            if "cfg" in ch[i].lower() or ch[i] in ("config",):
                j = i + 1
                if ch[j] == "__dict__" and j + 1 < len(ch):
                    j += 1
                if ch[j] in ident:
                    return True
        return False

    for n in N.walk_no_nested_defs(fn):
        tg = []
        if isinstance(n, ast.Assign):
            tg = n.targets
        elif isinstance(n, (ast.AugAssign, ast.AnnAssign)):
            tg = [n.target]
        elif isinstance(n, ast.Delete):
            tg = n.targets
        for t in tg:
            for tt in (t.elts if isinstance(t, (ast.Tuple, ast.List)) else [t]):
                if isinstance(tt, (ast.Attribute, ast.Subscript)):
                    ch = chain(tt)
                    # cfg.__dict__["seed"] = ...
                    if isinstance(tt, ast.Subscript) and isinstance(tt.slice, ast.Constant) and isinstance(tt.slice.value, str):
                        ch = ch[:-1] + [tt.slice.value]
                    if hits(ch):
                        out.append(n)
        if isinstance(n, ast.Call) and isinstance(n.func, ast.Attribute) and n.func.attr in MUT:
            if hits(chain(n.func.value) + ["<call>"]) or hits(chain(n.func.value)):
                ch = chain(n.func.value)
                if any(c in ident for c in ch):
                    out.append(n)
    return out


def rule_F8(ctx: Ctx) -> None:
    ident = identity_fields(ctx)
    cg = CallGraph(ctx.index)
    exp = ("no store/append/pop reaching an identity field of a dataset's cfg is reachable from serialize()/save(): a config that "
           "changes because it was written breaks `assert member_cfg == ds.cfg` on collection load and from_config's diff check")
    for entry in (f"{MD}.MazeDataset.serialize", f"{CD}.MazeDatasetCollection.serialize", f"{DS}.GPTDataset.save"):
        closure = cg.closure([entry])
        found = []
        for q, path in closure.items():
            f = ctx.index.functions[q]
            for m in cfg_identity_mutations(f.node, ident):
                found.append({"in": q, "line": m.lineno, "stmt": X.U(m)[:100], "call_path": path})
        e = ctx.index.functions[entry]
        slot = {"entry": entry, "reachable_functions": len(closure), "identity_fields": sorted(ident), "mutations": found[:5]}
        ctx.judge(e, not found, slot, exp,
                  "serialising mutates the configuration's identity: " + (f"{found[0]['stmt']} in {found[0]['in']} via {' -> '.join(p.rsplit('.', 1)[-1] for p in found[0]['call_path'])}" if found else ""))
    ctx.stat("name_fallback_resolutions", cg.fallbacks)


RULES = [
    Rule("C05.F10", rule_F10, floor=4, doc="abstract round trip of every storage format (writer then reader over symbolic mazes)"),
    Rule("C05.F1", rule_F1, floor=12, doc="format closure and zanj routing"),
    Rule("C05.F2", rule_F2, floor=8, doc="writer/reader key agreement, nothing stored is dropped"),
    Rule("C05.F5", rule_F5, floor=4, doc="storage capacity"),
    Rule("C05.F6", rule_F6, floor=1, doc="serializer totality over metadata states"),
    Rule("C05.F7", rule_F7, floor=1, doc="threshold selection"),
    Rule("C05.F8", rule_F8, floor=3, doc="serialisation does not drift the configuration's identity"),
    Rule("C05.F12", lambda ctx: (__import__("sa.rules.c08", fromlist=["x"]).rule_G3(ctx), __import__("sa.rules.c08", fromlist=["x"]).rule_G4(ctx)), floor=6,
         doc="'an equal configuration' after a round trip rests on how filters record themselves (tuple args, dict kwargs, the keys the loader reads): C08.G3 / G4 re-judged"),
    Rule("C05.F11", lambda ctx: __import__("sa.rules.c18", fromlist=["x"]).rule_H2(ctx), floor=5,
         doc="'an equal configuration' rests on the configuration's field loaders: C18.H2 re-judged (generator, option dicts, recorded filters come back as they were stored)"),
    Rule("C05.E12", lambda ctx: __import__("sa.mypyx", fromlist=["x"]).cross_check(ctx, [f"{MD}.MazeDataset.serialize", f"{CD}.MazeDatasetCollection.serialize", f"{DS}.GPTDataset.save"], "C05.E12"), floor=1,
         doc="thorough: call graph over-approximates mypy's type-resolved edges on the serialization closure", tier="thorough"),
]

from sa import exits as _exits  # noqa: E402

RULES.append(Rule("C05.RX", _exits.make_rule("C05", "C05.RX", _exits.SCOPES["C05"]), floor=1,
                  doc="rejection conditions: the anchored functions refuse inputs only under the conditions confirmed on the pinned tree (E16)"))

from sa import exits as _exits_ms  # noqa: E402

RULES.append(Rule("C05.MS", _exits_ms.make_state_rule("C05", "C05.MS", _exits_ms.SCOPES.get("C05", [])), floor=1,
                  doc="no hidden module-level state on the anchored path: results do not depend on the history of the process (E17)"))

from sa import exits as _exits_nw  # noqa: E402

RULES.append(Rule("C05.NW", _exits_nw.make_narrowing_rule("C05", "C05.NW", _exits_nw.SCOPES.get("C05", [])), floor=1,
                  doc="no new narrowing cast (8/16-bit element types) on the anchored path: coordinates, lengths and indices do not wrap (E18)"))
