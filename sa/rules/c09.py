"""C09 -- maze objects are values: total structural equality, consistent hash, valid ends

Clauses decided (necessary conditions, not the behaviour): R1 the *effective* __eq__ of each maze
class never feeds arrays to tuple/`==` equality and compares exactly the compare=True fields of
the same kind; R2 the effective __hash__ exists and is total; R3 hash reads only compared fields;
R4 two-sided bounds on start/end in __post_init__, and SolvedMaze.__init__ reaches it;
R5 dataset equality.
"""

from __future__ import annotations

import ast

from sa import normal as N
from sa.dcmodel import DataclassModel
from sa.fold import Evaluator, Obj, Unknown
from sa.index import AnalysisError, ClassInfo, FuncInfo, dotted_of
from sa import astx as X
from sa.report import Ctx, Rule

LM = "maze_dataset.maze.lattice_maze"
MAZE_CLASSES = [f"{LM}.LatticeMaze", f"{LM}.TargetedLatticeMaze", f"{LM}.SolvedMaze"]

EXPLANATION = (
    "Dataclass-semantics model (E9) over LatticeMaze/TargetedLatticeMaze/SolvedMaze: the decorator "
    "arguments, the class bodies along the MRO and the installed muutils source decide which __eq__/"
    "__hash__/__init__/__post_init__ are effective; explicit dunders are then analysed structurally "
    "(total array comparison, field set, kind check, relational normal form of the bounds checks)."
)
ASSUMPTIONS = [
    "numpy.array_equal is total (returns a bool for any pair of operands, incl. different shapes)",
    "CPython dataclasses semantics as tabulated in sa.deps.DATACLASS_HASH_ACTION",
]
TRUSTED = ["ast (CPython 3.12 parser)", "muutils 0.6.21 source as installed in /venv (read, not imported)"]

TOTAL_ARRAY_EQ = {"np.array_equal", "numpy.array_equal"}
PARTIAL_ARRAY_EQ = {"dc_eq", "array_safe_eq", "np.all", "numpy.all", "np.allclose", "numpy.allclose"}


def is_array_annotation(ctx: Ctx, f) -> bool:
    "does the field's annotation resolve to a numpy array alias (jaxtyping[...np.ndarray...])?"
    ann = f.annotation
    seen = 0
    while ann is not None and seen < 6:
        seen += 1
        if isinstance(ann, ast.Subscript):
            txt = ast.unparse(ann)
            return "ndarray" in txt
        d = dotted_of(ann)
        if d is None:
            if isinstance(ann, ast.BinOp):  # unions: array | None
                return "ndarray" in ast.unparse(ann) or any(
                    is_array_annotation(ctx, type(f)(f.name, side, None, f.node, f.owner)) for side in (ann.left, ann.right))
            return False
        q = ctx.index.resolve(f.owner.module, d, f.owner)
        modname, _, name = q.rpartition(".")
        m = ctx.index.modules.get(modname)
        if m is None or name not in m.assigns:
            return "ndarray" in q
        ctx.index.consulted.add(m.relpath)
        ann = m.assigns[name]
    return False


# --------------------------------------------------------------------------- explicit __eq__
def _self_other_field(node: ast.AST, a: str, b: str, loopvar: str | None):
    """('self'|'other', fieldname|'<loop>') for `self.f`, `getattr(self, 'f')`, `getattr(self, fld.name)`"""
    if isinstance(node, ast.Attribute) and isinstance(node.value, ast.Name) and node.value.id in (a, b):
        return ("self" if node.value.id == a else "other", node.attr)
    if isinstance(node, ast.Call) and dotted_of(node.func) == "getattr" and len(node.args) >= 2:
        o, n = node.args[0], node.args[1]
        if isinstance(o, ast.Name) and o.id in (a, b):
            who = "self" if o.id == a else "other"
            if isinstance(n, ast.Constant) and isinstance(n.value, str):
                return (who, n.value)
            if loopvar and dotted_of(n) == f"{loopvar}.name":
                return (who, "<loop>")
    return None


def analyse_explicit_eq(ctx: Ctx, fn: FuncInfo, cls: ClassInfo, model: DataclassModel) -> dict:
    """returns {'foreign': bool, 'kind': bool, 'fields': set[str]|None, 'partial': [text], 'unknown': [text]}"""
    params = fn.params()
    if len(params) != 2:
        raise AnalysisError(f"{fn.qualname}: unexpected signature")
    a, b = params
    res = {"foreign": False, "kind": False, "fields": set(), "partial": [], "unknown": []}
    all_fields = ctx.index.all_fields(cls)

    def kind_test(t: ast.AST) -> str | None:
        "classify a guard: 'foreign' (isinstance/not isinstance other), 'kind+' (types equal), 'kind-' (types differ)"
        if isinstance(t, ast.UnaryOp) and isinstance(t.op, ast.Not):
            k = kind_test(t.operand)
            return {"isinst": "foreign", "kind+": "kind-", "kind-": "kind+"}.get(k)
        if isinstance(t, ast.Call) and dotted_of(t.func) == "isinstance" and isinstance(t.args[0], ast.Name) and t.args[0].id == b:
            return "isinst"
        if isinstance(t, ast.Compare) and len(t.ops) == 1:
            l, r = ast.unparse(t.left), ast.unparse(t.comparators[0])
            pair = {l, r}
            if pair in ({f"type({a})", f"type({b})"}, {f"{a}.__class__", f"{b}.__class__"}):
                if isinstance(t.ops[0], (ast.Is, ast.Eq)):
                    return "kind+"
                if isinstance(t.ops[0], (ast.IsNot, ast.NotEq)):
                    return "kind-"
        return None

    def const_false(v: ast.AST | None) -> bool:
        return isinstance(v, ast.Constant) and v.value is False or (isinstance(v, ast.Name) and v.id == "NotImplemented")

    def conj(e: ast.AST, loopvar: str | None = None, active: set[str] | None = None):
        "walk the returned truth expression"
        if isinstance(e, ast.BoolOp) and isinstance(e.op, ast.And):
            for v in e.values:
                conj(v, loopvar, active)
            return
        k = kind_test(e)
        if k == "kind+":
            res["kind"] = True
            return
        if k == "isinst":
            res["foreign"] = True
            return
        if isinstance(e, ast.Call) and isinstance(e.func, ast.Attribute) and e.func.attr in ("all", "any") \
                and isinstance(e.func.value, ast.Compare):
            res["partial"].append(ast.unparse(e))
            return
        if isinstance(e, ast.Call):
            d = dotted_of(e.func) or ""
            if d == "all" and len(e.args) == 1 and isinstance(e.args[0], (ast.GeneratorExp, ast.ListComp)):
                g = e.args[0]
                if len(g.generators) != 1 or not isinstance(g.generators[0].target, ast.Name):
                    res["unknown"].append(ast.unparse(e))
                    return
                gen = g.generators[0]
                it = gen.iter
                lv = gen.target.id
                itd = dotted_of(it.func) if isinstance(it, ast.Call) else None
                if itd in ("fields", "dataclasses.fields") and len(it.args) == 1 and isinstance(it.args[0], ast.Name) and it.args[0].id in (a, b):
                    ev = Evaluator()
                    act = set()
                    for fname, fi in all_fields.items():
                        env = {lv: Obj("Field", {"name": fname, "compare": fi.bool_kwarg("compare", True)})}
                        try:
                            if all(ev.ev(c, env) for c in gen.ifs):
                                act.add(fname)
                        except Unknown as u:
                            res["unknown"].append(f"field filter: {u}")
                            return
                    conj(g.elt, lv, act)
                    return
                res["unknown"].append(ast.unparse(e))
                return
            if d in TOTAL_ARRAY_EQ and len(e.args) == 2:
                x = _self_other_field(e.args[0], a, b, loopvar)
                y = _self_other_field(e.args[1], a, b, loopvar)
                if x and y and {x[0], y[0]} == {"self", "other"} and x[1] == y[1]:
                    if x[1] == "<loop>":
                        res["fields"] |= set(active or ())
                    else:
                        res["fields"].add(x[1])
                    return
                res["unknown"].append(ast.unparse(e))
                return
            if d in PARTIAL_ARRAY_EQ or d.endswith(".all") or d.endswith(".__eq__"):
                res["partial"].append(ast.unparse(e))
                return
            res["unknown"].append(ast.unparse(e))
            return
        if isinstance(e, ast.Compare):
            # `self.f == other.f` on fields
            x = _self_other_field(e.left, a, b, loopvar)
            y = _self_other_field(e.comparators[0], a, b, loopvar) if len(e.comparators) == 1 else None
            if x and y:
                names = set(active or ()) if x[1] == "<loop>" else {x[1]}
                arrays = [n for n in names if n in all_fields and is_array_annotation(ctx, all_fields[n])]
                if arrays:
                    res["partial"].append(ast.unparse(e))
                else:
                    res["fields"] |= names
                return
        res["unknown"].append(ast.unparse(e))

    body = [s for s in fn.node.body if not (isinstance(s, ast.Expr) and isinstance(s.value, ast.Constant))]
    for st in body:
        if isinstance(st, ast.If) and not st.orelse and len(st.body) == 1 and isinstance(st.body[0], ast.Return):
            k = kind_test(st.test)
            if k == "foreign" and const_false(st.body[0].value):
                res["foreign"] = True
                continue
            if k == "kind-" and const_false(st.body[0].value):
                res["kind"] = True
                continue
            res["unknown"].append(ast.unparse(st.test))
        elif isinstance(st, ast.Return) and st.value is not None:
            conj(st.value)
        else:
            res["unknown"].append(ast.unparse(st)[:80])
    return res


def rule_R1(ctx: Ctx) -> None:
    model = DataclassModel(ctx.index, ctx.deps)
    for q in MAZE_CLASSES:
        c = ctx.index.cls(q)
        eq = model.effective(c, "__eq__")
        compared = model.compared_fields(c)
        arrays = [f.name for f in compared if is_array_annotation(ctx, f)]
        slot = {"effective___eq__": eq.to_json(), "compared_fields": [f.name for f in compared], "array_fields": arrays}
        exp = ("effective __eq__ is explicit, total on arrays (np.array_equal), false for other kinds/foreign types, "
               "and compares exactly the compare=True fields")
        if eq.kind == "generated":
            ctx.judge(c, not arrays, slot, exp,
                      "dataclass-generated __eq__ compares field tuples with ==; with ndarray fields that raises "
                      "ValueError (ambiguous truth value) for any two mazes that are not the same object")
        elif eq.kind in ("external", "object"):
            total = ctx.deps.array_safe_eq_is_total() if eq.kind == "external" else True
            ctx.judge(c, False if (eq.kind == "object" or not total) else None, slot, exp,
                      "inherited muutils dc_eq/array_safe_eq uses (a == b).all() without a shape guard (raises on "
                      "non-broadcastable shapes)" if eq.kind == "external" else "identity comparison only")
        elif eq.kind == "explicit":
            r = analyse_explicit_eq(ctx, eq.func, c, model)
            want = {f.name for f in compared}
            slot.update({"fields_compared": sorted(r["fields"]), "foreign_type_guard": r["foreign"],
                         "same_kind_check": r["kind"], "partial_array_comparisons": r["partial"],
                         "unrecognised": r["unknown"]})
            if r["partial"]:
                ctx.violation(c, slot, exp, "arrays compared through a primitive that is not total")
            elif r["unknown"]:
                # located slot (the effective explicit __eq__) with a conjunct outside the enumerated accepted set
                ctx.violation(c, slot, exp, "a comparison in __eq__ is not in the accepted total set {np.array_equal(self.f, other.f)} "
                              f"(kind/foreign-type guards aside): {r['unknown'][0][:80]} - e.g. np.array_equiv broadcasts, `is` compares identity")
            elif r["fields"] != want:
                ctx.violation(c, slot, exp, f"compares {sorted(r['fields'])}, compare=True fields are {sorted(want)}")
            elif not r["kind"]:
                ctx.violation(c, slot, exp, "no same-kind check: mazes of different kinds with equal shared fields compare equal")
            elif not r["foreign"]:
                ctx.violation(c, slot, exp, "no foreign-type guard: comparing with a non-maze reads missing attributes and raises")
            else:
                ctx.holds(c, slot, exp)
        else:
            ctx.violation(c, slot, exp, "__eq__ is None")


def _hash_noncanonical(fn: FuncInfo) -> list[str]:
    """array reads hashed as raw bytes without a fixed dtype: `self.f.tobytes()` is dtype-dependent, while
    __eq__ (np.array_equal) compares values; accepted: self.f.astype(<dtype>).tobytes(), np.asarray(self.f, dtype=..).tobytes(),
    self.f.tolist()"""
    selfname = fn.params()[0]
    out = []
    for n in ast.walk(fn.node):
        if isinstance(n, ast.Call) and isinstance(n.func, ast.Attribute) and n.func.attr == "tobytes":
            v = n.func.value
            if isinstance(v, ast.Attribute) and isinstance(v.value, ast.Name) and v.value.id == selfname:
                out.append(ast.unparse(n))
    return out


def _hash_reads(fn: FuncInfo) -> tuple[set[str], list[str]]:
    "attributes of self read in __hash__; and unhashable array reads (not through .tobytes())"
    selfname = fn.params()[0]
    reads, bad = set(), []
    parents = {}
    for n in ast.walk(fn.node):
        for ch in ast.iter_child_nodes(n):
            parents[ch] = n
    for n in ast.walk(fn.node):
        if isinstance(n, ast.Attribute) and isinstance(n.value, ast.Name) and n.value.id == selfname:
            reads.add(n.attr)
            p = parents.get(n)
            ok = isinstance(p, ast.Attribute) and p.attr in ("tobytes", "shape", "dtype", "astype", "tolist") or (
                isinstance(p, ast.Call) and dotted_of(p.func) in ("tuple", "bytes", "str", "repr"))
            if not ok:
                bad.append(ast.unparse(n))
    return reads, bad


def rule_R2_R3(ctx: Ctx) -> None:
    model = DataclassModel(ctx.index, ctx.deps)
    for q in MAZE_CLASSES:
        c = ctx.index.cls(q)
        h = model.effective(c, "__hash__")
        compared = {f.name for f in model.compared_fields(c)}
        all_fields = ctx.index.all_fields(c)
        slot = {"effective___hash__": h.to_json()}
        exp = "effective __hash__ exists, is total (arrays only via .tobytes()) and reads only compared fields"
        if h.kind == "none":
            ctx.violation(c, slot, exp, "__hash__ is None: instances are unhashable", rule="C09.R2")
        elif h.kind == "generated":
            arr = [f.name for f in model.hashed_fields(c) if is_array_annotation(ctx, f)]
            slot["hashed_array_fields"] = arr
            ctx.judge(c, not arr, slot, exp, "dataclass-generated __hash__ hashes a tuple of the fields; ndarray is unhashable -> TypeError", rule="C09.R2")
        elif h.kind == "external":
            ctx.violation(c, slot, exp, "inherited SerializableDataclass.__hash__ hashes json.dumps(serialize()) which fails on arrays", rule="C09.R2")
        elif h.kind == "object":
            ctx.violation(c, slot, exp, "identity hash: equal mazes hash differently", rule="C09.R2")
        else:
            reads, bad = _hash_reads(h.func)
            arr_bad = [b for b in bad if b.split(".")[-1] in all_fields and is_array_annotation(ctx, all_fields[b.split(".")[-1]])]
            slot.update({"reads": sorted(reads), "array_reads_not_via_tobytes": arr_bad})
            ctx.judge(c, not arr_bad, slot, exp, "array field hashed directly", rule="C09.R2")
            raw = _hash_noncanonical(h.func)
            ctx.judge(c, not raw, {"raw_byte_reads": raw},
                      "arrays are hashed in a canonical dtype (x.astype(T).tobytes()), because __eq__ compares values: equal mazes must hash equally "
                      "whatever integer width their arrays have (loaded mazes: int8, solved mazes: int64)",
                      "two mazes that compare equal hash differently when their array dtypes differ: set()/dict de-duplication keeps both", rule="C09.R3")
            extra = sorted(r for r in reads if r in all_fields and r not in compared)
            ctx.judge(c, not extra and bool(reads & compared), {"reads": sorted(reads), "compared": sorted(compared), "not_compared": extra},
                      "attributes read by __hash__ are a non-empty subset of the compared fields (equal mazes => equal hashes)",
                      "hash depends on a field that equality ignores", rule="C09.R3")


def _raise_guards(fn: FuncInfo) -> list[tuple[ast.If, list[N.Atom]]]:
    "every `if T: raise ValueError` of the function with T's disjuncts as atoms (None if T is not a pure disjunction)"
    out = []
    for n in N.walk_no_nested_defs(fn.node):
        if isinstance(n, ast.If) and any(isinstance(s, ast.Raise) for s in n.body):
            nf = N.boolean_nf(n.test)
            if isinstance(nf, N.Atom):
                out.append((n, [nf]))
            elif nf[0] == "or" and all(isinstance(k, N.Atom) for k in nf[1]):
                out.append((n, list(nf[1])))
            else:
                out.append((n, None))
    return out


def rule_R4(ctx: Ctx) -> None:
    model = DataclassModel(ctx.index, ctx.deps)
    c = ctx.index.cls(f"{LM}.TargetedLatticeMaze")
    pi = model.post_init(c)
    exp_all = "both `pos[axis] < 0` and `pos[axis] >= grid_shape[axis]` reach `raise ValueError`"
    if pi is None:
        ctx.violation(c, {"__post_init__": None}, exp_all, "no __post_init__: endpoints are never checked")
        return
    init = model.effective(c, "__init__")
    ctx.judge(c, init.kind == "generated", {"effective___init__": init.to_json()},
              "TargetedLatticeMaze.__init__ is dataclass-generated (it calls __post_init__)")
    # the value that is checked must be the value that was given: a narrowing conversion (int8 / int16 / unsigned) before the checks wraps
    # out-of-range coordinates back into range (256 -> 0) and voids them
    NARROW = ("int8", "int16", "uint8", "uint16", "uint32", "uint64", "byte", "short", "ubyte")
    for n in ast.walk(pi.node):
        if isinstance(n, ast.Assign) and any(p_ in X.U(n.targets[0]) for p_ in ("start_pos", "end_pos")):
            narrow = None
            for c_ in ast.walk(n.value):
                if isinstance(c_, ast.Call):
                    dt = N.kwarg(c_, "dtype") or (c_.args[0] if dotted_of(c_.func) is None and isinstance(c_.func, ast.Attribute) and c_.func.attr == "astype" and c_.args else None)
                    if isinstance(c_.func, ast.Attribute) and c_.func.attr == "astype" and c_.args:
                        dt = c_.args[0]
                    if dt is not None and X.U(dt).rsplit(".", 1)[-1].strip("'\"") in NARROW:
                        narrow = X.U(dt)
            ctx.judge(pi, narrow is None, {"store": X.U(n)[:100], "narrowing_dtype": narrow},
                      "endpoints are converted to an array without narrowing before they are range-checked",
                      "a coordinate such as 256 (or -256) wraps to 0 before the bounds check and is accepted", node=n)
    guards = _raise_guards(pi)
    raised: set[tuple] = set()
    vector: dict[tuple[str, str], bool] = {}
    opaque = []
    for node, atoms in guards:
        exc = next(s for s in node.body if isinstance(s, ast.Raise))
        exc_name = dotted_of(exc.exc.func) if isinstance(exc.exc, ast.Call) else dotted_of(exc.exc) if exc.exc else None
        if exc_name != "ValueError":
            continue
        if atoms is None:
            opaque.append(ast.unparse(node.test))
            continue
        for a in atoms:
            raised.add(a.key())
            # vectorised forms: (self.pos < 0).any(), (self.pos >= self.grid_shape).any()
            if a.diff is None and a.op == "true":
                t = a.text
                for pos in ("start_pos", "end_pos"):
                    for txt, side in ((f"(self.{pos} < 0).any()", "lo"), (f"np.any(self.{pos} < 0)", "lo"),
                                      (f"(self.{pos} >= self.grid_shape).any()", "hi"), (f"np.any(self.{pos} >= self.grid_shape)", "hi"),
                                      (f"(0 > self.{pos}).any()", "lo"), (f"(self.grid_shape <= self.{pos}).any()", "hi")):
                        if t == txt:
                            vector[(pos, side)] = True
    for pos in ("start_pos", "end_pos"):
        for axis in (0, 1):
            p = ast.parse(f"self.{pos}[{axis}]", mode="eval").body
            g = ast.parse(f"self.grid_shape[{axis}]", mode="eval").body
            lo = N.compare_atom(p, ast.Lt(), ast.Constant(0)).key()
            hi = N.compare_atom(p, ast.GtE(), g).key()
            for side, key in (("lo", lo), ("hi", hi)):
                ok = key in raised or vector.get((pos, side), False)
                slot = {"pos": pos, "axis": axis, "side": "lower (<0)" if side == "lo" else "upper (>= grid_shape)",
                        "guarded": ok, "unrecognised_guards": opaque}
                if ok:
                    ctx.holds(pi, slot, exp_all)
                elif opaque:
                    ctx.unknown(pi, slot, exp_all, "a guard of unfamiliar shape may or may not cover this bound")
                else:
                    # near misses: strict `>` upper bound is a rejected value
                    ctx.violation(pi, slot, exp_all,
                                  "this bound never reaches `raise ValueError`: an out-of-grid coordinate is accepted "
                                  "(negative indices silently wrap around)")
    # SolvedMaze.__init__ reaches super().__init__ on every non-raising path, endpoints from the solution
    s = ctx.index.cls(f"{LM}.SolvedMaze")
    sinit = model.effective(s, "__init__")
    if sinit.kind == "explicit":
        from sa.cfg import build_cfg

        g = build_cfg(sinit.func.node)
        sup = [n for n in g.nodes if n.ast is not None and any(
            isinstance(c_, ast.Call) and ast.unparse(c_.func) == "super().__init__" for c_ in ast.walk(n.ast))]
        ok = bool(sup) and g.every_path_to_exit_passes(set(sup), normal_only=True)
        ctx.judge(sinit.func, ok, {"super_init_calls": len(sup), "on_every_non_raising_path": ok},
                  "SolvedMaze.__init__ calls super().__init__ (and thereby __post_init__) on every path that returns normally",
                  "a path constructs a SolvedMaze without running the endpoint bounds check")
        # ... and the ValueError of that check leaves the constructor: the delegating call is not inside a `try` whose handler swallows it
        from sa.fold import Evaluator as _Ev

        par = X.parents_map(sinit.func.node)
        swallowed = []
        for c_ in ast.walk(sinit.func.node):
            if not (isinstance(c_, ast.Call) and ast.unparse(c_.func) == "super().__init__"):
                continue
            n_, child = par.get(c_), c_
            while n_ is not None:
                if isinstance(n_, ast.Try) and any(child is b_ or any(child is x_ for x_ in ast.walk(b_)) for b_ in n_.body):
                    for h_ in n_.handlers:
                        names = [ast.unparse(t_) for t_ in ast.walk(h_.type) if isinstance(t_, (ast.Name, ast.Attribute))] if h_.type is not None else ["BaseException"]
                        catches = any(_Ev._exc_matches("ValueError", nm_) for nm_ in names)
                        reraises = any(isinstance(x_, ast.Raise) for x_ in ast.walk(h_))
                        if catches and not reraises:
                            swallowed.append(ast.unparse(h_.type)[:80] if h_.type is not None else "bare except")
                child, n_ = n_, par.get(n_)
        ctx.judge(sinit.func, not swallowed, {"handlers_that_swallow_the_bounds_error": swallowed},
                  "the ValueError raised by the endpoint bounds check propagates out of SolvedMaze.__init__",
                  "a solved maze whose first or last cell lies outside the grid is constructed without an error")
    else:
        ctx.judge(s, sinit.kind == "generated", {"effective___init__": sinit.to_json()},
                  "SolvedMaze.__init__ is explicit-and-delegating or generated")


def rule_R5(ctx: Ctx) -> None:
    """dataset equality as a decision table over (other is a MazeDataset, configs equal, maze lists equal): the result is
    NotImplemented / False for foreign types, otherwise exactly the conjunction - whatever the control flow looks like"""
    from sa import dtable as DT

    fn = ctx.index.func("maze_dataset.dataset.maze_dataset.MazeDataset.__eq__")
    a, b = fn.params()
    atoms = {"same_type": [f"isinstance({b}, MazeDataset)", f"isinstance({b}, type({a}))", f"isinstance({b}, {a}.__class__)", f"type({a}) is type({b})", f"type({b}) is type({a})"],
             "cfg_equal": [f"{a}.cfg == {b}.cfg", f"{b}.cfg == {a}.cfg"],
             "mazes_equal": [f"{a}.mazes == {b}.mazes", f"{b}.mazes == {a}.mazes"]}
    t = DT.DecisionTable(fn.node, atoms)
    rows = t.rows()

    def expected(asg):
        def pred(o):
            if o[0] != "return" or o[1] is None:
                return False
            if not asg["same_type"]:
                return X.U(o[1]) in ("NotImplemented", "False")
            try:
                return t.truth(o[1], asg) == (asg["cfg_equal"] and asg["mazes_equal"])
            except Exception:
                return False
        return pred
    ok, rep = DT.judge_table(rows, expected)
    bad = [r for r in rep if r["ok"] is False]
    ctx.judge(fn, ok, {"rows": len(rep), "deviations": bad[:3], "undecided": [r for r in rep if r["ok"] is None][:2]},
              "NotImplemented/False for foreign types, otherwise cfg == cfg and mazes == mazes",
              "datasets compare equal although a component differs (or through a weaker function of it, e.g. its length), or unequal although both agree")


RULES = [
    Rule("C09.R1", rule_R1, floor=3, doc="effective __eq__ total, same-kind, exactly the compared fields"),
    Rule("C09.R2", rule_R2_R3, floor=4, doc="effective __hash__ exists and is total; reads subset of compared fields (R3)"),
    Rule("C09.R4", rule_R4, floor=10, doc="two-sided endpoint bounds; SolvedMaze.__init__ reaches the check"),
    Rule("C09.R5", rule_R5, floor=1, doc="dataset equality"),
]

from sa import dims as _dims  # noqa: E402

RULES.append(Rule("C09.AX", _dims.make_rule("C09", "C09.AX"), floor=1,
                  doc="axis-extent agreement: coordinate components are bounded by the extent of their own axis (E13)"))

from sa import exits as _exits  # noqa: E402

RULES.append(Rule("C09.RX", _exits.make_rule("C09", "C09.RX", _exits.SCOPES["C09"]), floor=1,
                  doc="rejection conditions: the anchored functions refuse inputs only under the conditions confirmed on the pinned tree (E16)"))

from sa import exits as _exits_ms  # noqa: E402

RULES.append(Rule("C09.MS", _exits_ms.make_state_rule("C09", "C09.MS", _exits_ms.SCOPES.get("C09", [])), floor=1,
                  doc="no hidden state on the anchored path (module level, per object, memoising decorators): results do not depend on the history of the process (E17)"))

from sa import exits as _exits_nw  # noqa: E402

RULES.append(Rule("C09.NW", _exits_nw.make_narrowing_rule("C09", "C09.NW", _exits_nw.SCOPES.get("C09", [])), floor=1,
                  doc="no new narrowing cast (8/16-bit element types) on the anchored path: coordinates, lengths and indices do not wrap (E18)"))
