"""C16 -- a dataset collection is exactly the concatenation of its member datasets

Clauses: Q1 index idiom of __getitem__ (searchsorted side, local index); Q2 one source of truth
(len, lengths, cumulative lengths, flattened mazes all derive from self.maze_datasets in order).
"""

from __future__ import annotations

import ast

from sa import astx as X
from sa import normal as N
from sa.index import dotted_of
from sa.report import Ctx, Rule

CD = "maze_dataset.dataset.collected_dataset"
C = f"{CD}.MazeDatasetCollection"

EXPLANATION = (
    "The global-to-local index mapping of MazeDatasetCollection.__getitem__ is matched against the two correct searchsorted idioms "
    "(left on index+1 / right on index) with the local offset cum[k-1]; every aggregate (len, lengths, cumulative lengths, flattened "
    "list, update_self_config) is checked to derive from self.maze_datasets in member order."
)
ASSUMPTIONS = ["np.searchsorted / itertools.accumulate / chain.from_iterable semantics",
               "observation (not armed): MazeDatasetCollectionConfig.n_mazes sums the member *configs'* n_mazes, which equals the lengths only when each member config's count matches its dataset"]
TRUSTED = ["ast"]


def _abstract_collections(ctx):
    """evaluate the collection's aggregates and indexing over abstract member datasets (symbolic mazes) for every vector of
    member lengths in {0,1,2}^k, k <= 4 (121 collections, the empty collection and zeros at every position included)"""
    import itertools

    from sa.absobj import AbstractClass
    from sa.fold import EvalRaised, Obj, Unknown

    def getitem(o, k):
        if o.cls == "DS":
            return o.attrs["mazes"][k]
        raise Unknown("subscript of abstract object")

    ac = AbstractClass(ctx.index, C, len_of=lambda o: len(o.attrs["mazes"]), getitem_of=getitem)
    if ctx.tier == "thorough":  # deeper bound: lengths 0..3, up to 5 members (1365 collections, ~10 000 indices)
        vectors = [v for k in range(0, 6) for v in itertools.product((0, 1, 2, 3), repeat=k)]
    else:
        vectors = [v for k in range(0, 5) for v in itertools.product((0, 1, 2), repeat=k)]
    dev: dict[str, list] = {"__len__": [], "dataset_lengths": [], "dataset_cum_lengths": [], "mazes": [], "__getitem__": []}
    unknown: dict[str, str] = {}
    n_idx = 0
    for vec in vectors:
        members = [Obj("DS", {"mazes": [f"m{k}.{i}" for i in range(n)], "cfg": Obj("DScfg", {"n_mazes": n})}) for k, n in enumerate(vec)]
        flat = [m for d in members for m in d.attrs["mazes"]]
        # the config's own count is *not* a source of truth for the collection (it is compare=False because it drifts): symbolic value
        self_obj = Obj("self", {"maze_datasets": members, "cfg": Obj("CollectionCfg", {"n_mazes": "<cfg.n_mazes: possibly stale>"})})
        want = {"__len__": len(flat), "dataset_lengths": list(vec), "dataset_cum_lengths": list(itertools.accumulate(vec)), "mazes": flat}
        for name, w in want.items():
            if name in unknown:
                continue
            try:
                got = ac.call(self_obj, name, [])
                got = list(got) if isinstance(got, (list, tuple)) else got
            except EvalRaised as e:
                got = f"raises {e.exc_name}"
            except Unknown as e:
                unknown[name] = str(e)[:160]
                continue
            if got != w and len(dev[name]) < 3:
                dev[name].append({"member_lengths": list(vec), "found": got, "expected": w})
            after = [list(d.attrs["mazes"]) for d in members]
            if after != [[f"m{k}.{i}" for i in range(n)] for k, n in enumerate(vec)] and len(dev[name]) < 3:
                dev[name].append({"member_lengths": list(vec), "members_after_the_call": after, "expected": "members unchanged (the aggregate must not alias and extend a member's own list)"})
                for k, n in enumerate(vec):
                    members[k].attrs["mazes"][:] = [f"m{k}.{i}" for i in range(n)]
        if "__getitem__" not in unknown:
            for i, w in enumerate(flat):
                n_idx += 1
                try:
                    got = ac.call(self_obj, "__getitem__", [i])
                except EvalRaised as e:
                    got = f"raises {e.exc_name}"
                except Unknown as e:
                    unknown["__getitem__"] = str(e)[:160]
                    break
                if got != w and len(dev["__getitem__"]) < 3:
                    dev["__getitem__"].append({"member_lengths": list(vec), "index": i, "found": got, "expected": w})
    return len(vectors), n_idx, dev, unknown


def rule_Q1(ctx: Ctx) -> None:
    f = ctx.index.func(f"{C}.__getitem__")
    n_vec, n_idx, dev, unknown = _abstract_collections(ctx)
    exp = ("for every collection with member lengths in {0,1,2}^k (k <= 4) and every valid index i, collection[i] is the i-th maze of the "
           "concatenation of the members (the first member whose cumulative length exceeds i, at the local offset)")
    ok = None if "__getitem__" in unknown else not dev["__getitem__"]
    ctx.judge(f, ok, {"collections": n_vec, "indices_evaluated": n_idx, "deviations": dev["__getitem__"], "undecided": unknown.get("__getitem__")}, exp,
              "items at member boundaries come from the neighbouring member (off-by-one), empty members are not skipped, or the local index is shifted")
    # the search itself is a binary search on the cumulative lengths (documented mechanism; any correct spelling is accepted above)
    ss = [c for c in X.calls(f.node) if dotted_of(c.func) in ("np.searchsorted", "numpy.searchsorted", "bisect.bisect_right", "bisect.bisect_left", "bisect.bisect")]
    ctx.holds(f, {"search_calls": [X.U(c)[:80] for c in ss]}, "observation: how the member is located")
    rets = X.returns_of(f.node)
    ctx.judge(f, bool(rets) and all(r.value is not None for r in rets), {"returns": [X.U(r.value)[:80] for r in rets]}, "indexing returns the member's own maze object (no copy is required or forbidden by the property)")


def rule_Q2(ctx: Ctx) -> None:
    def single(name):
        f = ctx.index.func(f"{C}.{name}")
        r = X.returns_of(f.node)
        return f, (r[0].value if len(r) == 1 else None)

    n_vec, n_idx, dev, unknown = _abstract_collections(ctx)
    docs = {"__len__": ("len = sum of the members' lengths", "the collection's length disagrees with its members"),
            "dataset_lengths": ("per-member lengths, in member order", "lengths are listed in another order / for other members"),
            "dataset_cum_lengths": ("cumulative lengths = inclusive running totals of the member lengths", "an exclusive/shifted running total breaks the index search"),
            "mazes": ("the flattened maze list chains the members' mazes in member order", "the flattened list is ordered differently from indexing")}
    for nm, (e_, why) in docs.items():
        fn_ = ctx.index.func(f"{C}.{nm}")
        ok = None if nm in unknown else not dev[nm]
        ctx.judge(fn_, ok, {"collections": n_vec, "deviations": dev[nm], "undecided": unknown.get(nm)}, e_ + " (abstract evaluation over every member-length vector in {0,1,2}^k, k <= 4)", why)
    # the index tables are recomputed from the members on every access (plain properties); only `mazes` is cached (tabulated: as in the pinned tree)
    for nm in ("dataset_lengths", "dataset_cum_lengths"):
        fn = ctx.index.func(f"{C}.{nm}")
        kinds = [d.name.rsplit(".", 1)[-1] for d in fn.decorators]
        ctx.judge(fn, kinds == ["property"], {"decorators": kinds},
                  "lengths and cumulative lengths are plain properties derived from the current members (len(), indexing and lengths cannot disagree after a member changes)",
                  "a cached table goes stale when a member dataset changes (filters, update_self_config): __getitem__ maps indices through old boundaries while len() is live")
    init = ctx.index.func(f"{C}.__init__")
    st = [s for s in ast.walk(init.node) if isinstance(s, (ast.Assign, ast.AnnAssign)) and X.U(s.targets[0] if isinstance(s, ast.Assign) else s.target) == "self.maze_datasets"]
    ok = len(st) == 1 and X.U(st[0].value) == "list(maze_datasets)"
    ctx.judge(init, ok, {"store": X.U(st[0]) if st else None}, "members are kept as given, in order")
    u = ctx.index.func(f"{C}.update_self_config")
    ok = any(X.same_stmt(s, "self.cfg.__dict__['n_mazes'] = len(self)", "self.cfg.n_mazes = len(self)") for s in ast.walk(u.node) if isinstance(s, ast.Assign)) and \
        any(isinstance(n, ast.For) and X.U(n.iter) == "self.maze_datasets" and "update_self_config()" in X.U(n) for n in ast.walk(u.node))
    ctx.judge(u, ok, {}, "update_self_config records len(self) and refreshes every member's count")
    cfgc = ctx.index.func(f"{CD}.MazeDatasetCollectionConfig.n_mazes")
    r = X.returns_of(cfgc.node)
    ok = len(r) == 1 and X.same_expr(r[0].value, "sum(config.n_mazes for config in self.maze_dataset_configs)", "sum([config.n_mazes for config in self.maze_dataset_configs])")
    ctx.judge(cfgc, ok, {"returns": X.U(r[0].value) if r else None}, "the config's maze count is the sum of the member configs' counts")
    gen = ctx.index.func(f"{C}.generate")
    lc = [n for n in ast.walk(gen.node) if isinstance(n, ast.ListComp)]
    ok = len(lc) == 1 and X.U(lc[0].generators[0].iter) == "cfg.maze_dataset_configs" and not lc[0].generators[0].ifs and "MazeDataset.generate(config" in X.U(lc[0].elt)
    ctx.judge(gen, ok, {"members": X.U(lc[0]) if lc else None}, "generate builds one member per member config, in order")


RULES = [
    Rule("C16.Q1", rule_Q1, floor=3, doc="index idiom"),
    Rule("C16.Q2", rule_Q2, floor=10, doc="one source of truth"),
]

from sa import exits as _exits  # noqa: E402

RULES.append(Rule("C16.RX", _exits.make_rule("C16", "C16.RX", _exits.SCOPES["C16"]), floor=1,
                  doc="rejection conditions: the anchored functions refuse inputs only under the conditions confirmed on the pinned tree (E16)"))

from sa import exits as _exits_ms  # noqa: E402

RULES.append(Rule("C16.MS", _exits_ms.make_state_rule("C16", "C16.MS", _exits_ms.SCOPES.get("C16", [])), floor=1,
                  doc="no hidden module-level state on the anchored path: results do not depend on the history of the process (E17)"))

from sa import exits as _exits_nw  # noqa: E402

RULES.append(Rule("C16.NW", _exits_nw.make_narrowing_rule("C16", "C16.NW", _exits_nw.SCOPES.get("C16", [])), floor=1,
                  doc="no new narrowing cast (8/16-bit element types) on the anchored path: coordinates, lengths and indices do not wrap (E18)"))
