"""C16 -- a dataset collection is exactly the concatenation of its member datasets

Clauses: Q1 index idiom of __getitem__ (searchsorted side, local index); Q2 one source of truth
(len, lengths, cumulative lengths, flattened mazes all derive from self.maze_datasets in order).
"""

from __future__ import annotations

import ast

from sa import astx as X
from sa import normal as N
from sa.index import dotted_of
from sa.report import Ctx, Rule

CD = "maze_dataset.dataset.collected_dataset"
C = f"{CD}.MazeDatasetCollection"

EXPLANATION = (
    "The global-to-local index mapping of MazeDatasetCollection.__getitem__ is matched against the two correct searchsorted idioms "
    "(left on index+1 / right on index) with the local offset cum[k-1]; every aggregate (len, lengths, cumulative lengths, flattened "
    "list, update_self_config) is checked to derive from self.maze_datasets in member order."
)
ASSUMPTIONS = ["np.searchsorted / itertools.accumulate / chain.from_iterable semantics",
               "observation (not armed): MazeDatasetCollectionConfig.n_mazes sums the member *configs'* n_mazes, which equals the lengths only when each member config's count matches its dataset"]
TRUSTED = ["ast"]


def rule_Q1(ctx: Ctx) -> None:
    f = ctx.index.func(f"{C}.__getitem__")
    ix = f.params()[1]
    ss = [c for c in X.calls(f.node) if dotted_of(c.func) in ("np.searchsorted", "numpy.searchsorted")]
    exp = "member k = searchsorted(cum_lengths, index + 1) (left) or searchsorted(cum_lengths, index, side='right'): the first member whose cumulative length exceeds index"
    if len(ss) != 1:
        ctx.unknown(f, {"searchsorted_calls": len(ss)}, exp)
        return
    c = ss[0]
    arr = X.U(c.args[0])
    val = c.args[1] if len(c.args) > 1 else N.kwarg(c, "v")
    side = N.kwarg(c, "side")
    side_v = side.value if isinstance(side, ast.Constant) else ("left" if side is None else "?")
    a = N.affine(val)
    off = a.get(1, 0)
    coef = a.get(ix, 0)
    ok = arr == "self.dataset_cum_lengths" and coef == 1 and len([k for k in a if k != 1]) == 1 and ((side_v == "left" and off == 1) or (side_v == "right" and off == 0))
    ctx.judge(f, ok, {"call": X.U(c), "array": arr, "value": N.aff_str(a), "side": side_v}, exp,
              "items at member boundaries come from the neighbouring member (off-by-one), and empty members are not skipped", node=c)
    kname = None
    for s in ast.walk(f.node):
        if isinstance(s, (ast.Assign, ast.AnnAssign)) and getattr(s, "value", None) is c:
            kname = X.U(s.targets[0] if isinstance(s, ast.Assign) else s.target)
    # local index
    adj = [s for s in ast.walk(f.node) if isinstance(s, ast.AugAssign) and isinstance(s.op, ast.Sub)]
    ok2 = None
    slot = {}
    if len(adj) == 1 and kname:
        par = X.parents_map(f.node)
        g = par.get(adj[0])
        okg, _ = X.relation_in(g.test, [f"{kname} > 0", f"{kname} >= 1", f"{kname} != 0"]) if isinstance(g, ast.If) else (False, {})
        sub = adj[0].value
        ok_sub = isinstance(sub, ast.Subscript) and X.U(sub.value) == "self.dataset_cum_lengths" and N.aff_eq(sub.slice, X.expr_of(f"{kname} - 1"))
        base = X.assignments_to(f.node, X.U(adj[0].target))
        ok_base = any(X.U(b) == ix for b in base if not isinstance(b, ast.BinOp))
        ok2 = okg and ok_sub and ok_base
        slot = {"adjust": X.U(adj[0]), "guard": X.U(g.test) if isinstance(g, ast.If) else None}
    ctx.judge(f, ok2, slot, "local index = index - cum_lengths[k - 1] for k > 0 (index itself for k = 0)",
              "the local index is shifted: wrong maze within the member / IndexError")
    rets = X.returns_of(f.node)
    ok3 = len(rets) == 1 and kname and X.U(rets[0].value) == f"self.maze_datasets[{kname}][{X.U(adj[0].target) if adj else ix}]"
    ctx.judge(f, bool(ok3), {"returns": X.U(rets[0].value) if rets else None}, "the item is member k's item at the local index")


def rule_Q2(ctx: Ctx) -> None:
    def single(name):
        f = ctx.index.func(f"{C}.{name}")
        r = X.returns_of(f.node)
        return f, (r[0].value if len(r) == 1 else None)

    f, v = single("__len__")
    ok = X.same_expr(v, "sum(len(dataset) for dataset in self.maze_datasets)", "sum(self.dataset_lengths)", "len(self.mazes)", "sum([len(dataset) for dataset in self.maze_datasets])")
    ctx.judge(f, ok, {"returns": X.U(v)}, "len = sum of the members' lengths", "the collection's length disagrees with its members")
    f, v = single("dataset_lengths")
    ew = X.elementwise(v)
    ok = ew is not None and ew[2] == "list" and X.U(ew[1]) == "self.maze_datasets" and X.same_expr(ew[0], "len(_x)")
    ctx.judge(f, ok, {"returns": X.U(v)}, "per-member lengths, in member order")
    f, v = single("dataset_cum_lengths")
    ok = X.same_expr(v, "np.array(list(itertools.accumulate(self.dataset_lengths)))", "np.cumsum(self.dataset_lengths)")
    ctx.judge(f, ok, {"returns": X.U(v)}, "cumulative lengths = running totals of dataset_lengths (inclusive)", "an exclusive/shifted running total breaks the index search")
    f, v = single("mazes")
    ok = X.same_expr(v, "list(itertools.chain.from_iterable(dataset.mazes for dataset in self.maze_datasets))", "list(itertools.chain.from_iterable([dataset.mazes for dataset in self.maze_datasets]))")
    ctx.judge(f, ok, {"returns": X.U(v)}, "the flattened maze list chains the members' mazes in member order", "the flattened list is ordered differently from indexing")
    # the index tables are recomputed from the members on every access (plain properties); only `mazes` is cached (tabulated: as in the pinned tree)
    for nm in ("dataset_lengths", "dataset_cum_lengths"):
        fn = ctx.index.func(f"{C}.{nm}")
        kinds = [d.name.rsplit(".", 1)[-1] for d in fn.decorators]
        ctx.judge(fn, kinds == ["property"], {"decorators": kinds},
                  "lengths and cumulative lengths are plain properties derived from the current members (len(), indexing and lengths cannot disagree after a member changes)",
                  "a cached table goes stale when a member dataset changes (filters, update_self_config): __getitem__ maps indices through old boundaries while len() is live")
    init = ctx.index.func(f"{C}.__init__")
    st = [s for s in ast.walk(init.node) if isinstance(s, (ast.Assign, ast.AnnAssign)) and X.U(s.targets[0] if isinstance(s, ast.Assign) else s.target) == "self.maze_datasets"]
    ok = len(st) == 1 and X.U(st[0].value) == "list(maze_datasets)"
    ctx.judge(init, ok, {"store": X.U(st[0]) if st else None}, "members are kept as given, in order")
    u = ctx.index.func(f"{C}.update_self_config")
    ok = any(X.same_stmt(s, "self.cfg.__dict__['n_mazes'] = len(self)", "self.cfg.n_mazes = len(self)") for s in ast.walk(u.node) if isinstance(s, ast.Assign)) and \
        any(isinstance(n, ast.For) and X.U(n.iter) == "self.maze_datasets" and "update_self_config()" in X.U(n) for n in ast.walk(u.node))
    ctx.judge(u, ok, {}, "update_self_config records len(self) and refreshes every member's count")
    cfgc = ctx.index.func(f"{CD}.MazeDatasetCollectionConfig.n_mazes")
    r = X.returns_of(cfgc.node)
    ok = len(r) == 1 and X.same_expr(r[0].value, "sum(config.n_mazes for config in self.maze_dataset_configs)", "sum([config.n_mazes for config in self.maze_dataset_configs])")
    ctx.judge(cfgc, ok, {"returns": X.U(r[0].value) if r else None}, "the config's maze count is the sum of the member configs' counts")
    gen = ctx.index.func(f"{C}.generate")
    lc = [n for n in ast.walk(gen.node) if isinstance(n, ast.ListComp)]
    ok = len(lc) == 1 and X.U(lc[0].generators[0].iter) == "cfg.maze_dataset_configs" and not lc[0].generators[0].ifs and "MazeDataset.generate(config" in X.U(lc[0].elt)
    ctx.judge(gen, ok, {"members": X.U(lc[0]) if lc else None}, "generate builds one member per member config, in order")


RULES = [
    Rule("C16.Q1", rule_Q1, floor=3, doc="index idiom"),
    Rule("C16.Q2", rule_Q2, floor=10, doc="one source of truth"),
]
