"""C12 -- generation metadata tells the truth about reachability

Clauses: M1 fully_connected is computed against the *total* cell count; M2 the recorded visited set
is the loop's set (incl. the start cell); M3 Wilson's literal True is justified by its single loop
exit; M4 percolation variants recompute the component last, from the recorded start; M5 key
agreement between get_connected_component and every generator; M6 accessible-cell bound.
"""

from __future__ import annotations

import ast

from sa import astx as X
from sa import normal as N
from sa.cfg import build_cfg
from sa.index import AnalysisError, FuncInfo, dotted_of
from sa.report import Ctx, Rule
from sa.rules.c01 import NS, _dfs_parts, _gen

LM = "maze_dataset.maze.lattice_maze"

EXPLANATION = (
    "Def-use and statement-order rules on the generation_meta records written by the five generators and read by "
    "LatticeMaze.get_connected_component: the definition reaching `fully_connected`, the source of `visited_cells`, "
    "loop-exit structure of gen_wilson (CFG), ordering of the component recomputation after the last connection-list "
    "store, record key sets (writer) vs `.get` keys (reader), and the accessible-cell loop guard."
)
ASSUMPTIONS = [
    "gen_connected_component_from returns exactly the cells reachable through get_coord_neighbors (C13.V2 checks its structure)",
]
TRUSTED = ["ast"]


def _meta_record(f: FuncInfo) -> ast.Call | ast.Dict | None:
    for c in ast.walk(f.node):
        if isinstance(c, ast.Call) and X.U(c.func).endswith("LatticeMaze"):
            m = N.kwarg(c, "generation_meta")
            if m is not None:
                return m
    return None


def rule_M1(ctx: Ctx) -> None:
    f = _gen(ctx, "gen_dfs")
    rec = _meta_record(f)
    v = X.record_value(rec, "fully_connected") if rec is not None else None
    exp = "fully_connected = (len(visited_cells) == N) where the definition of N reaching it is prod(grid_shape), the total cell count"
    if v is None:
        ctx.unknown(f, {}, exp, "no fully_connected entry in the metadata record")
        return
    inner = v
    while isinstance(inner, ast.Call) and dotted_of(inner.func) == "bool" and inner.args:
        inner = inner.args[0]
    ok = None
    slot = {"fully_connected": X.U(v)}
    if isinstance(inner, ast.Compare) and len(inner.ops) == 1 and isinstance(inner.ops[0], ast.Eq):
        sides = [inner.left, inner.comparators[0]]
        lens = [s for s in sides if X.U(X.substitute_len(s)) == "len(visited_cells)"]
        other = [s for s in sides if s not in lens]
        if len(lens) == 1 and len(other) == 1:
            o = other[0]
            defs = X.assignments_to(f.node, o.id) if isinstance(o, ast.Name) else [o]
            slot["compared_with"] = X.U(o)
            slot["its_definitions"] = [X.U(d) for d in defs]
            total_forms = ("int(np.prod(grid_shape))", "np.prod(grid_shape)", "grid_shape[0] * grid_shape[1]", "int(grid_shape[0] * grid_shape[1])", "math.prod(grid_shape)")
            ok = len(defs) == 1 and X.same_expr(defs[0], *total_forms)
            if not ok and defs:
                ok = False
    elif isinstance(inner, ast.Constant):
        ok = False
    ctx.judge(f, ok, slot, exp, "a maze with fewer accessible cells than the grid is flagged fully connected (the historical bug): "
              "endpoint sampling then draws unreachable cells", node=v)


def rule_M2(ctx: Ctx) -> None:
    f = _gen(ctx, "gen_dfs")
    rec = _meta_record(f)
    v = X.record_value(rec, "visited_cells") if rec is not None else None
    exp = "metadata visited_cells is built from the loop's visited set (every element, incl. the start cell)"
    ok = None
    if v is not None:
        names = N.names_in(v)
        if isinstance(v, (ast.SetComp, ast.ListComp, ast.GeneratorExp)):
            ok = X.U(v.generators[0].iter) == "visited_cells" and not v.generators[0].ifs and len(v.generators) == 1
        elif isinstance(v, ast.Name):
            ok = v.id == "visited_cells"
        elif isinstance(v, ast.Call) and v.args and X.U(v.args[0]) == "visited_cells":
            ok = True
        elif "visited_cells" not in names:
            ok = False
    ctx.judge(f, ok, {"visited_cells": X.U(v)[:100] if v is not None else None}, exp,
              "recorded visited cells differ from the cells the generator attached", node=v)
    sc = X.record_value(rec, "start_coord") if rec is not None else None
    ctx.judge(f, sc is not None and X.U(sc) == "start_coord", {"start_coord": X.U(sc)}, "the recorded start is the cell the walk started from")
    na = X.record_value(rec, "n_accessible_cells") if rec is not None else None
    ctx.judge(f, na is not None and "n_accessible_cells" in X.U(na), {"n_accessible_cells": X.U(na)}, "the recorded bound is the one the loop used")


def rule_M3(ctx: Ctx) -> None:
    f = _gen(ctx, "gen_wilson")
    rec = _meta_record(f)
    v = X.record_value(rec, "fully_connected") if rec is not None else None
    lit_true = isinstance(v, ast.Constant) and v.value is True
    g = build_cfg(f.node)
    outer = [n for n in f.node.body if isinstance(n, ast.While)]
    exp = "gen_wilson records fully_connected=True and its outer loop can only be left through `not visited.all()` becoming false"
    if len(outer) != 1:
        ctx.unknown(f, {"outer_loops": len(outer)}, exp)
        return
    ow = outer[0]
    t = g.node_for(ow)
    test_ok = X.U(ow.test) in ("not visited.all()", "not np.all(visited)", "not visited.all(axis=None)")
    # every path from entry to the return passes the test node's False edge: remove that edge => return unreachable
    false_succ = [s for s, lab in t.succ if lab is False]
    rets = g.nodes_of(lambda n: n.kind == "return")
    reach = g.reachable(g.entry, skip_labels=())
    # reachability of the return without taking the False edge of the loop test
    saved = list(t.succ)
    t.succ = [(s, lab) for s, lab in t.succ if lab is not False]
    bypass = any(r.id in g.reachable(g.entry) for r in rets)
    t.succ = saved
    inner_returns = [n for n in ast.walk(ow) if isinstance(n, ast.Return)]
    ctx.judge(f, lit_true and test_ok and not bypass and not inner_returns and not ow.orelse,
              {"fully_connected": X.U(v), "loop_test": X.U(ow.test), "return_reachable_bypassing_loop_exit": bypass,
               "returns_inside_loop": len(inner_returns)}, exp,
              "the maze can be returned before every cell was attached while still flagged fully connected", node=ow)
    # `visited` is only ever set True inside the commit loop / start: never reset
    resets = [s for s in ast.walk(f.node) if isinstance(s, ast.Assign) and isinstance(s.targets[0], ast.Subscript)
              and X.U(s.targets[0].value) == "visited" and not (isinstance(s.value, ast.Constant) and s.value.value is True)]
    ctx.judge(f, not resets, {"non_true_stores_to_visited": [X.U(r) for r in resets]}, "visited flags are only ever set, never cleared")


def _meta_stores(stmt: ast.stmt):
    "(key, value, object text) for `<obj>.generation_meta[key] = value` and `<obj>.generation_meta.update(key=value, ...)` / `.update({key: value})`"
    if isinstance(stmt, ast.Assign) and isinstance(stmt.targets[0], ast.Subscript) and X.U(stmt.targets[0].value).endswith(".generation_meta") \
            and isinstance(stmt.targets[0].slice, ast.Constant):
        yield stmt.targets[0].slice.value, stmt.value, X.U(stmt.targets[0].value)[: -len(".generation_meta")]
    if isinstance(stmt, ast.Expr) and isinstance(stmt.value, ast.Call) and isinstance(stmt.value.func, ast.Attribute) and stmt.value.func.attr == "update" \
            and X.U(stmt.value.func.value).endswith(".generation_meta"):
        obj = X.U(stmt.value.func.value)[: -len(".generation_meta")]
        for kw in stmt.value.keywords:
            if kw.arg:
                yield kw.arg, kw.value, obj
        for a in stmt.value.args:
            if isinstance(a, ast.Dict):
                for k_, v_ in zip(a.keys, a.values):
                    if isinstance(k_, ast.Constant):
                        yield k_.value, v_, obj


def rule_M4(ctx: Ctx) -> None:
    exp = ("generation_meta['visited_cells'] = <maze>.gen_connected_component_from(start_coord) comes after the last change of the "
           "connection list, on the final maze object, from the recorded start cell")
    for name in ("gen_percolation", "gen_dfs_percolation"):
        f = _gen(ctx, name)
        body = f.node.body
        store_i = None
        store = None
        store_val = None
        store_obj = None
        for i, s in enumerate(body):
            for k_, v_, o_ in _meta_stores(s):
                if k_ == "visited_cells":
                    store_i, store, store_val, store_obj = i, s, v_, o_
        if store is None:
            ctx.violation(f, {"visited_cells_store": None}, exp, "percolated mazes never record their component: endpoint sampling raises or uses stale cells")
            continue
        last_mut = -1
        for i, s in enumerate(body):
            txt = X.U(s)
            if ("connection_list" in txt and isinstance(s, (ast.Assign, ast.AnnAssign, ast.AugAssign)) and not txt.startswith("grid")) or "_fill_edges_with_walls" in txt:
                if isinstance(s, (ast.Assign, ast.AnnAssign)) or "_fill_edges_with_walls" in txt:
                    last_mut = max(last_mut, i)
            if isinstance(s, (ast.Assign, ast.AnnAssign)) and isinstance(getattr(s, "value", None), ast.Call) and X.U(s.value.func).endswith(("LatticeMaze", "gen_dfs")):
                last_mut = max(last_mut, i)
        call = store_val
        obj = store_obj
        ok_call = isinstance(call, ast.Call) and isinstance(call.func, ast.Attribute) and call.func.attr == "gen_connected_component_from" \
            and X.U(call.func.value) == obj and len(call.args) == 1 and X.U(call.args[0]) == "start_coord"
        rets = X.returns_of(f.node)
        ret_ok = len(rets) == 1 and X.U(rets[0].value) == obj
        # recorded start: same `start_coord` passed to the base maze / metadata
        rec = _meta_record(f)
        if rec is not None:
            sc = X.record_value(rec, "start_coord")
            start_ok = sc is not None and X.U(sc) == "start_coord"
        else:
            gd = [c for c in X.calls(f.node) if X.U(c.func).endswith("gen_dfs")]
            start_ok = len(gd) == 1 and X.U(N.kwarg(gd[0], "start_coord")) == "start_coord"
        ctx.judge(f, ok_call and ret_ok and start_ok and store_i > last_mut,
                  {"store": X.U(store)[:110], "statement_index": store_i, "last_connection_list_change_index": last_mut,
                   "same_object_returned": ret_ok, "start_is_recorded_start": start_ok}, exp,
                  "the recorded component is computed on a connection list that is changed afterwards (or from another cell)", node=store)


def _writer_keys(ctx: Ctx, name: str, depth: int = 0) -> tuple[set[str], dict[str, str]]:
    "metadata keys a generator's result carries, and literal values for constant entries"
    f = _gen(ctx, name)
    keys: set[str] = set()
    lits: dict[str, str] = {}
    rec = _meta_record(f)
    if rec is not None:
        ks = X.keys_written(rec)
        if ks is None:
            raise AnalysisError(f"{name}: generation_meta record is not a closed dict")
        keys |= ks
        for k in ks:
            v = X.record_value(rec, k)
            if isinstance(v, ast.Constant):
                lits[k] = repr(v.value)
    else:
        # delegating generator: result of another generator
        for c in X.calls(f.node):
            d = X.U(c.func)
            if d.startswith("LatticeMazeGenerators.gen_") and depth < 3:
                k2, l2 = _writer_keys(ctx, d.rsplit(".", 1)[-1], depth + 1)
                keys |= k2
                lits.update(l2)
    for s in ast.walk(f.node):
        if isinstance(s, ast.stmt):
            for k_, v_, o_ in _meta_stores(s):
                keys.add(k_)
                lits.pop(k_, None)
    return keys, lits


def rule_M5(ctx: Ctx) -> None:
    rd = ctx.index.func(f"{LM}.LatticeMaze.get_connected_component")
    read = X.keys_read(rd.node, pred=lambda x: X.U(x) == "self.generation_meta")
    exp = ("a generator whose record does not say fully_connected=True literally writes every key get_connected_component reads "
           f"({sorted(read)})")
    if not {"fully_connected", "visited_cells"} <= read:
        ctx.unknown(rd, {"keys_read": sorted(read)}, "get_connected_component reads fully_connected and visited_cells")
    for name in sorted(n for n in ctx.index.cls(NS).methods if n.startswith("gen_")):
        keys, lits = _writer_keys(ctx, name)
        always_full = lits.get("fully_connected") == "True"
        need = set() if always_full else {"visited_cells"}
        ctx.judge(_gen(ctx, name), need <= keys, {"keys_written": sorted(keys), "literal_fully_connected": lits.get("fully_connected"), "needs": sorted(need)}, exp,
                  "get_connected_component raises ValueError (or silently treats the maze as fully connected) for mazes of this generator")
    # reader structure as a decision table over (metadata absent, flag set, visited cells missing): invariant under guard clauses, De Morgan, early returns
    from sa import dtable as DT

    atoms = {"meta_absent": ["self.generation_meta is None"],
             "flag_set": ["self.generation_meta.get('fully_connected', False)", "self.generation_meta.get('fully_connected', False) is True",
                          "bool(self.generation_meta.get('fully_connected', False))"],
             "visited_missing": ["self.generation_meta.get('visited_cells', None) is None", "self.generation_meta.get('visited_cells') is None",
                                 "'visited_cells' not in self.generation_meta"]}
    rows = DT.table(rd.node, atoms)

    def expected(a):
        if a["meta_absent"] or a["flag_set"]:
            return lambda o: o[0] == "return" and X.same_expr(o[1], "self.get_nodes()")
        if a["visited_missing"]:
            return lambda o: o == ("raise", "ValueError")
        return lambda o: o[0] == "return" and X.same_expr(o[1], "np.array(list(self.generation_meta.get('visited_cells', None)))", "np.array(list(self.generation_meta.get('visited_cells')))",
                                                           "np.array(list(self.generation_meta['visited_cells']))")
    ok, rep = DT.judge_table(rows, expected)
    slot = {"table": rep}
    if ok is None and any("fully_connected" in str(r["outcome"][1]) for r in rows if r["outcome"][0] == "unknown"):
        ok = False  # located slot: the flag is consulted in a way that is not `get('fully_connected', False)` (e.g. another default)
    ctx.judge(rd, ok, slot, "all cells only when metadata is absent or flags fully_connected (default False); otherwise the recorded visited cells; ValueError when they are missing",
              "mazes that are not fully connected get endpoints drawn from all cells")


def rule_M6(ctx: Ctx) -> None:
    f = _gen(ctx, "gen_dfs")
    lp = _dfs_parts(f)["loop"]
    atoms = N.nf_atoms(N.boolean_nf(lp.test))
    want = N.boolean_nf(X.substitute_len(X.expr_of("len(visited_cells) < n_accessible_cells")))
    have = any(a.key() == want.key() for a in atoms)
    near = [repr(a) for a in atoms if a.diff is not None and any("visited_cells" in str(k) for k in a.diff)]
    ctx.judge(f, have if near else None, {"loop_test": X.U(lp.test), "bound_atoms": near},
              "the loop stops as soon as len(visited_cells) reaches n_accessible_cells (one cell is added per iteration)",
              "more (or fewer) cells than requested become accessible", node=lp)
    gv = X.guarded_values(f.node, "n_accessible_cells")
    table = []
    ok: bool | None = True
    roles = set()
    for val, conds in gv:
        lits = [("" if pol else "not ") + X.U(t) for t, pol in conds]
        table.append({"value": X.U(val), "under": lits})
        pos = [t for t, pol in conds if pol]
        if X.same_expr(val, "n_total_cells"):
            roles.add("all")
            if not any(X.same_expr(t, "accessible_cells is None") for t in pos):
                ok = False
        elif X.same_expr(val, "int(accessible_cells * n_total_cells)", "int(n_total_cells * accessible_cells)"):
            roles.add("fraction")
            # the proportion branch must be selected by *type*: the integer count 1 (only the start cell) is not the proportion 1.0
            if not any(isinstance(t, ast.Call) and X.U(t.func) == "isinstance" and X.U(t.args[0]) == "accessible_cells" and "float" in X.U(t.args[1]) for t in pos):
                ok = False
        elif X.same_expr(val, "accessible_cells", "int(accessible_cells)"):
            roles.add("count")
            if any(isinstance(t, ast.Call) and X.U(t.func) == "isinstance" and "float" in X.U(t.args[1]) for t in pos):
                ok = False
        else:
            ok = False
    if ok and roles != {"all", "fraction", "count"}:
        ok = False if gv else None
    ctx.judge(f, ok, {"n_accessible_cells": table},
              "accessible_cells: None -> all cells; a float (selected by type) -> int(fraction * total); an int -> itself",
              "the integer count 1 (or the float 1.0) is read with the other meaning: more (or fewer) cells than requested become accessible and n_accessible_cells records the wrong number")


def rule_M7(ctx: Ctx) -> None:
    "metadata inherited from the DFS stage stays true because percolation only adds edges and the arguments are forwarded (C01.B9 re-judged)"
    from sa.rules.c01 import rule_B9
    rule_B9(ctx)


def rule_M8(ctx: Ctx) -> None:
    """the recorded start cell is the generator's own object: _random_start_coord hands back a fresh array on every path (np.array(..) copies,
    np.random.randint draws); an alias of the caller's array (np.asarray(x), x itself) lets later writes of the caller change the record"""
    f = ctx.index.func("maze_dataset.generation.generators._random_start_coord")
    p_ = f.params()[1] if len(f.params()) > 1 else None
    FRESH = ("np.array", "numpy.array", "np.random.randint", "numpy.random.randint", "np.copy", "copy.deepcopy", "copy.copy", "tuple", "list")
    cands = [(e2, c1 + c2) for e1, c1 in X.value_candidates(f.node) for e2, c2 in X.split_ifexp(e1)]
    for e, conds in cands:
        d = dotted_of(e.func) if isinstance(e, ast.Call) else None
        fresh = d in FRESH or (isinstance(e, ast.Call) and isinstance(e.func, ast.Attribute) and e.func.attr in ("copy", "astype", "tolist"))
        alias = (isinstance(e, ast.Name) and e.id == p_) or d in ("np.asarray", "numpy.asarray", "np.asanyarray", "np.ascontiguousarray")
        ctx.judge(f, True if fresh else False if alias else None, {"returns": X.U(e)[:80], "under": [X.U(t)[:40] for t, _ in conds][:2]},
                  "every value _random_start_coord returns is a new object (np.array(start_coord) copies; a random draw is new)",
                  "generation_meta['start_coord'] aliases the caller's array: the recorded start changes when the caller reuses its buffer, and is no longer "
                  "the cell the recorded visited_cells are reachable from")


def _meta_job(index, job):
    "one (generator, grid, kwargs) case of M10: every outcome's metadata against the maze it belongs to"
    from sa import absmaze as AM
    from sa.absnp import Arr
    from sa.rules.c01 import _generator_outcomes, _graph_of

    name, shape, kwargs = job
    done, raised, pruned, unk = _generator_outcomes(index, name, shape, kwargs, None, max_runs=4000)
    n_cells = shape[0] * shape[1]
    bad = []
    for cl, meta in done:
        g = _graph_of(cl, shape)
        if g is None or not isinstance(meta, dict):
            bad.append({"found": "no connection list / metadata"})
            continue
        inside, leaving, odd = g
        why = []
        sc = meta.get("start_coord")
        start = tuple(sc.data) if isinstance(sc, Arr) else (tuple(sc) if sc is not None else None)
        vis = meta.get("visited_cells")
        vis_set = None if vis is None else {tuple(v.data) if isinstance(v, Arr) else tuple(v) for v in (vis.data if isinstance(vis, Arr) else vis)}
        fc = bool(meta.get("fully_connected", False))
        reach_all = len(AM.bfs(inside, (0, 0))) == n_cells
        if fc and not reach_all:
            why.append("flagged fully_connected although some cell is unreachable")
        if name == "gen_dfs" and fc != reach_all:
            why.append(f"gen_dfs sets the flag exactly when every cell is reachable: flag {fc}, reachable {reach_all}")
        if not fc and vis_set is None:
            why.append("not flagged fully connected and no visited_cells recorded")
        if vis_set is not None and start is not None:
            comp = set(AM.bfs(inside, start))
            if vis_set != comp:
                why.append(f"visited_cells {sorted(vis_set)[:6]} != cells reachable from the recorded start {start}: {sorted(comp)[:6]}")
        if name == "gen_dfs" and vis_set is not None:
            k = kwargs.get("accessible_cells")
            want = n_cells if k is None else (int(k * n_cells) if isinstance(k, float) else k)
            if len(vis_set) > max(want, 1):
                why.append(f"{len(vis_set)} cells visited, {want} requested")
            if "max_tree_depth" not in kwargs and kwargs.get("do_forks", True) and len(vis_set) != min(max(want, 1), n_cells):
                why.append(f"{len(vis_set)} cells visited, exactly {min(max(want, 1), n_cells)} expected without depth / fork limits")
            if len(inside) != len(vis_set) - 1:
                why.append(f"{len(inside)} connections over {len(vis_set)} visited cells: not a tree")
            if meta.get("n_accessible_cells") != want:
                why.append(f"recorded n_accessible_cells {meta.get('n_accessible_cells')} != requested {want}")
        if why:
            bad.append({"connections": sorted(inside)[:8], "start": start, "why": why})
    for r_ in raised:
        bad.append({"found": f"raises {r_}"})
    return {"case": [name, list(shape), dict(kwargs)], "complete": len(done), "deviations": bad[:2], "undecided": unk}


def rule_M10(ctx: Ctx) -> None:
    """bounded semantic check of the metadata (E15, nondeterministic): every generator is interpreted on small grids under every sequence of its
    random draws, and the metadata of each outcome is compared with the maze it is attached to: visited_cells = cells reachable from the recorded
    start, fully_connected only when everything is reachable (gen_dfs: exactly then), a record of visited cells whenever not flagged, the
    accessible-cell budget honoured exactly"""
    from sa import absmaze as AM

    jobs = []
    for g in [(2, 2), (2, 3), (3, 2)]:
        for k in (None, 1, 2, 3, 5, 0.5, 0.4):
            jobs.append(("gen_dfs", g, {} if k is None else {"accessible_cells": k}))
        jobs.append(("gen_dfs", g, {"accessible_cells": 4, "do_forks": False}))
        jobs.append(("gen_dfs_percolation", g, {"p": 0.0, "accessible_cells": 2}))
        jobs.append(("gen_dfs_percolation", g, {"p": 1.0, "accessible_cells": 2}))
    jobs.append(("gen_percolation", (2, 2), {"p": 0.5}))
    jobs.append(("gen_dfs_percolation", (2, 2), {"p": 0.5, "accessible_cells": 2}))
    jobs.append(("gen_wilson", (2, 2), {}))
    have = set(ctx.index.cls(NS).methods)
    jobs = [j for j in jobs if j[0] in have]

    res = AM.parallel_map(lambda j: _meta_job(ctx.index, j), [j for j in jobs if j[0] != "gen_wilson"], min_parallel=8)
    bad = [{**d, "case": r["case"]} for r in res for d in r["deviations"]]
    unk = [f"{r['case']}: {r['undecided']}" for r in res if r["undecided"]]
    empty = [r["case"] for r in res if not r["complete"] and not r["undecided"] and not r["deviations"]]
    c = ctx.index.cls(NS)
    ctx.judge(c, False if bad else None if (unk or empty) else True,
              {"cases": len(res), "complete_outcomes": sum(r["complete"] for r in res), "deviations": bad[:3], "undecided": unk[:2], "cases_without_a_complete_outcome": empty[:2]},
              "for every outcome of the random draws the metadata describes the maze it is attached to (visited cells, fully_connected flag, accessible-cell budget, tree over the visited cells)",
              "a generated maze's metadata lies: endpoints drawn from it may be unreachable from each other")
    if not bad and not unk and not empty:
        ctx.cover([f"{NS}.gen_dfs", f"{NS}.gen_percolation", f"{NS}.gen_dfs_percolation"], by="C12.M10", supersedes=["C12.M1", "C12.M2", "C12.M4", "C12.M5", "C12.M6", "C12.M7"],
                  whole_rules=["C12.M6"], bound=f"{len(res)} generator cases, {sum(r['complete'] for r in res)} complete outcomes over all draw sequences")


RULES = [
    Rule("C12.M10", rule_M10, floor=1, doc="bounded semantic check: metadata of every outcome of every generator's draws on small grids describes its maze"),
    Rule("C12.M1", rule_M1, floor=1, doc="fully_connected against the total"),
    Rule("C12.M2", rule_M2, floor=3, doc="recorded set is the loop's set"),
    Rule("C12.M3", rule_M3, floor=2, doc="Wilson's literal True is justified"),
    Rule("C12.M4", rule_M4, floor=2, doc="component recomputed last"),
    Rule("C12.M5", rule_M5, floor=6, doc="metadata key agreement"),
    Rule("C12.M6", rule_M6, floor=2, doc="accessible-cell bound"),
    Rule("C12.M9", lambda ctx: __import__("sa.rules.c01", fromlist=["x"]).rule_B7(ctx), floor=7,
         doc="fully_connected is judged against the total number of cells: how that total and the default bounds are computed (C01.B7 re-judged)"),
    Rule("C12.M8", rule_M8, floor=2, doc="the recorded start cell is a fresh object on every path of _random_start_coord"),
    Rule("C12.M7", rule_M7, floor=3, doc="DFS-stage metadata stays true under percolation (union of edges, forwarded arguments)"),
]

from sa import dims as _dims  # noqa: E402

RULES.append(Rule("C12.AX", _dims.make_rule("C12", "C12.AX"), floor=1,
                  doc="axis-extent agreement: coordinate components are bounded by the extent of their own axis (E13)"))

from sa import exits as _exits_ms  # noqa: E402

RULES.append(Rule("C12.MS", _exits_ms.make_state_rule("C12", "C12.MS", _exits_ms.SCOPES.get("C12", [])), floor=1,
                  doc="no hidden state on the anchored path (module level, per object, memoising decorators): results do not depend on the history of the process (E17)"))

from sa import exits as _exits_nw  # noqa: E402

RULES.append(Rule("C12.NW", _exits_nw.make_narrowing_rule("C12", "C12.NW", _exits_nw.SCOPES.get("C12", [])), floor=1,
                  doc="no new narrowing cast (8/16-bit element types) on the anchored path: coordinates, lengths and indices do not wrap (E18)"))
