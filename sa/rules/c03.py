"""C03 -- every item of a generated dataset is a correctly solved maze

Clauses: P1 pipeline dataflow in the generation helper; P2 every path of generate_random_path ends
in the solver on endpoints drawn from the connected component; P3 endpoint options honoured;
P5 start/end derived from the solution's ends; P6 count and sibling (serial/parallel) branches.
(P4, the component source, is C12.M5.)
"""

from __future__ import annotations

import ast

from sa import astx as X
from sa import normal as N
from sa.cfg import build_cfg
from sa.index import AnalysisError, dotted_of
from sa.report import Ctx, Rule

MD = "maze_dataset.dataset.maze_dataset"
LM = "maze_dataset.maze.lattice_maze"

EXPLANATION = (
    "Def-use rules on _generate_maze_helper (the maze solved is the maze generated, endpoint options forwarded), a "
    "derivation check of the endpoint candidate sets in generate_random_path (only the connected component, intersections "
    "with it, and filters of it), CFG dominance of the start-discard over the end draw, SolvedMaze.__init__'s endpoint "
    "derivation, and agreement of the serial and parallel branches of MazeDataset.generate (same helper, same index "
    "array, order-preserving map, worker initialiser)."
)
ASSUMPTIONS = [
    "A* with the extracted slots is sound, optimal and complete (textbook lemma; C03.P7 re-judges the slots of C02)",
    "multiprocessing.Pool.imap returns results in submission order; each worker runs the initializer before any task",
]
TRUSTED = ["ast"]


def rule_P1(ctx: Ctx) -> None:
    f = ctx.index.func(f"{MD}._generate_maze_helper")
    body = X.body_wo_doc(f.node)
    mz = [s for s in body if isinstance(s, (ast.Assign, ast.AnnAssign)) and isinstance(s.value, ast.Call) and isinstance(s.value.func, ast.Attribute) and s.value.func.attr == "maze_ctor"]
    exp = ("maze = CFG.maze_ctor(grid_shape=CFG.grid_shape_np, **CFG.maze_ctor_kwargs); solution = maze.generate_random_path(**CFG.endpoint_kwargs); "
           "return SolvedMaze.from_lattice_maze(lattice_maze=maze, solution=solution) with no store to maze in between")
    if len(mz) != 1:
        ctx.unknown(f, {"maze_ctor_calls": len(mz)}, exp)
        return
    mname = X.U(mz[0].targets[0] if isinstance(mz[0], ast.Assign) else mz[0].target)
    cfgv = X.U(mz[0].value.func.value)
    c = mz[0].value
    gs = N.kwarg(c, "grid_shape") or (c.args[0] if c.args else None)
    star = [k.value for k in c.keywords if k.arg is None]
    ctor_ok = gs is not None and X.U(gs) in (f"{cfgv}.grid_shape_np", f"{cfgv}.grid_shape") and len(star) == 1 and X.U(star[0]) == f"{cfgv}.maze_ctor_kwargs"
    sol = [s for s in body if isinstance(s, (ast.Assign, ast.AnnAssign)) and isinstance(s.value, ast.Call) and isinstance(s.value.func, ast.Attribute)
           and s.value.func.attr == "generate_random_path"]
    sol_ok = False
    sname = None
    if len(sol) == 1:
        sname = X.U(sol[0].targets[0] if isinstance(sol[0], ast.Assign) else sol[0].target)
        sc = sol[0].value
        st = [k.value for k in sc.keywords if k.arg is None]
        sol_ok = X.U(sc.func.value) == mname and len(st) == 1 and X.U(st[0]) == f"{cfgv}.endpoint_kwargs" and not sc.args \
            and not [k for k in sc.keywords if k.arg is not None]
    rets = X.returns_of(f.node)
    ret_ok = False
    if len(rets) == 1 and isinstance(rets[0].value, ast.Call) and X.U(rets[0].value.func).endswith("SolvedMaze.from_lattice_maze"):
        rc = rets[0].value
        a0 = N.arg_or_kw(rc, 0, "lattice_maze")
        a1 = N.arg_or_kw(rc, 1, "solution")
        ret_ok = a0 is not None and a1 is not None and X.U(a0) == mname and X.U(a1) == sname
    stores = X.stores_through(f.node, mname)
    rebinds = [d for d in X.assignments_to(f.node, mname)]
    ctx.judge(f, ctor_ok and sol_ok and ret_ok and not stores and len(rebinds) == 1,
              {"maze": X.U(c)[:120], "solution": X.U(sol[0].value)[:100] if sol else None, "returns": X.U(rets[0].value)[:100] if rets else None,
               "stores_to_maze": [X.U(s)[:60] for s in stores], "maze_definitions": len(rebinds)}, exp,
              "the stored solution belongs to another maze / ignores the configured endpoint options / the generator gets other arguments")
    flm = ctx.index.func(f"{LM}.SolvedMaze.from_lattice_maze")
    r = X.returns_of(flm.node)
    ok = len(r) == 1 and isinstance(r[0].value, ast.Call) and X.U(N.kwarg(r[0].value, "connection_list")) == "lattice_maze.connection_list" \
        and X.U(N.kwarg(r[0].value, "solution")) == "solution" and X.U(N.kwarg(r[0].value, "generation_meta")) == "lattice_maze.generation_meta"
    ctx.judge(flm, ok, {"returns": X.U(r[0].value)[:140] if r else None},
              "from_lattice_maze builds cls(connection_list=lattice_maze.connection_list, solution=solution, generation_meta=lattice_maze.generation_meta)")


def _derived(fn: ast.AST, e: ast.AST, base: set[str], depth: int = 0, visiting: frozenset = frozenset()) -> bool:
    """is the value a subset of the connected component (by construction)?
    a name is derived iff all its definitions are; a definition that refers back to the name itself
    (`s = set(filter(p, s))`) is derived by induction (coinductive reading of the cycle)"""
    if depth > 12:
        return False
    if isinstance(e, ast.Name):
        if e.id in base or e.id in visiting:
            return True
        defs = X.assignments_to(fn, e.id)
        return bool(defs) and all(_derived(fn, d, base, depth + 1, visiting | {e.id}) for d in defs)
    if isinstance(e, ast.Call):
        d = dotted_of(e.func)
        if isinstance(e.func, ast.Attribute) and e.func.attr == "copy" and not e.args:
            return _derived(fn, e.func.value, base, depth + 1, visiting)
        if d in ("set", "list", "tuple", "frozenset", "sorted", "np.array") and len(e.args) == 1:
            return _derived(fn, e.args[0], base, depth + 1, visiting)
        if d == "map" and len(e.args) == 2 and X.U(e.args[0]) in ("tuple", "np.array"):
            return _derived(fn, e.args[1], base, depth + 1, visiting)
        if d == "filter" and len(e.args) == 2:
            return _derived(fn, e.args[1], base, depth + 1, visiting)
        if isinstance(e.func, ast.Attribute) and e.func.attr == "intersection":
            return _derived(fn, e.func.value, base, depth + 1, visiting) or any(_derived(fn, a, base, depth + 1, visiting) for a in e.args)
        if isinstance(e.func, ast.Attribute) and e.func.attr in ("difference",):
            return _derived(fn, e.func.value, base, depth + 1, visiting)
        return False
    if isinstance(e, ast.BinOp):
        if isinstance(e.op, ast.BitAnd):
            return _derived(fn, e.left, base, depth + 1, visiting) or _derived(fn, e.right, base, depth + 1, visiting)
        if isinstance(e.op, ast.Sub):
            return _derived(fn, e.left, base, depth + 1, visiting)
        if isinstance(e.op, (ast.BitOr, ast.Add, ast.BitXor)):
            return _derived(fn, e.left, base, depth + 1, visiting) and _derived(fn, e.right, base, depth + 1, visiting)
        return False
    if isinstance(e, ast.Subscript):  # indexing / fancy indexing of a derived collection
        return _derived(fn, e.value, base, depth + 1, visiting)
    if isinstance(e, (ast.SetComp, ast.ListComp, ast.GeneratorExp)):
        return len(e.generators) == 1 and _derived(fn, e.generators[0].iter, base, depth + 1, visiting) and X.U(e.elt) in (X.U(e.generators[0].target), f"tuple({X.U(e.generators[0].target)})")
    return False


def rule_P2(ctx: Ctx) -> None:
    f = ctx.index.func(f"{LM}.LatticeMaze.generate_random_path")
    comp = [n for n, v in ((t, d) for t in ("connected_component",) for d in X.assignments_to(f.node, t)) if X.U(v) == "self.get_connected_component()"]
    base = {"connected_component"} if comp else set()
    if not base:
        ctx.unknown(f, {}, "connected_component = self.get_connected_component()")
        return
    rets = X.returns_of(f.node)
    exp = "every return is self.find_shortest_path(a, b) with a, b drawn from the connected component, from intersections with it, or from filters of it"
    for r in rets:
        c = r.value
        ok = isinstance(c, ast.Call) and X.U(c.func) == "self.find_shortest_path" and len(c.args) == 2
        slot = {"return": X.U(c)[:100]}
        if not ok:
            ctx.violation(f, slot, exp, "a path is returned that does not come from the shortest-path solver", node=r)
            continue
        der = [_derived(f.node, a, base) for a in c.args]
        slot["endpoints_from_component"] = der
        ctx.judge(f, all(der), slot, exp,
                  "an endpoint can lie outside the connected component: the solver raises (or the maze gets unreachable endpoints)", node=r)


def rule_P3(ctx: Ctx) -> None:
    f = ctx.index.func(f"{LM}.LatticeMaze.generate_random_path")
    # default branch: two distinct indices
    ch = [c for c in X.calls(f.node) if dotted_of(c.func) in ("np.random.choice", "numpy.random.choice")]
    exp = "default endpoints: np.random.choice(len(connected_component), size=2, replace=False) (two *distinct* cells of the component)"
    if len(ch) != 1:
        ctx.unknown(f, {"choice_calls": len(ch)}, exp)
    else:
        c = ch[0]
        n = N.arg_or_kw(c, 0, "a")
        size = N.arg_or_kw(c, 1, "size")
        rep = N.arg_or_kw(c, 2, "replace")
        ok = n is not None and X.U(X.substitute_len(n)) == "len(connected_component)" and N.const_int(size) == 2 \
            and isinstance(rep, ast.Constant) and rep.value is False
        ctx.judge(f, ok, {"draw": X.U(c)}, exp, "start and end can coincide (replace defaults to True) or indices fall outside the component", node=c)
    # default-branch condition: all four options at their defaults
    ifs = [n for n in f.node.body if isinstance(n, ast.If) and any(isinstance(s, ast.Return) for s in n.body)]
    if ifs:
        t = ifs[0].test
        ok = isinstance(t, ast.Compare) and isinstance(t.ops[0], ast.Eq) and X.U(t.left).replace(" ", "") == "(allowed_start,allowed_end,deadend_start,deadend_end)" \
            and X.U(t.comparators[0]).replace(" ", "") == "(None,None,False,False)"
        ctx.judge(f, ok, {"default_branch_condition": X.U(t)[:120]},
                  "the unconstrained draw is used only when allowed_start, allowed_end, deadend_start, deadend_end are all at their defaults")
    # allowed sets are intersections with the component
    for opt, var in (("allowed_start", "allowed_start_set"), ("allowed_end", "allowed_end_set")):
        guards = [n for n in f.node.body if isinstance(n, ast.If) and X.U(n.test) == f"{opt} is not None"]
        exp = f"{var} = set(map(tuple, {opt})) & connected_component_set under `{opt} is not None`"
        if len(guards) != 1:
            ctx.unknown(f, {"guards": len(guards)}, exp)
            continue
        st = [s for s in guards[0].body if isinstance(s, ast.Assign) and X.U(s.targets[0]) == var]
        ok = False
        if len(st) == 1:
            v = st[0].value
            sides = []
            if isinstance(v, ast.BinOp) and isinstance(v.op, ast.BitAnd):
                sides = [X.U(v.left), X.U(v.right)]
            elif isinstance(v, ast.Call) and isinstance(v.func, ast.Attribute) and v.func.attr == "intersection":
                sides = [X.U(v.func.value), X.U(v.args[0])]
            ok = "connected_component_set" in sides and any(opt in s and s != "connected_component_set" for s in sides)
        ctx.judge(f, ok, {"assignment": X.U(st[0])[:100] if st else None}, exp,
                  "the allowed list is ignored or not restricted to reachable cells")
    # dead-end filters
    for opt, var in (("deadend_start", "allowed_start_set"), ("deadend_end", "allowed_end_set")):
        guards = [n for n in f.node.body if isinstance(n, ast.If) and X.U(n.test) == opt]
        exp = f"under {opt}: {var} keeps exactly the cells with len(self.get_coord_neighbors(x)) == 1"
        if len(guards) != 1:
            ctx.unknown(f, {"guards": len(guards)}, exp)
            continue
        st = [s for s in guards[0].body if isinstance(s, ast.Assign) and X.U(s.targets[0]) == var]
        ok = None
        if len(st) == 1:
            lam = [n for n in ast.walk(st[0].value) if isinstance(n, ast.Lambda)]
            comp = [n for n in ast.walk(st[0].value) if isinstance(n, (ast.SetComp, ast.ListComp, ast.GeneratorExp))]
            cond, arg, src = None, None, None
            if lam:
                cond, arg = lam[0].body, lam[0].args.args[0].arg
                flt = [c for c in ast.walk(st[0].value) if isinstance(c, ast.Call) and dotted_of(c.func) == "filter"]
                src = X.U(flt[0].args[1]) if flt else None
            elif comp and comp[0].generators[0].ifs:
                cond, arg, src = comp[0].generators[0].ifs[0], X.U(comp[0].generators[0].target), X.U(comp[0].generators[0].iter)
            if cond is not None:
                ok, _ = X.relation_in(cond, [f"len(self.get_coord_neighbors({arg})) == 1"])
                ok = ok and src == var
        ctx.judge(f, ok, {"assignment": X.U(st[0])[:120] if st else None}, exp, "a forced dead-end endpoint is not a dead end (or non-dead-ends are kept)")
    # endpoints_not_equal: discard dominates the end draw
    g = build_cfg(f.node)
    disc = g.nodes_containing(lambda n: isinstance(n, ast.Call) and X.U(n.func) == "allowed_end_set.discard" and n.args and X.U(n.args[0]) == "start_pos")
    end_draw = [n for n in g.nodes if n.ast is not None and n.kind == "stmt" and isinstance(n.ast, (ast.Assign, ast.AnnAssign))
                and X.U(n.ast.targets[0] if isinstance(n.ast, ast.Assign) else n.ast.target) == "end_pos"]
    exp = "under endpoints_not_equal, allowed_end_set.discard(start_pos) runs before end_pos is drawn (on every path where the flag is true)"
    if not end_draw:
        ctx.unknown(f, {}, exp, "end_pos draw not found")
    elif not disc:
        ctx.violation(f, {"discard_sites": 0}, exp, "endpoints_not_equal has no effect: start and end can coincide")
    else:
        # the discard is guarded by the flag, precedes the draw, and the draw is reachable from it
        guard = [n for n in g.nodes if n.kind == "test" and X.U(n.ast) == "endpoints_not_equal"]
        ok = len(guard) == 1 and g.dominates(guard[0], disc[0]) and g.can_reach(disc[0], end_draw[0]) and not g.can_reach(end_draw[0], disc[0]) \
            and any(s is disc[0] or g.can_reach(s, disc[0]) for s, lab in guard[0].succ if lab is True) \
            and not any(g.can_reach(s, disc[0]) for s, lab in guard[0].succ if lab is False and s is not disc[0])
        # start_pos drawn before the discard
        sd = [n for n in g.nodes if n.ast is not None and n.kind == "stmt" and isinstance(n.ast, (ast.Assign, ast.AnnAssign))
              and X.U(n.ast.targets[0] if isinstance(n.ast, ast.Assign) else n.ast.target) == "start_pos"]
        ok = ok and len(sd) == 1 and g.dominates(sd[0], disc[0])
        ctx.judge(f, ok, {"guard": X.U(guard[0].ast) if guard else None, "discard_before_end_draw": ok}, exp,
                  "the end can still equal the start although endpoints_not_equal was requested")
    # index draws: np.random.randint(0, len(set)) into list(set)
    for var, setn in (("start_pos", "allowed_start_set"), ("end_pos", "allowed_end_set")):
        d = X.assignments_to(f.node, var)
        ok = None
        if len(d) == 1:
            ri = [c for c in ast.walk(d[0]) if isinstance(c, ast.Call) and dotted_of(c.func) in ("np.random.randint", "numpy.random.randint")]
            sub = [n for n in ast.walk(d[0]) if isinstance(n, ast.Subscript)]
            if len(ri) == 1 and sub:
                lo = N.arg_or_kw(ri[0], 0, "low")
                hi = N.arg_or_kw(ri[0], 1, "high")
                if hi is None:
                    lo, hi = ast.Constant(0), lo
                ok = N.const_int(lo) == 0 and X.U(X.substitute_len(hi)) == f"len({setn})" and X.U(sub[0].value) == f"list({setn})"
        ctx.judge(f, ok, {"draw": X.U(d[0])[:120] if d else None}, f"{var} = list({setn})[randint(0, len({setn}))]: uniform over exactly that candidate set",
                  "an index outside the candidate set / a candidate that can never be drawn")
    # emptiness check raises
    chk = [n for n in f.node.body if isinstance(n, ast.If) and any(isinstance(s, ast.Raise) for s in n.body) and "allowed_start_set" in X.U(n.test)]
    ok = None
    if len(chk) == 1:
        ok, _ = X.relation_in(chk[0].test, ["len(allowed_start_set) == 0 or len(allowed_end_set) == 0"])
    ctx.judge(f, ok, {"check": X.U(chk[0].test) if chk else None}, "ValueError when either candidate set is empty (the documented ValueError)")


def rule_P5(ctx: Ctx) -> None:
    f = ctx.index.func(f"{LM}.SolvedMaze.__init__")
    sup = [c for c in X.calls(f.node) if X.U(c.func) == "super().__init__"]
    exp = "SolvedMaze.__init__ passes start_pos = solution[0] and end_pos = solution[-1] to the parent constructor and stores the same solution"
    if len(sup) != 1:
        ctx.unknown(f, {"super_init_calls": len(sup)}, exp)
        return
    sp, ep = N.kwarg(sup[0], "start_pos"), N.kwarg(sup[0], "end_pos")

    def idx_of(e):
        if isinstance(e, ast.IfExp):
            e = e.body
        while isinstance(e, ast.Call) and dotted_of(e.func) in ("np.array", "tuple", "numpy.array") and e.args:
            e = e.args[0]
        if isinstance(e, ast.Subscript) and X.U(e.value) == "solution":
            p0 = N.subscript_parts(e)[0]
            return N.const_int(p0)
        return None
    cl = N.kwarg(sup[0], "connection_list")
    st = [s for s in ast.walk(f.node) if isinstance(s, ast.Assign) and X.U(s.targets[0]) == "self.__dict__['solution']"]
    ok = idx_of(sp) == 0 and idx_of(ep) == -1 and cl is not None and X.U(cl) == "connection_list" and len(st) == 1 and X.U(st[0].value) == "solution"
    ctx.judge(f, ok, {"start_pos": X.U(sp), "end_pos": X.U(ep), "solution_store": X.U(st[0]) if st else None}, exp,
              "start_pos / end_pos disagree with the stored solution's ends", node=sup[0])
    # explicit endpoints are checked against the solution's
    asserts = [a for a in ast.walk(f.node) if isinstance(a, ast.Assert) and "array_equal" in X.U(a.test)]
    ctx.judge(f, len(asserts) >= 2, {"endpoint_asserts": len(asserts)}, "explicitly passed start_pos/end_pos are asserted equal to the solution's ends")


def rule_P6(ctx: Ctx) -> None:
    f = ctx.index.func(f"{MD}.MazeDataset.generate")
    helper = "_generate_maze_helper"
    maps = [c for c in X.calls(f.node) if (dotted_of(c.func) == "map" or (isinstance(c.func, ast.Attribute) and c.func.attr in ("imap", "map", "imap_unordered", "map_async", "starmap")))
            and c.args and X.U(c.args[0]) == helper]
    exp = ("serial and parallel branches map the same helper over the same index array np.arange(cfg_cpy.n_mazes) with an order-preserving map; "
           "the pool is created with initializer=_maze_gen_init_worker, initargs=(cfg_cpy,); the serial branch calls the initialiser first")
    if len(maps) != 2:
        ctx.unknown(f, {"maps_over_helper": len(maps)}, exp)
        return
    kinds = sorted(X.U(m.func).split(".")[-1] for m in maps)
    arrs = {X.U(X.expand_locals(m.args[1], f.node, keep=("cfg_cpy",))) for m in maps if len(m.args) > 1}
    order_ok = all(k in ("map", "imap") for k in kinds)
    idx_ok = False
    if len(arrs) == 1 and all(len(m.args) == 2 for m in maps):
        d0 = X.expand_locals(maps[0].args[1], f.node, keep=("cfg_cpy",))
        idx_ok = isinstance(d0, ast.Call) and dotted_of(d0.func) in ("np.arange", "range", "numpy.arange") and len(d0.args) == 1 and not d0.keywords \
            and X.U(d0.args[0]) == "cfg_cpy.n_mazes"
    ctx.judge(f, order_ok and idx_ok, {"maps": kinds, "index_arrays": sorted(arrs)}, exp,
              "results arrive in completion order (dataset order depends on the schedule) or the branches generate different counts")
    pools = [c for c in X.calls(f.node) if X.U(c.func).endswith("Pool")]
    pool_ok = len(pools) == 1 and X.U(N.kwarg(pools[0], "initializer")) == "_maze_gen_init_worker" and X.U(N.kwarg(pools[0], "initargs")).replace(" ", "") in ("(cfg_cpy,)",)
    ctx.judge(f, pool_ok, {"pool": X.U(pools[0])[:140] if pools else None}, exp, "workers run the helper without (or with another) configuration")
    g = build_cfg(f.node)
    ser = g.nodes_containing(lambda n: n is [m for m in maps if dotted_of(m.func) == "map"][0]) if any(dotted_of(m.func) == "map" for m in maps) else []
    ini = g.nodes_containing(lambda n: isinstance(n, ast.Call) and dotted_of(n.func) == "_maze_gen_init_worker" and n.args and X.U(n.args[0]) == "cfg_cpy")
    ok = bool(ser) and bool(ini) and g.dominates(ini[0], ser[0])
    ctx.judge(f, ok, {"serial_initialiser_before_map": ok}, exp, "the serial helper reads a stale or unset global configuration")
    rets = X.returns_of(f.node)
    ok = len(rets) == 1 and isinstance(rets[0].value, ast.Call) and X.U(N.kwarg(rets[0].value, "cfg")) == "cfg_cpy"
    mz = N.kwarg(rets[0].value, "mazes") if ok else None
    if ok:
        defs = X.assignments_to(f.node, X.U(mz)) if isinstance(mz, ast.Name) else []
        ok = len(defs) == 2 and all(isinstance(d, ast.Call) and dotted_of(d.func) == "list" for d in defs)
    ctx.judge(f, ok, {"returns": X.U(rets[0].value)[:100] if rets else None}, "the dataset is built from cfg_cpy and the complete list of results")
    w = ctx.index.func(f"{MD}._maze_gen_init_worker")
    glob = [n for n in w.node.body if isinstance(n, ast.Global) and "_GLOBAL_WORKER_CONFIG" in n.names]
    st = [s for s in w.node.body if isinstance(s, ast.Assign) and X.U(s.targets[0]) == "_GLOBAL_WORKER_CONFIG" and X.U(s.value) == w.params()[0]]
    ctx.judge(w, bool(glob) and len(st) == 1, {"global_decl": bool(glob), "store": X.U(st[0]) if st else None},
              "the worker initialiser binds the module global the helper reads to the configuration it was given")


def rule_P7(ctx: Ctx) -> None:
    "the 'shortest route' sentence of C03 rests on the solver: re-judge the A* slots (C02.S1-S8) under this property"
    from sa.rules import c02

    for r in c02.RULES:
        r.run(ctx)


def rule_P8(ctx: Ctx) -> None:
    """endpoints are drawn (without replacement, by row index) from the connected component: the component query must list every
    reachable cell exactly once (C13.V2 re-judged) - a duplicated row lets the two draws hit the same cell"""
    from sa.rules import c13

    c13.rule_V2(ctx)
    # the same by bounded abstract evaluation (each reachable cell exactly once); decides forms of the queries the structural rule does not know
    c13.neighbour_queries_rule("C03.P8", [], ["C13.V2"], component_once=True)(ctx)


def _endpoint_cases():
    """abstract mazes (shape, edges, generation_meta, component) for the endpoint rule: a tree with dead ends and junctions, a maze with a
    cycle, and a percolated maze whose recorded component is a strict subset of the grid"""
    from sa import absmaze as AM

    out = []
    t23 = {((0, 0), (0, 1)), ((0, 1), (0, 2)), ((0, 1), (1, 1)), ((1, 0), (1, 1)), ((1, 1), (1, 2))}          # tree on 2x3: junctions at (0,1), (1,1)
    out.append(((2, 3), t23, None, AM.cells((2, 3))))
    out.append(((2, 3), t23, {"fully_connected": True}, AM.cells((2, 3))))
    ring = {e for e in AM.lattice_edges(3, 3) if (1, 1) not in e} | {((1, 0), (1, 1))}                          # 3x3 ring with a spur: one dead end
    out.append(((3, 3), ring, None, AM.cells((3, 3))))
    perc = {((0, 0), (0, 1)), ((0, 1), (1, 1)), ((1, 1), (1, 2))}                                               # percolation: component of (0,0); (0,2), (1,0) isolated
    comp = sorted(AM.bfs(perc, (0, 0)))
    out.append(((2, 3), perc, {"fully_connected": False, "visited_cells": set(comp)}, comp))
    out.append(((2, 2), {((0, 0), (0, 1)), ((0, 0), (1, 0)), ((0, 1), (1, 1))}, None, AM.cells((2, 2))))
    return out


def _endpoint_deviations(index, case, opts, limit=2):
    "all draws of generate_random_path on one abstract maze under one option combination; (runs, deviations, undecided)"
    from sa import absmaze as AM
    from sa.absnp import MODELS, Arr
    from sa.absobj import AbstractClass
    from sa.choice import explore, models
    from sa.fold import EvalRaised, Unknown

    shape, es, meta, comp = case
    adj = AM.adjacency(es)
    a_s, a_e, d_s, d_e, neq = opts
    comp_set = set(comp)

    def ok_start(c):
        return c in comp_set and (a_s is None or c in set(a_s)) and (not d_s or len(adj.get(c, ())) == 1)

    def ok_end(c):
        return c in comp_set and (a_e is None or c in set(a_e)) and (not d_e or len(adj.get(c, ())) == 1)
    default = (a_s, a_e, d_s, d_e) == (None, None, False, False)
    bad, unk = [], []
    produced: set = set()
    n = 0

    def run(sc):
        ac = AbstractClass(index, f"{LM}.LatticeMaze", max_steps=150_000, extra_calls={**MODELS, **models(sc),
                           "self.find_shortest_path": lambda a, b: ("PATH", tuple(a.data if isinstance(a, Arr) else a), tuple(b.data if isinstance(b, Arr) else b))})
        me = AM.maze_obj(shape, es)
        me.attrs["generation_meta"] = None if meta is None else dict(meta)
        args = [True, None if a_s is None else [list(c) for c in a_s], None if a_e is None else [list(c) for c in a_e], d_s, d_e, neq]
        return ac.call(me, "generate_random_path", args)
    try:
        for choices, out in explore(run, max_runs=3000):
            n += 1
            if isinstance(out, EvalRaised):
                if out.exc_name not in ("ValueError",):
                    bad.append({"found": f"raises {out.exc_name}", "choices": choices})
                continue
            if not (isinstance(out, tuple) and len(out) == 3 and out[0] == "PATH"):
                bad.append({"found": repr(out)[:80], "expected": "the solver's path between the drawn endpoints", "choices": choices})
                continue
            _, st, en = out
            produced.add((st, en))
            why = []
            if not ok_start(st):
                why.append("start violates the options / lies outside the component")
            if not ok_end(en):
                why.append("end violates the options / lies outside the component")
            if (neq or default) and st == en:
                why.append("start == end although endpoints must be distinct here")
            if why and len(bad) < limit:
                bad.append({"start": st, "end": en, "why": why, "choices": choices})
        # every admissible pair can be drawn (the draw ranges over the whole candidate set, as the pinned tree's does)
        valid = {(s_, e_) for s_ in comp if ok_start(s_) for e_ in comp if ok_end(e_) and not ((neq or default) and s_ == e_)}
        never = sorted(valid - produced)
        if never and len(bad) < limit:
            bad.append({"never_drawn": never[:3], "admissible_pairs": len(valid), "drawn_pairs": len(produced),
                        "why": ["an admissible endpoint pair is produced by no outcome of the random draws (a candidate is skipped by the index range)"]})
    except Unknown as e:
        unk.append(str(e)[:160])
    for b in bad:
        b.update({"grid": list(shape), "edges": sorted(es), "generation_meta": sorted(meta) if meta else None,
                  "options": {"allowed_start": a_s, "allowed_end": a_e, "deadend_start": d_s, "deadend_end": d_e, "endpoints_not_equal": neq}})
    return n, bad[:limit], unk


def rule_P9(ctx: Ctx) -> None:
    """bounded semantic check of the endpoint sentence (E15, nondeterministic): generate_random_path is interpreted on abstract mazes under
    every combination of the endpoint options, once per possible outcome of its random draws; every returned pair must lie in the component,
    honour allowed_start / allowed_end / deadend_* and be distinct when endpoints_not_equal (or no option) is given"""
    import itertools

    from sa import absmaze as AM

    f = ctx.index.func(f"{LM}.LatticeMaze.generate_random_path")
    cases = _endpoint_cases()
    jobs = []
    for case in cases:
        cells = AM.cells(case[0])
        lists = [None, [cells[0], cells[-1], cells[1]], [cells[-1]]]   # no list / a list with dead ends and junctions (possibly outside the component) / a single cell
        for a_s, a_e, d_s, d_e, neq in itertools.product(lists, lists, (False, True), (False, True), (False, True)):
            jobs.append((case, (a_s, a_e, d_s, d_e, neq)))
    res = AM.parallel_map(lambda j: _endpoint_deviations(ctx.index, j[0], j[1]), jobs)
    n_runs = sum(r[0] for r in res)
    bad = [b for r in res for b in r[1]]
    unk = [u for r in res for u in r[2]]
    ctx.judge(f, False if bad else None if unk else True, {"abstract_mazes": len(cases), "option_combinations": len(jobs), "draw_sequences_explored": n_runs,
                                                            "deviations": bad[:3], "undecided": unk[:2]},
              "for every outcome of the random draws: both endpoints lie in the connected component, honour the allowed lists and the dead-end options, and differ "
              "when endpoints_not_equal is set or no endpoint option is given; and every admissible pair is the outcome of some draw",
              "a generated maze's endpoints ignore an endpoint option (or coincide when they must not)")
    if not bad and not unk:
        ctx.cover([f.qualname], by="C03.P9", supersedes=["C03.P3"], whole_rules=[],
                  bound=f"{len(cases)} abstract mazes x {len(jobs) // len(cases)} option combinations, {n_runs} draw sequences")


RULES = [
    Rule("C03.P9", rule_P9, floor=1, doc="bounded semantic check: every draw of generate_random_path honours the endpoint options"),
    Rule("C03.P10", lambda ctx: __import__("sa.rules.c18", fromlist=["x"]).rule_H2(ctx), floor=5,
         doc="the endpoint options reach generation through load(cfg.serialize()): the configuration's field loaders keep every option (C18.H2 re-judged)"),
    Rule("C03.P8", rule_P8, floor=3, doc="the component endpoints are drawn from lists every reachable cell once (C13.V2 re-judged)"),
    Rule("C03.P1", rule_P1, floor=2, doc="pipeline dataflow"),
    Rule("C03.P2", rule_P2, floor=2, doc="every path ends in the solver on component endpoints"),
    Rule("C03.P3", rule_P3, floor=9, doc="endpoint options honoured"),
    Rule("C03.P5", rule_P5, floor=2, doc="ends from the solution"),
    Rule("C03.P6", rule_P6, floor=5, doc="count and sibling branches"),
    Rule("C03.P7", rule_P7, floor=16, doc="solver slots (the stored solution is a shortest route): C02.S1-S8 re-judged"),
]

from sa import dims as _dims  # noqa: E402

RULES.append(Rule("C03.AX", _dims.make_rule("C03", "C03.AX"), floor=1,
                  doc="axis-extent agreement: coordinate components are bounded by the extent of their own axis (E13)"))

from sa import exits as _exits  # noqa: E402

RULES.append(Rule("C03.RX", _exits.make_rule("C03", "C03.RX", _exits.SCOPES["C03"]), floor=1,
                  doc="rejection conditions: the anchored functions refuse inputs only under the conditions confirmed on the pinned tree (E16)"))

from sa import exits as _exits_ms  # noqa: E402

RULES.append(Rule("C03.MS", _exits_ms.make_state_rule("C03", "C03.MS", _exits_ms.SCOPES.get("C03", [])), floor=1,
                  doc="no hidden state on the anchored path (module level, per object, memoising decorators): results do not depend on the history of the process (E17)"))

from sa import exits as _exits_nw  # noqa: E402

RULES.append(Rule("C03.NW", _exits_nw.make_narrowing_rule("C03", "C03.NW", _exits_nw.SCOPES.get("C03", [])), floor=1,
                  doc="no new narrowing cast (8/16-bit element types) on the anchored path: coordinates, lengths and indices do not wrap (E18)"))
