"""C20 -- maze plots draw the maze that was given

Clauses: Y1 strip polarity (a separator strip is drawn as wall iff its connection bit is false, in
both the plain and the node-value branch); Y2 block/strip layout in affine form; Y3 axis mapping of
path coordinates; Y4 delegation (true path from the maze, ASCII export).
"""

from __future__ import annotations

import ast

from sa import astx as X
from sa import normal as N
from sa.index import AnalysisError, dotted_of
from sa.report import Ctx, Rule

PM = "maze_dataset.plotting.plot_maze"
MP = f"{PM}.MazePlot"

EXPLANATION = (
    "MazePlot._lattice_maze_to_img is reduced to a boolean polarity table per branch (is the connection list inverted, which value "
    "a written strip receives, what an unwritten strip shows) and to affine index forms for blocks and strips; "
    "_rowcol_to_coord/_plot_path are checked for the (row, col) -> (x = col, y = row) mapping and order preservation; the constructor "
    "and to_ascii for delegation."
)
ASSUMPTIONS = ["matplotlib draws the array and the line coordinates it is given (rendering itself is not decided)",
               "in the node-value colormap NaN is the wall colour (cmap.set_bad(color='black'))"]
TRUSTED = ["ast"]


def rule_Y1(ctx: Ctx) -> None:
    f = ctx.index.func(f"{MP}._lattice_maze_to_img")
    top = [n for n in f.node.body if isinstance(n, ast.If) and "node_values" in X.U(n.test)
           and any(isinstance(s_, (ast.Assign, ast.AnnAssign)) and "connection_list_processed" in X.U(s_.targets[0] if isinstance(s_, ast.Assign) else s_.target)
                   for s_ in ast.walk(n))]  # located by role: the branch that prepares the processed connection list
    if len(top) != 1:
        ctx.unknown(f, {"branches": len(top)}, "one branch on self.node_values is None")
        return
    br = top[0]
    plain_is_body = X.U(br.test) == "self.node_values is None"
    if not plain_is_body and X.U(br.test) != "self.node_values is not None":
        ctx.unknown(f, {"test": X.U(br.test)}, "branch on self.node_values is None")
        return
    branches = {"plain": br.body if plain_is_body else br.orelse, "node_values": br.orelse if plain_is_body else br.body}
    # strip stores and their guards (shared by both branches)
    loops = [n for n in ast.walk(f.node) if isinstance(n, ast.If) and "connection_list_processed" in X.U(n.test)]
    guards = {}
    for g in loops:
        t = g.test
        neg = isinstance(t, ast.UnaryOp) and isinstance(t.op, ast.Not)
        sub = t.operand if neg else t
        if isinstance(sub, ast.Subscript) and X.U(sub.value) == "connection_list_processed":
            layer = N.const_int(N.subscript_parts(sub)[0])
            val = [X.U(s.value) for s in g.body if isinstance(s, ast.Assign)]
            guards[layer] = {"written_when_processed_bit_is": not neg, "value": val[0] if val else None}
    if set(guards) != {0, 1}:
        ctx.unknown(f, {"strip_guards": {str(k): v for k, v in guards.items()}}, "one guarded strip store per layer")
        return
    bg = X.assignments_to(f.node, "img")
    bg_wall = len(bg) == 1 and X.U(bg[0]).replace(" ", "").startswith("-np.ones(")
    for name, body in branches.items():
        defs = {}
        for s in body:
            if isinstance(s, (ast.Assign, ast.AnnAssign)) and s.value is not None:
                defs[X.U(s.targets[0] if isinstance(s, ast.Assign) else s.target)] = s.value
        clp = defs.get("connection_list_processed")
        cv = defs.get("connection_values")
        hack = defs.get("node_bdry_hack")
        if clp is None or cv is None or hack is None:
            ctx.unknown(f, {"branch": name, "defined": sorted(defs)}, "branch defines connection_list_processed, connection_values, node_bdry_hack")
            continue
        inverted = None
        if isinstance(clp, ast.Call) and dotted_of(clp.func) in ("np.logical_not", "numpy.logical_not") and X.U(clp.args[0]) == "self.maze.connection_list":
            inverted = True
        elif isinstance(clp, ast.UnaryOp) and isinstance(clp.op, ast.Invert) and X.U(clp.operand) == "self.maze.connection_list":
            inverted = True
        elif X.U(clp) == "self.maze.connection_list":
            inverted = False
        vtxt = X.U(cv).replace(" ", "")
        if "nan" in vtxt:
            vkind = "wall"
        elif vtxt in ("scaled_node_values*connection_val_scale", "connection_val_scale*scaled_node_values") or vtxt == "scaled_node_values":
            vkind = "passage"
        else:
            vkind = None
        hk = N.const_int(hack)
        if inverted is None or vkind is None or hk is None:
            ctx.violation(f, {"branch": name, "connection_list_processed": X.U(clp), "connection_values": X.U(cv), "node_bdry_hack": X.U(hack)},
                          "recognised polarity slots", "a polarity slot has a value outside the accepted set")
            continue
        unwritten = "passage (node block overlaps the strip)" if hk == 1 else ("wall (background -1)" if bg_wall else "?")
        for layer, gd in sorted(guards.items()):
            # strip written iff processed bit == gd[...]; processed = not conn if inverted else conn
            written_when_connected = (gd["written_when_processed_bit_is"] != inverted)
            # what does a connected strip show / a disconnected strip show?
            conn_shows = vkind if written_when_connected else unwritten.split(" ")[0]
            wall_shows = unwritten.split(" ")[0] if written_when_connected else vkind
            ok = conn_shows == "passage" and wall_shows == "wall" and gd["value"] is not None and gd["value"].startswith("connection_values[")
            ctx.judge(f, ok, {"branch": name, "layer": layer, "inverted_list": inverted, "written_strip_value": vkind, "unwritten_strip_shows": unwritten,
                              "connected_strip_shows": conn_shows, "unconnected_strip_shows": wall_shows},
                      "a separator strip is drawn as passage exactly when its connection bit is true, as wall otherwise",
                      "the plot shows passages where the maze has walls (and vice versa): a valid picture of the wrong maze")


def _aff(e: ast.AST):
    return N.aff_key(N.affine(e, {"node_bdry_hack": N.affine(ast.Name(id="H", ctx=ast.Load()))}))


def rule_Y2(ctx: Ctx) -> None:
    f = ctx.index.func(f"{MP}._lattice_maze_to_img")
    u = "self.unit_length"
    bg = X.assignments_to(f.node, "img")
    ok = False
    if len(bg) == 1:
        shp = [n for n in ast.walk(bg[0]) if isinstance(n, ast.Tuple) and len(n.elts) == 2]
        ok = bool(shp) and N.aff_eq(shp[0].elts[0], X.expr_of(f"self.maze.grid_shape[0] * {u} + 1")) and N.aff_eq(shp[0].elts[1], X.expr_of(f"self.maze.grid_shape[1] * {u} + 1"))
    ctx.judge(f, ok, {"image": X.U(bg[0])[:140] if bg else None}, "image side = n * unit_length + 1 per axis (rows from grid_shape[0], columns from grid_shape[1])",
              "oblong mazes are drawn into a transposed/cropped canvas")
    loops = [n for n in ast.walk(f.node) if isinstance(n, ast.For) and isinstance(n.iter, ast.Call) and dotted_of(n.iter.func) == "range"]
    rv = cv = None
    for lp in loops:
        if X.U(lp.iter.args[0]) == "self.maze.grid_shape[0]":
            rv = lp.target.id
        if X.U(lp.iter.args[0]) == "self.maze.grid_shape[1]":
            cv = lp.target.id
    if rv is None or cv is None:
        ctx.unknown(f, {"loops": [X.U(lp.iter) for lp in loops]}, "loops over range(grid_shape[0]) and range(grid_shape[1])")
        return

    def sl(lo: str, hi: str):
        return ("slice", N.aff_key(N.affine(X.expr_of(lo))), N.aff_key(N.affine(X.expr_of(hi))), None)

    def idx(e: str):
        return ("idx", N.aff_key(N.affine(X.expr_of(e))))

    def form(p):
        return N.slice_form(p, {"node_bdry_hack": N.affine(ast.Name(id="H", ctx=ast.Load()))})

    stores = [s for s in ast.walk(f.node) if isinstance(s, ast.Assign) and isinstance(s.targets[0], ast.Subscript) and X.U(s.targets[0].value) == "img"]
    # every write into the image is one of the per-cell stores (block, two strips): nothing repaints the picture afterwards
    in_cell_loops = set()
    for lp in loops:
        if isinstance(lp.target, ast.Name) and lp.target.id in (rv, cv):
            in_cell_loops |= {id(x) for x in ast.walk(lp)}
    stray = [st_ for st_ in ast.walk(f.node) if isinstance(st_, (ast.Assign, ast.AugAssign)) and isinstance(st_.targets[0] if isinstance(st_, ast.Assign) else st_.target, ast.Subscript)
             and X.U((st_.targets[0] if isinstance(st_, ast.Assign) else st_.target).value) == "img" and id(st_) not in in_cell_loops]
    ctx.judge(f, not stray, {"image_stores_outside_the_cell_loops": [X.U(x)[:80] for x in stray]},
              "the image is written only by the per-cell stores (cell block, strip below, strip to the right)",
              "a later masked store repaints pixels by value: cell blocks / strips that happen to carry that value lose it (e.g. a cell value of -1 becomes nan)")
    # ... nor does any caller that receives the image (the plotting wrapper hands it to imshow as it is)
    for mname, m_ in ctx.index.cls(MP).methods.items():
        names = {X.U(a.targets[0]) for a in ast.walk(m_.node) if isinstance(a, ast.Assign) and isinstance(a.value, ast.Call) and X.U(a.value.func).endswith("_lattice_maze_to_img")
                 and isinstance(a.targets[0], ast.Name)}
        if not names:
            continue
        later = [st_ for st_ in ast.walk(m_.node) if isinstance(st_, (ast.Assign, ast.AugAssign))
                 and isinstance(st_.targets[0] if isinstance(st_, ast.Assign) else st_.target, ast.Subscript)
                 and X.U((st_.targets[0] if isinstance(st_, ast.Assign) else st_.target).value) in names]
        ctx.judge(m_, not later, {"image_from": "_lattice_maze_to_img", "stores_into_the_image_afterwards": [X.U(x)[:80] for x in later]},
                  "the image built by _lattice_maze_to_img is displayed as it is: no caller repaints it",
                  "a store selected by value (img[img == v] = ...) repaints every cell block / strip that carries that value: the plot no longer shows the maze and values given")
    found = {"node": None, 0: None, 1: None}
    par = X.parents_map(f.node)
    for s in stores:
        parts = [form(p) for p in N.subscript_parts(s.targets[0])]
        g = par.get(s)
        layer = None
        if isinstance(g, ast.If) and "connection_list_processed" in X.U(g.test):
            sub = g.test.operand if isinstance(g.test, ast.UnaryOp) else g.test
            layer = N.const_int(N.subscript_parts(sub)[0])
            idxs = [X.U(p) for p in N.subscript_parts(sub)[1:]]
            if idxs != [rv, cv]:
                layer = ("bad", idxs)
        found["node" if layer is None else layer] = (parts, X.U(s))
    want_node = [sl(f"{rv} * {u} + 1", f"({rv} + 1) * {u} + H"), sl(f"{cv} * {u} + 1", f"({cv} + 1) * {u} + H")]
    want0 = [idx(f"({rv} + 1) * {u}"), sl(f"{cv} * {u} + 1", f"({cv} + 1) * {u}")]
    want1 = [sl(f"{rv} * {u} + 1", f"({rv} + 1) * {u}"), idx(f"({cv} + 1) * {u}")]
    for key, want, what in (("node", want_node, "cell block rows r*u+1 .. (r+1)*u, columns c*u+1 .. (c+1)*u"),
                            (0, want0, "layer 0 (down) strip: row (r+1)*u, columns c*u+1 .. (c+1)*u"),
                            (1, want1, "layer 1 (right) strip: rows r*u+1 .. (r+1)*u, column (c+1)*u")):
        got = found.get(key)
        ctx.judge(f, got is not None and got[0] == want, {"store": got[1][:160] if got else None}, what,
                  "blocks/strips are placed on the wrong rows or columns (transposed strip, off-by-one)")
    nv = [s for s in stores if "scaled_node_values" in X.U(s.value)]
    ctx.judge(f, len(nv) == 1 and X.U(nv[0].value) == f"scaled_node_values[{rv}, {cv}]", {"node_value": X.U(nv[0].value) if nv else None},
              "the block of cell (r, c) carries the value of cell (r, c)")


def rule_Y3(ctx: Ctx) -> None:
    f = ctx.index.func(f"{MP}._rowcol_to_coord")
    p = f.params()[1]
    from sa import dtable as DT

    row = DT.table(f.node, {})[0]
    val = row["outcome"][1] if row["outcome"][0] == "return" else None
    # the returned value with every temporary substituted; the swap may be spelled np.array([p[1], p[0]]), p[::-1], np.flip(p) ...
    ok_ret: bool | None = None
    if val is not None:
        txt = X.U(val)
        for swap in (f"np.array([{p}[1], {p}[0]])", f"np.array(({p}[1], {p}[0]))", f"np.asarray([{p}[1], {p}[0]])", f"{p}[::-1]", f"np.array({p}[::-1])", f"np.flip({p})", f"np.array({p})[::-1]"):
            txt = txt.replace(swap, "_SWAPPED_")
        try:
            ok_ret = "_SWAPPED_" in txt and p not in N.names_in(ast.parse(txt, mode="eval").body) \
                and N.aff_eq(N.affine(ast.parse(txt, mode="eval").body), N.affine(X.expr_of("self.unit_length * (_SWAPPED_ + 0.5)")))
        except Exception:
            ok_ret = None
    elif row["outcome"][0] != "unknown":
        ok_ret = False
    ctx.judge(f, ok_ret, {"returns": X.U(val)[:160] if val is not None else DT.outcome_str(row["outcome"])},
              "(row, col) maps to (x, y) = unit_length * ((col, row) + 0.5): columns horizontal, rows vertical, through cell centres",
              "paths are drawn transposed or off-centre")
    g = ctx.index.func(f"{MP}._plot_path")
    tr = X.assignments_to(g.node, "p_transformed")
    ok = len(tr) == 1 and X.same_expr(tr[0], "np.array([self._rowcol_to_coord(coord) for coord in path_format.path])")
    xs = [X.U(d).replace(" ", "") for d in X.assignments_to(g.node, "x")]
    ys = [X.U(d).replace(" ", "") for d in X.assignments_to(g.node, "y")]
    ok = ok and set(xs) == {"p_transformed[:,0]"} and set(ys) == {"p_transformed[:,1]"}
    plots = [c for c in X.calls(g.node) if X.U(c.func) == "self.ax.plot" and len(c.args) >= 2 and X.U(c.args[0]) == "x" and X.U(c.args[1]) == "y"]
    ctx.judge(g, ok and len(plots) == 1, {"transform": X.U(tr[0]) if tr else None, "x": xs, "y": ys},
              "every listed cell is transformed, in order; x is component 0 and y component 1 of the transformed points",
              "the line skips/reorders cells or swaps the axes")
    skips = [n for n in g.node.body if isinstance(n, ast.If) and any(isinstance(x, ast.Return) for x in n.body)]
    oks = []
    for n in skips:
        okk, sl = X.relation_in(n.test, ["len(path_format.path) == 0", "not len(path_format.path)", "len(path_format.path) < 1"])
        oks.append((okk, sl["found"]))
    ctx.judge(g, all(o for o, _ in oks), {"early_returns": [t for _, t in oks]},
              "only an empty path is skipped: every listed cell - also a single one - is drawn",
              "a one-cell path (start == end) is silently not drawn")
    h = ctx.index.func(f"{MP}._place_marked_coords")
    ok = "self._rowcol_to_coord" in X.U(h.node)
    ctx.judge(h, ok, {}, "markers use the same coordinate mapping")


def rule_Y4(ctx: Ctx) -> None:
    f = ctx.index.func(f"{MP}.__init__")
    ifs = [n for n in f.node.body if isinstance(n, ast.If) and "isinstance(maze" in X.U(n.test)]
    ok = False
    slot = {}
    if len(ifs) == 1:
        a = ifs[0]
        s_ok = X.U(a.test) == "isinstance(maze, SolvedMaze)" and [X.U(s) for s in a.body] == ["self.add_true_path(maze.solution)"]
        inner = a.orelse[0] if a.orelse and isinstance(a.orelse[0], ast.If) else None
        t_ok = inner is not None and X.U(inner.test) == "isinstance(maze, TargetedLatticeMaze)" and \
            [X.U(s) for s in inner.body] == ["self.add_true_path(SolvedMaze.from_targeted_lattice_maze(maze).solution)"]
        ok = s_ok and t_ok
        slot = {"solved": [X.U(s) for s in a.body], "targeted": [X.U(s) for s in inner.body] if inner else None}
    ctx.judge(f, ok, slot, "a solved maze's own solution (a targeted maze's shortest path) becomes the true path", "the plot shows no / another true path")
    t = ctx.index.func(f"{MP}.to_ascii")
    calls = [c for c in X.calls(t.node) if isinstance(c.func, ast.Attribute) and c.func.attr == "as_ascii"]
    ok = len(calls) == 2
    for c in calls:
        if "solved_maze" in X.U(c.func):
            ok = ok and X.U(N.kwarg(c, "show_endpoints")) == "show_endpoints" and X.U(N.kwarg(c, "show_solution")) == "show_solution"
        else:
            ok = ok and X.U(N.kwarg(c, "show_endpoints")) == "show_endpoints"
    ctx.judge(t, ok, {"calls": [X.U(c) for c in calls]}, "to_ascii delegates to the maze's own as_ascii, forwarding the flags")
    sm = ctx.index.func(f"{MP}.solved_maze")
    ok = "lattice_maze=self.maze" in X.U(sm.node).replace(" ", "") and "solution=self.true_path.path" in X.U(sm.node).replace(" ", "")
    ctx.judge(sm, ok, {}, "solved_maze = the given maze with the true path as its solution")


RULES = [
    Rule("C20.Y1", rule_Y1, floor=4, doc="strip polarity in both branches"),
    Rule("C20.Y2", rule_Y2, floor=6, doc="block/strip layout"),
    Rule("C20.Y3", rule_Y3, floor=4, doc="axis mapping, every listed cell drawn"),
    Rule("C20.Y4", rule_Y4, floor=3, doc="delegation"),
]

from sa import dims as _dims  # noqa: E402

RULES.append(Rule("C20.AX", _dims.make_rule("C20", "C20.AX"), floor=1,
                  doc="axis-extent agreement: coordinate components are bounded by the extent of their own axis (E13)"))

from sa import exits as _exits  # noqa: E402

RULES.append(Rule("C20.RX", _exits.make_rule("C20", "C20.RX", _exits.SCOPES["C20"]), floor=1,
                  doc="rejection conditions: the anchored functions refuse inputs only under the conditions confirmed on the pinned tree (E16)"))

from sa import exits as _exits_ms  # noqa: E402

RULES.append(Rule("C20.MS", _exits_ms.make_state_rule("C20", "C20.MS", _exits_ms.SCOPES.get("C20", [])), floor=1,
                  doc="no hidden module-level state on the anchored path: results do not depend on the history of the process (E17)"))

from sa import exits as _exits_nw  # noqa: E402

RULES.append(Rule("C20.NW", _exits_nw.make_narrowing_rule("C20", "C20.NW", _exits_nw.SCOPES.get("C20", [])), floor=1,
                  doc="no new narrowing cast (8/16-bit element types) on the anchored path: coordinates, lengths and indices do not wrap (E18)"))
