"""CLI: python -m sa.check --property C09 --tier quick [--repo /repo] [--replay FILE]

exit 0: every clause instance extracted from the current source holds
exit 1: some clause instance is violated (prints `VIOLATION property=<id> replay=<path>`)
exit 2: analysis broken (anchor vanished / unfamiliar shape / checker bug): ANALYSIS-ERROR
"""

from __future__ import annotations

import argparse
import importlib
import json
import os
import sys
import time
import traceback

sys.path.insert(0, os.path.dirname(os.path.dirname(os.path.abspath(__file__))))

from sa.index import AnalysisError, SourceIndex  # noqa: E402
from sa.report import Ctx, finish, run_rules  # noqa: E402


def run_property(prop: str, tier: str, repo: str, evidence_dir: str | None, seed: int,
                 only_rule: str | None = None) -> int:
    t0 = time.time()
    try:
        mod = importlib.import_module(f"sa.rules.{prop.lower()}")
    except ModuleNotFoundError:
        print(f"ANALYSIS-ERROR property={prop} no rule module sa.rules.{prop.lower()}")
        return 2
    try:
        index = SourceIndex(repo)
    except AnalysisError as e:
        print(f"ANALYSIS-ERROR property={prop} rule=index at {repo} {e}")
        return 2
    from sa.deps import DependencyFacts

    ctx = Ctx(index, tier, deps=DependencyFacts())
    rules = [r for r in mod.RULES if only_rule is None or r.id == only_rule]
    per_rule = run_rules(prop, rules, ctx)
    return finish(
        prop, ctx, per_rule, tier, seed, t0,
        explanation=mod.EXPLANATION,
        assumptions=list(getattr(mod, "ASSUMPTIONS", [])),
        trusted_base=list(getattr(mod, "TRUSTED", [])),
        evidence_dir=evidence_dir, repo_root=repo,
        extra=(mod.extra_evidence(ctx) if hasattr(mod, "extra_evidence") else None),
    )


def main(argv: list[str] | None = None) -> int:
    ap = argparse.ArgumentParser()
    ap.add_argument("--property", required=False)
    ap.add_argument("--tier", default=os.environ.get("VERIF_TIER", "quick"), choices=["quick", "thorough"])
    ap.add_argument("--repo", default=os.environ.get("VERIF_REPO", "/repo"))
    ap.add_argument("--evidence-dir", default=os.environ.get("VERIF_EVIDENCE_DIR"))
    ap.add_argument("--replay", default=None, help="violation file written by an earlier run")
    ap.add_argument("--rule", default=None)
    args = ap.parse_args(argv)
    seed = int(os.environ.get("VERIF_SEED", "0") or 0)
    try:
        if args.replay:
            with open(args.replay) as f:
                v = json.load(f)
            print(f"replaying rule {v['rule']} of {v['property']} (originally at {v['file']}:{v['line']} {v['construct']})")
            return run_property(v["property"], args.tier, args.repo, args.evidence_dir, seed, only_rule=v["rule"])
        if not args.property:
            ap.error("--property or --replay required")
        return run_property(args.property, args.tier, args.repo, args.evidence_dir, seed, args.rule)
    except Exception:
        # a traceback in the checker is analysis-broken, never a violation
        print(f"ANALYSIS-ERROR property={args.property} checker crashed:\n{traceback.format_exc()}")
        return 2


if __name__ == "__main__":
    # os._exit-free: nothing heavy is loaded in the quick tier
    sys.exit(main())
